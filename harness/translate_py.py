"""Python -> Lean translator for a small imperative subset (DESIGN 4.2, second tie).

Unlike harness/translate.py (static data only) this module translates FUNCTION BODIES.  It is
deliberately tiny: it covers exactly the first-order, list-and-integer subset in which
`superrec2/utils/subsequences.py` is written, and raises `Unsupported(node)` on anything else
(never guesses).  The output is re-generated on every run of the check and compared with the
hand-written model BY PROOF (lean/SRVerif/Proofs/SubseqPyEquiv.lean), so that the property
theorems hold of "what the code says now" (lean/SRVerif/Properties/C18Code.lean).

Subset
------
* module level: docstring, imports, `Name = TypeVar(...)`, the functions named in the ModuleSpec
  (other top-level statements are rejected; other functions are ignored, calls to them rejected);
* parameters annotated `int` (translated as `Nat`: PRECONDITION non-negative, recorded in the
  generated header), `bool`, `Element`, `Sequence[T]` / `List[T]`;
* statements: assignment to a plain name, augmented assignment (normalised to `x = x op e`, so
  `x += 1` and `x = x + 1` give the same output), `x.append(e)` on a local list, `if/elif/else`,
  `for x in seq`, `for i, x in enumerate(seq)`, `for x in range(n)` / `range(a, b)`,
  `while x:` (and `x != 0`, `x > 0`) whose body shifts / floor-divides `x` exactly once at its top
  level (this is the recognised variant; the fuel `bit_length(x)` is generated from it),
  `break`, `continue` (for loops only), `return e`, `pass`;
* expressions: non-negative int literals, `-e`, `True/False`, names, `+ - * ** & | ^ << >>`,
  `% //` by a positive literal, one-operator comparisons, `and/or/not`, `bool(e)`, `len(e)`,
  `e.bit_length()`, `seq.index(e)`, `seq[i]`, `list(e)`, `a if c else b`, list displays.

Typing: every int expression is `Nat` or `Int`.  `a - b` and `-a` are `Int`; a variable is `Int` as
soon as one of its assignments is (`dist -= 1`); `& | ^ << >> % // bit_length`, indexing and
`range` require `Nat` operands (on a possibly negative int they are rejected, not guessed).

Normal form (what the hand-written equivalence proofs are stated against)
-----------------------------------------------------------------------
* `def f (params) : Except Err rho` -- `.error e` = Python raises `e`;
* straight-line code is a chain of `let x : T := e`; an `if` without escape (no return / break /
  continue / raising expression inside) is a tuple-valued `let (x, y) : .. := if c then .. else ..`
  over the variables it assigns; any other `if` is an `if c then .. else ..` whose branches contain
  the rest of the block (duplicated only when both branches can fall through);
* raising sub-expressions (`seq[i]`, `seq.index(v)`) are hoisted, in evaluation order, into
  `match seq[i]? with | none => <raise IndexError> | some t1_ => ..`;
* every loop is a local function `f.loopK free.. : List beta -> sigma -> Ctl sigma rho` (structural
  recursion on the iterated list) or `.. : Nat -> sigma -> Ctl sigma rho` (recursion on the fuel),
  `sigma` = tuple of the variables assigned in the body that are live before the loop, in the
  order of their first appearance in the function; `break` is `.next state`, falling off the body
  or `continue` is the recursive call, `return v` is `.ret v`, an exception is `.err e`.  The call
  site is `match f.loopK .. with | .err e_ => .. | .ret v_ => .. | .next state => <rest>`.
Local variable NAMES appear only in binders, so renaming a local does not change the meaning of any
proof script; the ORDER of first appearance fixes the state tuple.
"""
import ast
import hashlib
import json
import re
from pathlib import Path

from harness.common import LEAN, REPO

# --------------------------------------------------------------------------
# Errors and types


class Unsupported(Exception):
    """Syntax (or typing) outside the translated subset."""

    def __init__(self, node, why="unsupported syntax"):
        self.node = node
        line = getattr(node, "lineno", "?")
        try:
            src = ast.unparse(node).splitlines()[0][:70] if isinstance(node, ast.AST) else str(node)
        except Exception:  # pragma: no cover
            src = "?"
        kind = type(node).__name__ if isinstance(node, ast.AST) else "module"
        super().__init__(f"{why}: {kind} at line {line}: `{src}`")


NAT, INT, BOOL, ELEM, BOT = "Nat", "Int", "Bool", "α", "⊥"


def tlist(t):
    return ("list", t)


def is_list(t):
    return isinstance(t, tuple) and t[0] == "list"


def has_bot(t):
    return t == BOT or (is_list(t) and has_bot(t[1]))


def uses_elem(t):
    return t == ELEM or (is_list(t) and uses_elem(t[1]))


def join(a, b, node):
    if a == BOT:
        return b
    if b == BOT or a == b:
        return a
    if {a, b} == {NAT, INT}:
        return INT
    if is_list(a) and is_list(b):
        return tlist(join(a[1], b[1], node))
    raise Unsupported(node, f"incompatible types {show_ty(a)} / {show_ty(b)}")


def show_ty(t):
    if is_list(t):
        inner = show_ty(t[1])
        return "List " + (f"({inner})" if " " in inner else inner)
    return t


LEAN_KEYWORDS = set(
    "abbrev at axiom by class def deriving do else end example from fun have if import in "
    "inductive instance let match mutual namespace notation open private protected section "
    "set_option show structure syntax then theorem universe variable where with macro local "
    "partial unsafe opaque nomatch nofun this Type Prop Sort".split()
)
RESERVED = {"it_", "fuel_", "e_", "v_"}


def lean_name(name, node=None):
    if name in RESERVED or re.fullmatch(r"t\d+_", name):
        raise Unsupported(node or name, f"local name `{name}` is reserved by the translator")
    if not re.fullmatch(r"[A-Za-z_][A-Za-z0-9_]*", name):
        raise Unsupported(node or name, f"non-ASCII identifier `{name}`")
    return name + "'" if name in LEAN_KEYWORDS else name


def indent(lines, n=2):
    pad = " " * n
    return [pad + l for l in lines]


def tup(names):
    if not names:
        return "()"
    return names[0] if len(names) == 1 else "(" + ", ".join(names) + ")"


def tup_ty(types):
    if not types:
        return "Unit"
    parts = [show_ty(t) for t in types]
    return parts[0] if len(parts) == 1 else " × ".join(f"({p})" if " " in p else p for p in parts)


def paren_ty(t):
    s = show_ty(t) if is_list(t) else t
    return f"({s})" if " " in s else s


# --------------------------------------------------------------------------
# Small syntactic analyses


def stmt_target(st):
    """(name, value-expression) of an assignment statement, with `x op= e` normalised to
    `x = x op e`."""
    if isinstance(st, ast.Assign):
        if len(st.targets) != 1 or not isinstance(st.targets[0], ast.Name):
            raise Unsupported(st, "only assignments to one plain name are supported")
        return st.targets[0].id, st.value
    if isinstance(st, ast.AnnAssign):
        if not isinstance(st.target, ast.Name) or st.value is None:
            raise Unsupported(st, "only assignments to one plain name are supported")
        return st.target.id, st.value
    if isinstance(st, ast.AugAssign):
        if not isinstance(st.target, ast.Name):
            raise Unsupported(st, "only assignments to one plain name are supported")
        load = ast.copy_location(ast.Name(id=st.target.id, ctx=ast.Load()), st.target)
        return st.target.id, ast.copy_location(ast.BinOp(left=load, op=st.op, right=st.value), st)
    return None


def append_call(st):
    """(list name, argument) when `st` is `name.append(arg)`."""
    if (isinstance(st, ast.Expr) and isinstance(st.value, ast.Call)
            and isinstance(st.value.func, ast.Attribute) and st.value.func.attr == "append"
            and isinstance(st.value.func.value, ast.Name) and len(st.value.args) == 1
            and not st.value.keywords):
        return st.value.func.value.id, st.value.args[0]
    return None


def is_docstring(st):
    return (isinstance(st, ast.Expr) and isinstance(st.value, ast.Constant)
            and isinstance(st.value.value, str))


def loop_targets(st):
    t = st.target
    if isinstance(t, ast.Name):
        return [t.id]
    if isinstance(t, ast.Tuple) and all(isinstance(e, ast.Name) for e in t.elts):
        return [e.id for e in t.elts]
    raise Unsupported(st, "unsupported loop target")


def assigned(stmts):
    """Names assigned (or appended to) anywhere in the block, loop targets included."""
    out = set()
    for st in stmts:
        tv = stmt_target(st) if isinstance(st, (ast.Assign, ast.AugAssign, ast.AnnAssign)) else None
        if tv:
            out.add(tv[0])
        ap = append_call(st)
        if ap:
            out.add(ap[0])
        if isinstance(st, ast.If):
            out |= assigned(st.body) | assigned(st.orelse)
        if isinstance(st, ast.For):
            out |= set(loop_targets(st)) | assigned(st.body)
        if isinstance(st, ast.While):
            out |= assigned(st.body)
    return out


def reads(nodes):
    out = set()
    for n in nodes:
        for sub in ast.walk(n):
            if isinstance(sub, ast.Name):
                out.add(sub.id)
    return out


def always_exits(stmts):
    if not stmts:
        return False
    last = stmts[-1]
    if isinstance(last, (ast.Return, ast.Break, ast.Continue, ast.Raise)):
        return True
    if isinstance(last, ast.If):
        return always_exits(last.body) and always_exits(last.orelse)
    return False


RAISING = (ast.Subscript,)


def expr_may_raise(node):
    for sub in ast.walk(node):
        if isinstance(sub, RAISING):
            return True
        if isinstance(sub, ast.Call) and isinstance(sub.func, ast.Attribute) and sub.func.attr == "index":
            return True
    return False


def is_pure_block(stmts):
    """No escape (return / break / continue / loop / raising expression) anywhere inside."""
    for st in stmts:
        if is_docstring(st) or isinstance(st, ast.Pass):
            continue
        if isinstance(st, (ast.Assign, ast.AugAssign, ast.AnnAssign)):
            if expr_may_raise(stmt_target(st)[1]):
                return False
            continue
        ap = append_call(st)
        if ap:
            if expr_may_raise(ap[1]):
                return False
            continue
        if isinstance(st, ast.If):
            if expr_may_raise(st.test) or not is_pure_block(st.body) or not is_pure_block(st.orelse):
                return False
            continue
        return False
    return True


def contains(stmts, kinds):
    return any(isinstance(sub, kinds) for st in stmts for sub in ast.walk(st))


class Ctx:
    """Control context: how `return v`, an exception, `break`, `continue` are written here."""

    def __init__(self, ret, err, brk=None, cont=None):
        self.ret, self.err, self.brk, self.cont = ret, err, brk, cont


# --------------------------------------------------------------------------
# One function


class FunctionTranslator:
    MAX_LINES = 1500

    def __init__(self, fn, elem_names=("Element",)):
        self.fn = fn
        self.name = lean_name(fn.name, fn)
        self.elem_names = set(elem_names)
        self.aux = []  # loop definitions (text), innermost first
        self.n_loops = 0
        self.n_tmp = 0
        self.emitted = 0
        self.dry = True
        a = fn.args
        if a.vararg or a.kwarg or a.kwonlyargs or a.posonlyargs or a.defaults or fn.decorator_list:
            raise Unsupported(fn, "only plain positional parameters are supported")
        self.params = [p.arg for p in a.args]
        self.types = {}
        for p in a.args:
            self.types[p.arg] = self.annotation(p.annotation, p)
        self.vars = list(self.params)
        self.collect_vars(fn.body)
        self.ret_type = BOT
        self.infer()

    # ---- declarations

    def annotation(self, ann, where):
        if ann is None:
            raise Unsupported(where, "parameter without type annotation")
        if isinstance(ann, ast.Name):
            if ann.id == "int":
                return NAT
            if ann.id == "bool":
                return BOOL
            if ann.id in self.elem_names:
                return ELEM
        if (isinstance(ann, ast.Subscript) and isinstance(ann.value, ast.Name)
                and ann.value.id in ("Sequence", "List", "list")):
            return tlist(self.annotation(ann.slice, where))
        raise Unsupported(ann, "unsupported type annotation")

    def collect_vars(self, stmts):
        for st in stmts:
            if isinstance(st, (ast.Assign, ast.AugAssign, ast.AnnAssign)):
                self.add_var(stmt_target(st)[0], st)
            elif isinstance(st, ast.If):
                self.collect_vars(st.body)
                self.collect_vars(st.orelse)
            elif isinstance(st, ast.For):
                for t in loop_targets(st):
                    self.add_var(t, st)
                self.collect_vars(st.body)
            elif isinstance(st, ast.While):
                self.collect_vars(st.body)

    def add_var(self, name, node):
        if name != "_":
            lean_name(name, node)
        if name not in self.vars:
            self.vars.append(name)
            self.types.setdefault(name, BOT)

    # ---- type inference (flow-insensitive join, to a fixed point)

    def infer(self):
        for _ in range(12):
            before = (dict(self.types), self.ret_type)
            self.infer_block(self.fn.body)
            if before == (self.types, self.ret_type):
                return
        raise Unsupported(self.fn, "type inference did not converge")

    def set_type(self, name, ty, node):
        self.types[name] = join(self.types.get(name, BOT), ty, node)

    def infer_block(self, stmts):
        for st in stmts:
            if isinstance(st, (ast.Assign, ast.AugAssign, ast.AnnAssign)):
                name, value = stmt_target(st)
                self.set_type(name, self.expr(value, None, [])[1], st)
            elif append_call(st):
                name, arg = append_call(st)
                self.set_type(name, tlist(self.expr(arg, None, [])[1]), st)
            elif isinstance(st, ast.If):
                self.infer_block(st.body)
                self.infer_block(st.orelse)
            elif isinstance(st, ast.For):
                _, tys, _ = self.iter_parts(st, None, [])
                for t, ty in zip(loop_targets(st), tys):
                    self.set_type(t, ty, st)
                self.infer_block(st.body)
            elif isinstance(st, ast.While):
                self.infer_block(st.body)
            elif isinstance(st, ast.Return) and st.value is not None:
                self.ret_type = join(self.ret_type, self.expr(st.value, None, [])[1], st)
            elif not (is_docstring(st) or isinstance(st, (ast.Pass, ast.Break, ast.Continue, ast.Return))):
                raise Unsupported(st)

    # ---- expressions

    def tmp(self):
        self.n_tmp += 1
        return f"t{self.n_tmp}_"

    def need(self, ty, allowed, node, what):
        """Type check; `BOT` is tolerated during inference only."""
        if ty in allowed or (self.dry and ty == BOT):
            return
        raise Unsupported(node, f"{what}: operand of type {show_ty(ty)} (needs {' or '.join(allowed)})")

    def coerce(self, text, ty, want, node):
        if ty == want or self.dry:
            return text
        if ty == NAT and want == INT:
            m = re.fullmatch(r"\d+", text)
            return f"({text} : Int)" if m else f"(({text} : Nat) : Int)"
        if is_list(ty) and is_list(want) and (ty[1] == BOT or ty == want):
            return text
        raise Unsupported(node, f"cannot use {show_ty(ty)} as {show_ty(want)}")

    def arith(self, node, l, lt, r, rt, op):
        self.need(lt, (NAT, INT), node, "arithmetic")
        self.need(rt, (NAT, INT), node, "arithmetic")
        ty = INT if (INT in (lt, rt) or op == "-") else NAT
        return f"({self.coerce(l, lt, ty, node)} {op} {self.coerce(r, rt, ty, node)})", ty

    def expr(self, node, defined, hoists):
        """-> (Lean text, type).  `defined` = set of bound names (None during inference);
        raising sub-expressions are appended to `hoists` as (tmp, option-valued text, Err)."""
        if isinstance(node, ast.Constant):
            v = node.value
            if isinstance(v, bool):
                return ("true" if v else "false"), BOOL
            if isinstance(v, int) and v >= 0:
                return str(v), NAT
            raise Unsupported(node, "unsupported literal")
        if isinstance(node, ast.Name):
            if node.id == "_":
                raise Unsupported(node, "reading `_`")
            if node.id not in self.types:
                raise Unsupported(node, f"unknown name `{node.id}`")
            if defined is not None and node.id not in defined:
                raise Unsupported(node, f"`{node.id}` may be unbound here")
            return lean_name(node.id, node), self.types[node.id]
        if isinstance(node, ast.UnaryOp):
            if isinstance(node.op, ast.USub):
                t, ty = self.expr(node.operand, defined, hoists)
                self.need(ty, (NAT, INT), node, "unary minus")
                return f"(-{self.coerce(t, ty, INT, node)})", INT
            if isinstance(node.op, ast.Not):
                return f"(!{self.boolval(node.operand, defined, hoists)})", BOOL
            raise Unsupported(node, "unsupported unary operator")
        if isinstance(node, ast.BinOp):
            l, lt = self.expr(node.left, defined, hoists)
            r, rt = self.expr(node.right, defined, hoists)
            op = node.op
            if isinstance(op, ast.Add):
                if is_list(lt) or is_list(rt):
                    raise Unsupported(node, "list concatenation")
                return self.arith(node, l, lt, r, rt, "+")
            if isinstance(op, ast.Sub):
                return self.arith(node, l, lt, r, rt, "-")
            if isinstance(op, ast.Mult):
                return self.arith(node, l, lt, r, rt, "*")
            bit = {ast.BitAnd: "&&&", ast.BitOr: "|||", ast.BitXor: "^^^", ast.LShift: "<<<",
                   ast.RShift: ">>>", ast.Pow: "^"}.get(type(op))
            if bit:
                self.need(lt, (NAT,), node, f"`{bit}` on a possibly negative int")
                self.need(rt, (NAT,), node, f"`{bit}` on a possibly negative int")
                return f"({l} {bit} {r})", NAT
            if isinstance(op, (ast.Mod, ast.FloorDiv)):
                if not (isinstance(node.right, ast.Constant) and isinstance(node.right.value, int)
                        and not isinstance(node.right.value, bool) and node.right.value > 0):
                    raise Unsupported(node, "division / modulo by anything but a positive literal")
                self.need(lt, (NAT, INT), node, "division")
                if lt == INT:
                    f = "Py.ifloormod" if isinstance(op, ast.Mod) else "Py.ifloordiv"
                    return f"({f} {l} ({r} : Int))", INT
                return f"({l} {'%' if isinstance(op, ast.Mod) else '/'} {r})", NAT
            raise Unsupported(node, "unsupported binary operator")
        if isinstance(node, ast.BoolOp):
            n0 = len(hoists)
            parts = []
            for i, v in enumerate(node.values):
                t, ty = self.expr(v, defined, hoists)
                if ty != BOOL and not (self.dry and ty == BOT):
                    raise Unsupported(node, "`and` / `or` used as a value on non-bool operands")
                if i > 0 and len(hoists) > n0:
                    raise Unsupported(node, "raising expression under a short-circuit operator")
                parts.append(t)
            return "(" + (" && " if isinstance(node.op, ast.And) else " || ").join(parts) + ")", BOOL
        if isinstance(node, ast.Compare):
            return f"(decide ({self.prop(node, defined, hoists)}))", BOOL
        if isinstance(node, ast.IfExp):
            c = self.prop(node.test, defined, hoists)
            n0 = len(hoists)
            a, at = self.expr(node.body, defined, hoists)
            b, bt = self.expr(node.orelse, defined, hoists)
            if len(hoists) > n0:
                raise Unsupported(node, "raising expression inside a conditional expression")
            ty = join(at, bt, node)
            return f"(if {c} then {self.coerce(a, at, ty, node)} else {self.coerce(b, bt, ty, node)})", ty
        if isinstance(node, ast.List):
            ty = BOT
            items = [self.expr(e, defined, hoists) for e in node.elts]
            for _, t in items:
                ty = join(ty, t, node)
            return "[" + ", ".join(self.coerce(t, tt, ty, node) for t, tt in items) + "]", tlist(ty)
        if isinstance(node, ast.Subscript):
            s, st = self.expr(node.value, defined, hoists)
            if isinstance(node.slice, ast.Slice):
                raise Unsupported(node, "slices")
            i, it = self.expr(node.slice, defined, hoists)
            if not is_list(st) and not (self.dry and st == BOT):
                raise Unsupported(node, "indexing something that is not a list")
            self.need(it, (NAT,), node, "index that may be negative")
            t = self.tmp()
            hoists.append((t, f"{s}[{i}]?", ".IndexError"))
            return t, (st[1] if is_list(st) else BOT)
        if isinstance(node, ast.Call):
            return self.call(node, defined, hoists)
        raise Unsupported(node)

    def call(self, node, defined, hoists):
        if node.keywords:
            raise Unsupported(node, "keyword arguments")
        f = node.func
        if isinstance(f, ast.Name) and len(node.args) == 1:
            if f.id == "len":
                s, st = self.expr(node.args[0], defined, hoists)
                if not is_list(st) and not (self.dry and st == BOT):
                    raise Unsupported(node, "len of something that is not a list")
                return f"{s}.length" if re.fullmatch(r"[\w']+", s) else f"({s}).length", NAT
            if f.id == "bool":
                return f"(decide ({self.prop(node.args[0], defined, hoists)}))", BOOL
            if f.id == "list":
                s, st = self.expr(node.args[0], defined, hoists)
                if not is_list(st) and not (self.dry and st == BOT):
                    raise Unsupported(node, "list() of something that is not a list")
                return s, st
        if isinstance(f, ast.Attribute):
            recv, rt = self.expr(f.value, defined, hoists)
            if f.attr == "bit_length" and not node.args:
                self.need(rt, (NAT,), node, "bit_length of a possibly negative int")
                return f"(Py.bitLength {recv})", NAT
            if f.attr == "index" and len(node.args) == 1:
                if not is_list(rt) and not (self.dry and rt == BOT):
                    raise Unsupported(node, ".index on something that is not a list")
                v, vt = self.expr(node.args[0], defined, hoists)
                if is_list(rt) and not self.dry and vt != rt[1]:
                    raise Unsupported(node, ".index with an argument of another type")
                t = self.tmp()
                hoists.append((t, f"Py.index? {recv} {v}", ".ValueError"))
                return t, NAT
        raise Unsupported(node, "unsupported call")

    def boolval(self, node, defined, hoists):
        t, ty = self.expr(node, defined, hoists)
        if ty == BOOL or (self.dry and ty == BOT):
            return t
        return f"(decide ({self.truthy(t, ty, node)}))"

    def truthy(self, text, ty, node):
        if ty == BOOL:
            return f"{text} = true"
        if ty in (NAT, INT):
            return f"{text} ≠ 0"
        if is_list(ty):
            return f"{text} ≠ []"
        if self.dry:
            return text
        raise Unsupported(node, f"truth value of a value of type {show_ty(ty)}")

    def prop(self, node, defined, hoists):
        """The truth value of `node` as a decidable Lean proposition."""
        if isinstance(node, ast.UnaryOp) and isinstance(node.op, ast.Not):
            return f"¬ ({self.prop(node.operand, defined, hoists)})"
        if isinstance(node, ast.BoolOp):
            n0 = len(hoists)
            parts = []
            for i, v in enumerate(node.values):
                parts.append("(" + self.prop(v, defined, hoists) + ")")
                if i > 0 and len(hoists) > n0:
                    raise Unsupported(node, "raising expression under a short-circuit operator")
            return (" ∧ " if isinstance(node.op, ast.And) else " ∨ ").join(parts)
        if isinstance(node, ast.Call) and isinstance(node.func, ast.Name) and node.func.id == "bool" \
                and len(node.args) == 1 and not node.keywords:
            return self.prop(node.args[0], defined, hoists)
        if isinstance(node, ast.Compare):
            if len(node.ops) != 1:
                raise Unsupported(node, "chained comparison")
            l, lt = self.expr(node.left, defined, hoists)
            r, rt = self.expr(node.comparators[0], defined, hoists)
            op = node.ops[0]
            ty = join(lt, rt, node)
            l, r = self.coerce(l, lt, ty, node), self.coerce(r, rt, ty, node)
            if isinstance(op, (ast.Eq, ast.NotEq)):
                return f"{l} {'=' if isinstance(op, ast.Eq) else '≠'} {r}"
            sym = {ast.Lt: "<", ast.LtE: "≤", ast.Gt: ">", ast.GtE: "≥"}.get(type(op))
            if sym is None:
                raise Unsupported(node, "unsupported comparison operator")
            if ty not in (NAT, INT) and not (self.dry and ty == BOT):
                raise Unsupported(node, "ordering comparison on non-integers")
            return f"{l} {sym} {r}"
        t, ty = self.expr(node, defined, hoists)
        return self.truthy(t, ty, node)

    # ---- statements

    def count(self, lines):
        self.emitted += len(lines)
        if self.emitted > self.MAX_LINES:
            raise Unsupported(self.fn, "translation too large (too many `if`s that may both escape and fall through)")
        return lines

    def wrap_hoists(self, hoists, lines, ctx):
        for t, opt, err in reversed(hoists):
            lines = [f"match {opt} with", f"| none => {ctx.err(err)}", f"| some {t} =>"] + indent(lines)
        return self.count(lines)

    def state_pat(self, names):
        return tup([lean_name(n) for n in names])

    def comp(self, stmts, k, ctx, defined):
        """Lean lines (an expression of the block's result type) for `stmts`, then `k(defined)`."""
        if not stmts:
            return k(defined)
        st, rest = stmts[0], stmts[1:]

        def cont(d):
            return self.comp(rest, k, ctx, d)

        if is_docstring(st) or isinstance(st, ast.Pass):
            return cont(defined)

        if isinstance(st, (ast.Assign, ast.AugAssign, ast.AnnAssign)):
            name, value = stmt_target(st)
            if name == "_":
                raise Unsupported(st, "assignment to `_`")
            hoists = []
            text, ty = self.expr(value, defined, hoists)
            want = self.types[name]
            if is_list(want) and isinstance(value, ast.Name):
                raise Unsupported(st, "aliasing of a list (a later append would be shared)")
            if has_bot(want):
                raise Unsupported(st, f"cannot infer the type of `{name}`")
            line = f"let {lean_name(name, st)} : {show_ty(want)} := {self.coerce(text, ty, want, st)}"
            return self.wrap_hoists(hoists, [line] + cont(defined | {name}), ctx)

        ap = append_call(st)
        if ap:
            name, arg = ap
            if name in self.params:
                raise Unsupported(st, "append to a parameter (mutation visible to the caller)")
            if name not in defined:
                raise Unsupported(st, f"`{name}` may be unbound here")
            want = self.types[name]
            if not is_list(want) or has_bot(want):
                raise Unsupported(st, "append to something that is not a list")
            hoists = []
            text, ty = self.expr(arg, defined, hoists)
            line = (f"let {lean_name(name, st)} : {show_ty(want)} := "
                    f"{lean_name(name, st)} ++ [{self.coerce(text, ty, want[1], st)}]")
            return self.wrap_hoists(hoists, [line] + cont(defined), ctx)

        if isinstance(st, ast.Return):
            if st.value is None:
                raise Unsupported(st, "return without a value")
            if rest:
                raise Unsupported(rest[0], "unreachable statement")
            hoists = []
            text, ty = self.expr(st.value, defined, hoists)
            return self.wrap_hoists(hoists, ctx.ret(self.coerce(text, ty, self.ret_type, st)), ctx)

        if isinstance(st, (ast.Break, ast.Continue)):
            if rest:
                raise Unsupported(rest[0], "unreachable statement")
            fn = ctx.brk if isinstance(st, ast.Break) else ctx.cont
            if fn is None:
                raise Unsupported(st, "break / continue not supported here")
            return fn(defined)

        if isinstance(st, ast.If):
            return self.comp_if(st, rest, k, ctx, defined)
        if isinstance(st, ast.For):
            return self.comp_for(st, cont, ctx, defined)
        if isinstance(st, ast.While):
            return self.comp_while(st, cont, ctx, defined)
        raise Unsupported(st)

    def comp_if(self, st, rest, k, ctx, defined):
        hoists = []
        c = self.prop(st.test, defined, hoists)
        if is_pure_block(st.body) and is_pure_block(st.orelse):
            after = defined | (assigned(st.body) & assigned(st.orelse))
            written = [v for v in self.vars
                       if v in (assigned(st.body) | assigned(st.orelse)) and v in after]
            if not written:
                return self.wrap_hoists(hoists, self.comp(rest, k, ctx, defined), ctx)
            for v in written:
                if has_bot(self.types[v]):
                    raise Unsupported(st, f"cannot infer the type of `{v}`")
            pat = self.state_pat(written)

            def leaf(d):
                missing = [v for v in written if v not in d]
                if missing:  # cannot happen: `after` is the intersection
                    raise Unsupported(st, f"`{missing[0]}` may be unbound after this `if`")
                return [pat]

            pure = Ctx(ret=None, err=None)
            lines = [f"let {pat} : {tup_ty([self.types[v] for v in written])} :="]
            lines += indent([f"if {c} then"] + indent(self.comp(st.body, leaf, pure, defined))
                            + ["else"] + indent(self.comp(st.orelse, leaf, pure, defined)))
            lines += self.comp(rest, k, ctx, after)
            return self.wrap_hoists(hoists, lines, ctx)
        then = self.comp(st.body + ([] if always_exits(st.body) else rest), k, ctx, defined)
        other = self.comp(st.orelse + ([] if always_exits(st.orelse) else rest), k, ctx, defined)
        lines = [f"if {c} then"] + indent(then) + ["else"] + indent(other)
        return self.wrap_hoists(hoists, lines, ctx)

    # ---- loops

    def iter_parts(self, st, defined, hoists):
        """-> (Lean list expression, element types per target, Lean pattern of one element)."""
        it = st.iter
        targets = loop_targets(st)
        names = ["_" if t == "_" else lean_name(t, st) for t in targets]
        if isinstance(it, ast.Call) and isinstance(it.func, ast.Name) and not it.keywords:
            if it.func.id == "range" and len(it.args) in (1, 2) and len(targets) == 1:
                args = []
                for a in it.args:
                    t, ty = self.expr(a, defined, hoists)
                    self.need(ty, (NAT,), a, "range bound that may be negative")
                    args.append(t)
                text = (f"(List.range {args[0]})" if len(args) == 1
                        else f"(List.range' {args[0]} ({args[1]} - {args[0]}))")
                return text, [NAT], names[0]
            if it.func.id == "enumerate" and len(it.args) == 1 and len(targets) == 2:
                s, sty = self.expr(it.args[0], defined, hoists)
                if not is_list(sty) and not (self.dry and sty == BOT):
                    raise Unsupported(it, "enumerate of something that is not a list")
                return (f"({s}).zipIdx", [NAT, sty[1] if is_list(sty) else BOT],
                        f"({names[1]}, {names[0]})")
            raise Unsupported(it, "unsupported iterable")
        if len(targets) != 1:
            raise Unsupported(st, "tuple target over a plain sequence")
        s, sty = self.expr(it, defined, hoists)
        if not is_list(sty) and not (self.dry and sty == BOT):
            raise Unsupported(it, "iteration over something that is not a list")
        return s, [sty[1] if is_list(sty) else BOT], names[0]

    def loop_frame(self, st, defined, targets):
        """State variables and free variables of a loop body."""
        if st.orelse:
            raise Unsupported(st, "loop with an else clause")
        body_assigned = assigned(st.body)
        for t in targets:
            if t == "_":
                continue
            if t in defined:
                raise Unsupported(st, f"loop target `{t}` overwrites a live variable")
            if t in assigned(st.body):
                raise Unsupported(st, f"loop target `{t}` assigned in the loop body")
        state = [v for v in self.vars if v in body_assigned and v in defined and v not in targets]
        for v in state:
            if has_bot(self.types[v]):
                raise Unsupported(st, f"cannot infer the type of `{v}`")
        used = reads(st.body) | (reads([st.test]) if isinstance(st, ast.While) else set())
        free = [v for v in self.vars if v in used and v in defined and v not in state and v not in targets]
        self.n_loops += 1
        return state, free, f"{self.name}.loop{self.n_loops}"

    def binder_text(self, names):
        out = ""
        if any(uses_elem(self.types[v]) for v in self.vars) or uses_elem(self.ret_type):
            out += " {α : Type} [DecidableEq α]"
        for v in names:
            out += f" ({lean_name(v)} : {show_ty(self.types[v])})"
        return out

    def loop_call_site(self, name, free, seed, state, cont, ctx, defined):
        pat = self.state_pat(state)
        args = "".join(" " + lean_name(v) for v in free)
        ret = ctx.ret("v_")
        lines = [f"match {name}{args} {seed} {pat} with",
                 f"| .err e_ => {ctx.err('e_')}"]
        lines += [f"| .ret v_ => {ret[0]}"] if len(ret) == 1 else ["| .ret v_ =>"] + indent(ret)
        lines += [f"| .next {pat} =>"] + indent(cont(defined))
        return lines

    def comp_for(self, st, cont, ctx, defined):
        hoists = []
        targets = loop_targets(st)
        seq, tys, elem_pat = self.iter_parts(st, defined, hoists)
        for t, ty in zip(targets, tys):
            if t != "_" and (has_bot(ty) or self.types[t] != ty):
                raise Unsupported(st, f"loop target `{t}` is also used at another type")
        for v in reads([st.iter]) & assigned(st.body):
            if is_list(self.types.get(v)):
                raise Unsupported(st, f"the loop body changes the list `{v}` it iterates over")
        state, free, name = self.loop_frame(st, defined, targets)
        pat = self.state_pat(state)
        sigma = tup_ty([self.types[v] for v in state])
        rho = paren_ty(self.ret_type)
        args = "".join(" " + lean_name(v) for v in free)
        rec = [f"{name}{args} it_ {pat}"]
        lctx = Ctx(ret=lambda v: [f".ret {v}"], err=lambda e: f".err {e}",
                   brk=lambda d: [f".next {pat}"], cont=lambda d: rec)
        inner = defined | {t for t in targets if t != "_"}
        body = self.comp(st.body, lambda d: rec, lctx, inner)
        elem_ty = tup_ty(list(reversed(tys))) if len(tys) == 2 else show_ty(tys[0])
        text = [f"def {name}{self.binder_text(free)} :",
                f"    List {paren_ty(elem_ty)} → {paren_ty(sigma)} → Py.Ctl {paren_ty(sigma)} {rho}",
                f"  | [], {pat} => .next {pat}",
                f"  | {elem_pat} :: it_, {pat} =>"] + indent(body, 4)
        self.aux.append("\n".join(text))
        site = self.loop_call_site(name, free, seq, state, cont, ctx, defined)
        return self.wrap_hoists(hoists, site, ctx)

    def while_variant(self, st):
        """The loop variable `x` of `while x:` whose body shifts / floor-divides it exactly once
        at top level (so that `x` strictly decreases and `bit_length(x)` iterations suffice)."""
        t = st.test
        x = None
        if isinstance(t, ast.Name):
            x = t.id
        elif (isinstance(t, ast.Compare) and len(t.ops) == 1 and isinstance(t.left, ast.Name)
              and isinstance(t.comparators[0], ast.Constant) and t.comparators[0].value == 0
              and not isinstance(t.comparators[0].value, bool)
              and isinstance(t.ops[0], (ast.NotEq, ast.Gt))):
            x = t.left.id
        if x is None or self.types.get(x) != NAT:
            raise Unsupported(st, "while loop without a recognised variant (`while x:` on a non-negative int)")
        if contains(st.body, (ast.Continue,)):
            raise Unsupported(st, "continue inside a while loop")
        hits = []
        for s in st.body:
            tv = stmt_target(s) if isinstance(s, (ast.Assign, ast.AugAssign, ast.AnnAssign)) else None
            if tv and tv[0] == x:
                v = tv[1]
                ok = (isinstance(v, ast.BinOp) and isinstance(v.left, ast.Name) and v.left.id == x
                      and isinstance(v.right, ast.Constant) and isinstance(v.right.value, int)
                      and not isinstance(v.right.value, bool)
                      and ((isinstance(v.op, ast.RShift) and v.right.value >= 1)
                           or (isinstance(v.op, ast.FloorDiv) and v.right.value >= 2)))
                hits.append(ok)
        nested = [s for s in st.body if isinstance(s, (ast.If, ast.For, ast.While))]
        if hits != [True] or x in assigned(nested):
            raise Unsupported(st, f"while loop without a recognised variant (`{x}` must be shifted right "
                                  "exactly once at the top level of the body)")
        return x

    def comp_while(self, st, cont, ctx, defined):
        x = self.while_variant(st)
        if expr_may_raise(st.test):
            raise Unsupported(st, "raising expression in a loop condition")
        state, free, name = self.loop_frame(st, defined, [])
        c = self.prop(st.test, defined, [])
        pat = self.state_pat(state)
        sigma = tup_ty([self.types[v] for v in state])
        rho = paren_ty(self.ret_type)
        args = "".join(" " + lean_name(v) for v in free)
        rec = [f"{name}{args} fuel_ {pat}"]
        lctx = Ctx(ret=lambda v: [f".ret {v}"], err=lambda e: f".err {e}",
                   brk=lambda d: [f".next {pat}"], cont=None)
        body = self.comp(st.body, lambda d: rec, lctx, defined)
        text = [f"def {name}{self.binder_text(free)} :",
                f"    Nat → {paren_ty(sigma)} → Py.Ctl {paren_ty(sigma)} {rho}",
                f"  | 0, {pat} => if {c} then .err .Diverged else .next {pat}",
                f"  | fuel_ + 1, {pat} =>",
                f"    if {c} then"] + indent(body, 6) + [f"    else .next {pat}"]
        self.aux.append("\n".join(text))
        return self.count(self.loop_call_site(name, free, f"(Py.bitLength {lean_name(x)})", state,
                                              cont, ctx, defined))

    # ---- whole function

    def translate(self):
        self.dry = False
        self.n_tmp = 0
        if has_bot(self.ret_type):
            raise Unsupported(self.fn, "cannot infer the return type (no `return e`?)")

        def fall_off(d):
            raise Unsupported(self.fn, "the function may fall off its end (returns None)")

        ctx = Ctx(ret=lambda v: [f".ok {v}"], err=lambda e: f".error {e}")
        body = self.comp(list(self.fn.body), fall_off, ctx, set(self.params))
        head = (f"def {self.name}{self.binder_text(self.params)} : "
                f"Except Py.Err {paren_ty(self.ret_type)} :=")
        return "\n\n".join(self.aux + ["\n".join([head] + indent(body))])

    def signature(self):
        return {
            "name": self.name,
            "binders": self.binder_text(self.params).strip(),
            "args": [lean_name(p) for p in self.params],
            "arg_types": [show_ty(self.types[p]) for p in self.params],
            "ret": show_ty(self.ret_type),
        }


# --------------------------------------------------------------------------
# Modules


class ModuleSpec:
    def __init__(self, prop, source, namespace, functions, defs_file, equiv_file, proofs_module,
                 equiv, property_modules, refute, imports=()):
        self.prop = prop
        self.source = source  # path relative to the repository
        self.namespace = namespace
        self.functions = functions
        self.defs_file = defs_file  # relative to lean/
        self.equiv_file = equiv_file
        self.proofs_module = proofs_module
        self.equiv = equiv  # python function -> (model expression, Lean type, failure mode, proof term)
        self.property_modules = property_modules  # Properties/*.lean that depend on the tie
        self.refute = refute  # python function -> Lean list expression of argument tuples
        self.imports = imports

    def module_name(self, rel):
        return rel[:-5].replace("/", ".")


def translate_source(text, spec):
    """-> (Lean text of the definitions, signatures).  Raises Unsupported."""
    tree = ast.parse(text)
    fns = {}
    for st in tree.body:
        if is_docstring(st) or isinstance(st, (ast.Import, ast.ImportFrom)):
            continue
        if (isinstance(st, ast.Assign) and isinstance(st.value, ast.Call)
                and isinstance(st.value.func, ast.Name) and st.value.func.id == "TypeVar"):
            continue
        if isinstance(st, ast.FunctionDef):
            fns[st.name] = st
            continue
        raise Unsupported(st, "unsupported top-level statement")
    elem = [st.targets[0].id for st in tree.body
            if isinstance(st, ast.Assign) and isinstance(st.targets[0], ast.Name)]
    out, sigs = [], {}
    for name in spec.functions:
        if name not in fns:
            raise Unsupported(tree, f"function `{name}` not found in {spec.source}")
        for sub in ast.walk(fns[name]):
            if isinstance(sub, ast.Call) and isinstance(sub.func, ast.Name) and sub.func.id in fns:
                raise Unsupported(sub, "call of another function of the module")
        ft = FunctionTranslator(fns[name], elem_names=elem or ("Element",))
        out.append(f"/-- `{name}` (line {fns[name].lineno} of {spec.source}). -/\n" + ft.translate())
        sigs[name] = ft.signature()
    return "\n\n".join(out), sigs


def defs_file_text(spec, sha, body):
    return (
        "/-\n"
        f"  GENERATED by harness/translate_py.py from {spec.source} — do not edit.\n"
        f"  source-sha256: {sha}\n"
        "  Mechanical translation of the function bodies into the normal form described in\n"
        "  harness/translate_py.py and SRVerif/Model/PyRt.lean (core Lean only).\n"
        "  PRECONDITION recorded by the translator: parameters annotated `int` are non-negative\n"
        "  (translated as `Nat`).  `Except.error e` = the Python function raises `e`.\n"
        "-/\n"
        "import SRVerif.Model.PyRt\n\n"
        "set_option linter.unusedVariables false\n\n"
        f"namespace {spec.namespace}\nopen SR\n\n{body}\n\nend {spec.namespace}\n"
    )


def model_side(spec, name, sig):
    """Right-hand side of `gen_f_eq_model`: the model's value as a result of the generated function's type
    (a `Nat`-valued model under an `Int`-valued generated function is cast; `none` is the exception `err`)."""
    expr, ty, err, _ = spec.equiv[name]
    expr = expr.format(*sig["args"])
    if err is not None:
        return f"Py.ofOption {err} ({expr})"
    if ty == "Nat" and sig["ret"] == "Int":
        return f".ok (({expr} : Nat) : Int)"
    return f".ok ({expr})"


def equiv_file_text(spec, sha, sigs):
    lines = [
        "/-",
        f"  GENERATED by harness/translate_py.py from {spec.source} — do not edit.",
        f"  source-sha256: {sha}",
        "  Equivalence of the generated functions with the hand-written model, one theorem per",
        "  function, instantiating the hand-written loop-invariant proofs of",
        f"  {spec.proofs_module} against the definitions generated in this run.",
        "-/",
        f"import {spec.proofs_module}",
    ] + [f"import {m}" for m in spec.imports] + ["", f"namespace {spec.namespace}", "open SR", ""]
    for name in spec.functions:
        sig = sigs[name]
        proof = spec.equiv[name][3]
        a = sig["args"]
        lines += [
            f"theorem gen_{sig['name']}_eq_model {sig['binders']} :",
            f"    {sig['name']} {' '.join(a)} = {model_side(spec, name, sig)} :=",
            f"  {proof.format(*a)}",
            "",
        ]
    lines += [f"end {spec.namespace}", ""]
    return "\n".join(lines)


SUBSEQ = ModuleSpec(
    prop="C18",
    source="src/superrec2/utils/subsequences.py",
    namespace="SR.Gen.Subseq",
    functions=["subseq_complete", "mask_from_subseq", "subseq_from_mask", "subseq_segment_dist"],
    defs_file="SRVerif/Generated/SubseqPy.lean",
    equiv_file="SRVerif/Generated/SubseqPyEquiv.lean",
    proofs_module="SRVerif.Proofs.SubseqPyEquiv",
    imports=["SRVerif.Model.Subseq"],
    # python function -> (model expression, its Lean type, how the model reports failure, proof term)
    equiv={
        "subseq_complete": ("subseqComplete {0}", "Nat", None,
                            "SR.SubseqPyProofs.subseq_complete_eq {0}"),
        "mask_from_subseq": ("maskFromSubseq {0} {1}", "Nat", None,
                             "SR.SubseqPyProofs.mask_from_subseq_eq {0} {1}"),
        "subseq_from_mask": ("subseqFromMask {0} {1}", "List α", ".IndexError",
                             "SR.SubseqPyProofs.subseq_from_mask_eq {0} {1}"),
        "subseq_segment_dist": ("subseqSegmentDist {0} {1} {2}", "Int", None,
                                "SR.SubseqPyProofs.subseq_segment_dist_eq {0} {1} {2}"),
    },
    property_modules=["C18Code"],
    # bounded refutation search (classification only, never evidence): argument tuples
    refute={
        "subseq_complete": "(lists 3 5).map fun s => s",
        "mask_from_subseq": "(lists 3 4).flatMap fun c => (lists 3 5).map fun p => (c, p)",
        "subseq_from_mask": "(List.range 128).flatMap fun c => (List.range 7).map fun n => (c, List.range n)",
        "subseq_segment_dist": "(List.range 128).flatMap fun c => (List.range 128).flatMap fun p => "
                               "[(c, p, false), (c, p, true)]",
    },
)

SPECS = {"C18": SUBSEQ}


def write_if_changed(path, text):
    path.parent.mkdir(parents=True, exist_ok=True)
    if not path.exists() or path.read_text() != text:
        path.write_text(text)


def _lake(args, timeout=1800):
    from harness.common import run

    return run(["lake"] + args, cwd=LEAN, timeout=timeout)


def refute(spec, sigs):
    """Bounded search, evaluated by Lean (`#eval`, interpreter — a classifier, not a proof), for
    an input on which a generated function differs from the model.  -> {fn: witness text}."""
    lines = [f"import {spec.module_name(spec.defs_file)}"] + [f"import {m}" for m in spec.imports]
    lines += [
        "open SR",
        f"open {spec.namespace}",
        "def lists (k : Nat) : Nat → List (List Nat)",
        "  | 0 => [[]]",
        "  | n + 1 => [] :: (lists k n).flatMap fun l => (List.range k).map fun x => x :: l",
    ]
    for name in spec.functions:
        sig = sigs[name]
        a = sig["args"]
        pat = tup(a)
        call = f"{sig['name']} {' '.join(a)}"
        lines += [
            f"#eval IO.println (\"REFUTE {name} \" ++ toString (repr "
            f"((({spec.refute[name]}).find? fun {pat} => "
            f"!(Py.sameResult ({call}) ({model_side(spec, name, sig)}))))))",
        ]
    path = LEAN / ".lake" / f"tie_{spec.prop}_refute.lean"
    path.write_text("\n".join(lines) + "\n")
    rc, log = _lake(["env", "lean", str(path)], timeout=600)
    out = {}
    for m in re.finditer(r"^REFUTE (\w+) (.*)$", log, flags=re.M):
        if m.group(2).strip() != "none":
            out[m.group(1)] = m.group(2).strip()
    if rc != 0 and not out:
        return None, log[-1500:]
    return out, ""


def short(log, n=600):
    errs = re.findall(r"error: [^\n]*(?:\n(?!\S*error)[^\n]*){0,4}", log)
    return " | ".join(" ".join(e.split()) for e in errs[:2])[:n] or " ".join(log.split())[-n:]


def tie(prop, repo=None):
    """`_tie`, with the guarantee that a defect of the translator itself is never an alarm."""
    spec = SPECS.get(str(prop).upper())
    if spec is None:
        return None
    from harness.common import Infra

    try:
        return _tie(spec, repo)
    except Infra:
        raise
    except Exception as e:  # pragma: no cover
        return {"status": "unavailable", "exclude": list(spec.property_modules), "failing": [], "generated": [],
                "text": f"unavailable: translator crashed: {type(e).__name__}: {e}"}


def _tie(spec, repo=None):
    """Regenerate the translated definitions of `prop` and classify the tie.

    -> None when the property has no translator tie, else a dict
       status   "ok" | "unavailable" | "broken"
       text     the evidence line ("ok (sha256 ...)" / "unavailable: <reason>")
       exclude  Properties/ modules that must not be built / audited / counted in this run
       failing  obligations to report when status is "broken"
       generated  files written

    unavailable = the translator could not do its job (syntax outside the subset, generated
      definitions ill-typed, equivalence proof script no longer applies to the new normal form
      while no differing input exists in the bounded scope): NO ALARM, the caller falls back to the
      hand-model correspondence with the thorough budget.
    broken = the generated definitions compile, the equivalence does not, and Lean itself exhibits
      an input on which the generated function differs from the model: the proof obligation
      `gen_f_eq_model` is refuted for the code as it is now; the caller treats this like any other
      failing theorem (deep search, then VIOLATION).
    """
    src = Path(repo or REPO) / spec.source
    out = {"status": "unavailable", "exclude": list(spec.property_modules), "failing": [],
           "generated": [], "sha256": None}

    def done(status, text, **kw):
        out.update(status=status, text=text, **kw)
        if status == "ok":
            out["exclude"] = []
        return out

    try:
        text = src.read_text()
    except OSError as e:
        return done("unavailable", f"unavailable: cannot read {spec.source}: {e}")
    sha = hashlib.sha256(text.encode()).hexdigest()
    out["sha256"] = sha
    try:
        body, sigs = translate_source(text, spec)
    except Unsupported as e:
        return done("unavailable", f"unavailable: translator: {e}")
    except SyntaxError as e:
        return done("unavailable", f"unavailable: translator: syntax error: {e}")
    write_if_changed(LEAN / spec.defs_file, defs_file_text(spec, sha, body))
    write_if_changed(LEAN / spec.equiv_file, equiv_file_text(spec, sha, sigs))
    out["generated"] = ["lean/" + spec.defs_file, "lean/" + spec.equiv_file]
    rc, log = _lake(["build", spec.module_name(spec.defs_file)])
    if rc != 0:
        return done("unavailable", "unavailable: generated definitions do not compile "
                                   f"(translator defect or unsupported typing): {short(log)}")
    rc, log = _lake(["build", spec.module_name(spec.equiv_file)]
                    + [f"SRVerif.Properties.{m}" for m in spec.property_modules])
    if rc == 0:
        return done("ok", f"ok (sha256 {sha})")
    witnesses, err = refute(spec, sigs)
    if witnesses:
        what = "; ".join(f"{f} differs from the model at {w}" for f, w in sorted(witnesses.items()))
        return done("broken", f"unavailable: equivalence refuted (sha256 {sha}): {what}",
                    failing=[f"translator tie: gen_{f}_eq_model is false: generated {f} differs from the "
                             f"hand-written model at {w}" for f, w in sorted(witnesses.items())],
                    witnesses=witnesses, log=log[-3000:])
    why = ("the equivalence proofs no longer apply to the generated normal form, and no input in the bounded "
           "scope distinguishes the generated functions from the model (proof script stale)")
    if witnesses is None:
        why = f"the equivalence proofs no longer compile and the bounded comparison could not run ({short(err)})"
    return done("unavailable", f"unavailable: {why}: {short(log)}", log=log[-3000:], stale=True)


if __name__ == "__main__":
    import sys

    for p in sys.argv[1:] or ["C18"]:
        print(json.dumps(tie(p), indent=1))
