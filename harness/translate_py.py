"""Python -> Lean translator for a small imperative subset (DESIGN 4.2, second tie).

Unlike harness/translate.py (static data only) this module translates FUNCTION BODIES.  It is
deliberately tiny: it covers exactly the first-order, list-and-integer subset in which
`superrec2/utils/subsequences.py` (C18), `superrec2/utils/range_min_query.py` (C17),
`superrec2/utils/disjoint_set.py` (C20) and `superrec2/utils/toposort.py` (C19: dicts, sets, deques) are written,
and raises `Unsupported(node)` on anything else (never guesses).  The output is re-generated on every
run of the check and compared with the hand-written model BY PROOF (lean/SRVerif/Proofs/SubseqPyEquiv.lean,
lean/SRVerif/Proofs/RmqPyEquiv.lean, lean/SRVerif/Proofs/DsuPyEquiv.lean, lean/SRVerif/Proofs/TopoPyEquiv*.lean),
so that the property theorems hold of "what the code says now" (lean/SRVerif/Properties/C18Code.lean,
C17Code.lean, C20Code.lean, C19Code.lean).

Subset
------
* module level: docstring, imports, `Name = TypeVar(...)`, the functions named in the ModuleSpec
  (other top-level statements are rejected; other functions are ignored, calls to them rejected; a call
  of a function translated EARLIER in the same module is a hoisted `Except`-valued call);
  classes (only in a ModuleSpec that names methods `Class.method`): a class listed in the spec, with no
  base but `Generic[...]`, whose body holds only a docstring and the listed methods, becomes a Lean
  `structure` with one field per attribute stored by `__init__` (`self.attr = e` / `self.attr: T = e`;
  inside `__init__` an attribute is a local variable, the object is built when `__init__` falls off its
  end; `return` inside `__init__` is rejected) and one function per method, taking `self` (the
  structure) first; a method other than `__init__` may only READ attributes; other classes of the
  module (typing protocols) are ignored and any use of them is rejected;
* parameters annotated `int`, `bool`, `Element`, `Sequence[T]` / `List[T]`, `Optional[T]`.  What `int`
  means is fixed per module (`ModuleSpec.int_ty`): `Nat` with the recorded PRECONDITION "non-negative"
  (C18), or `Int`, every Python int, no precondition (C17);
* statements: assignment to a plain name, `a, b = e1, e2` (right-hand sides first), augmented
  assignment (normalised to `x = x op e`, so `x += 1` and `x = x + 1` give the same output),
  `x.append(e)` on a local list, item assignment `x[i] = e` / `x[i][j] = e` (`IndexError` when out of
  range, never extends), `assert x is not None` on a local (narrows `x` from `Optional[T]` to `T` in
  what follows; `AssertionError` otherwise), `assert cond`, `if/elif/else`, `for x in seq`,
  `for i, x in enumerate(seq)`, `for x in range(n)` / `range(a, b)`,
  `while x:` (and `x != 0`, `x > 0`) whose body shifts / floor-divides `x` exactly once at its top
  level (this is the recognised variant; the fuel `bit_length(x)` is generated from it),
  `break`, `continue` (for loops only), `return e`, `pass`;
* expressions: non-negative int literals, `None`, `-e`, `True/False`, names, `self.attr`,
  `+ - * ** & | ^ << >>`, `% //` by a positive literal, one-operator comparisons, `e is None` /
  `e is not None`, `and/or/not`, `bool(e)`, `len(e)`, `e.bit_length()`, `seq.index(e)`, `seq[i]`,
  `list(e)`, `a if c else b`, list displays, `[e] * n`, `[e for x in seq]` (one generator, no condition,
  non-raising `e`), `min(a, b)` / `max(a, b)` on ints, `min(a, b)` on elements or Optional elements.

Typing: every int expression is `Nat` or `Int`.  `a - b` and `-a` are `Int`; a variable is `Int` as
soon as one of its assignments is (`dist -= 1`).  In a module whose ints are `Nat` (C18),
`& | ^ << >> % // bit_length`, indexing and `range` require `Nat` operands (on a possibly negative int
they are rejected, not guessed).  In a module whose ints are `Int` (C17) the operations are translated
with their exact Python meaning on negative numbers:
* `seq[i]` / `seq[i] = v` with an `Int` index WRAP AROUND exactly as `list.__getitem__` does
  (`Py.getInt?` / `Py.setInt?`: `seq[-1]` is the last element, `IndexError` below `-len`); this is a
  decision: negative indices are modelled, not rejected;
* `range(n)` and `[e] * n` with `n <= 0` are empty (`Int.toNat`); `range(a, b)` needs a `Nat` start
  (its elements are then `Nat`);
* `i.bit_length()` is `Py.bitLengthInt` (of the absolute value); `a << k`, `a >> k` raise `ValueError`
  for `k < 0`; `a ** e` with an `Int` exponent is the checked `Py.powInt?`: for `e < 0` Python
  returns a float (or raises ZeroDivisionError for base 0), which is outside the subset, so the
  translated run stops with the marker
  `Err.OutOfSubset` (like `Diverged`, not a Python exception; the equivalence proofs show that it is
  never returned on the inputs they cover); `& | ^` stay `Nat`-only.
`None`: a variable / cell / result that may be `None` has type `Option T`; a plain value stored there is
embedded with `some` (`list(data)` stored as a row of Optional cells is `List.map some data`).
Elements: `Element` is opaque.  With `ModuleSpec.elem_lt` the functions take an explicit parameter
`lt_ : α → α → Except Py.Err Bool` standing for `Element.__lt__` (it may raise); `min(a, b)` is
`Py.pyMin lt_ a b` (evaluates `b < a`, keeps `a` unless it holds) and, on values that may be `None`,
`Py.pyMinOpt` (`TypeError` when one of them is `None`); `==` on such elements is rejected.  Without
it (C18) elements support `==` only (`[DecidableEq α]`).
Lists have VALUE semantics in Lean.  This is exact as long as no list is reachable through two
references, which the translator enforces syntactically: a list-typed value that is STORED (bound to a
name, appended, item-assigned, element of a display / comprehension / repetition) must be freshly built
(display, comprehension, `list(e)` of a list without nested lists, `[e] * n` with a non-list `e`);
binding or storing an existing list (`x = y`, `x = t[i]`, `t.append(x)`, `[row] * n`, `list(table)`)
is rejected, as are in-place changes of parameters, of loop targets and (outside `__init__`) of
attributes.  Elements themselves are assumed immutable.

Objects that change (C20)
-------------------------
* A method that assigns an attribute (`self.n -= 1`), an item of a list attribute (`self.parent[x] = r`,
  `self.rank[a] += 1`), appends to one, or calls such a method on `self` (least fixed point over the class)
  CHANGES `self`: it is translated in state-passing style, `def C.m (self : C) .. : Except Err (C × ρ)`,
  every change is `let self : C := { self with attr := .. }`, `return v` is `.ok (self, v)`.  A call
  `x.m(args)` of such a method is hoisted as `match C.m x args with | .error e_ => .. | .ok (x, t_) => ..`:
  it REBINDS `x` (`self`, or a local object; never a parameter).  After the call every Lean text that
  mentions `x` reads the new state, so the statement that contains the call may mention `x` elsewhere only
  where that is what Python does too: `x.attr[i]` (hoisted at its own time), another translated method
  call, the bare reference `x` handed on, the target of the assignment (`check_stale`).  List attributes
  are never re-bound outside `__init__` (changed in place only), so a reference to one cannot go stale.
  The type of an attribute is the join over the class (`groups` is stored as a `Nat` by `__init__` and
  becomes an `Int` because `unite` subtracts from it): the class is translated again until the types settle.
* A recursive method / nested function `f` becomes `f.rec_ : Nat → .. ` recursing on an explicit FUEL
  (`.error .Diverged` at 0) and `f args := f.rec_ <fuel> args`, where `<fuel>` is the expression DECLARED
  for `f` in the ModuleSpec (`len(self.parent) + 1` for `find`: not a syntactic measure — that it suffices
  under the invariant of the structure is proved in the equivalence; the marker `Diverged` is never a
  claim about Python).
* A function defined at the top of a method's body (`_binary`) must be closed (no variable of the
  enclosing function) and is translated as the separate function `C.m._f`; calls may use keywords.
* WHICH definition a name denotes must not depend on when the call runs (Review E5.1): a module-level function /
  class, a method, a nested function is defined ONCE in its scope (a second `def` / `class`, an import or an
  assignment of the same name is rejected); a nested function is defined before the first other statement of the
  enclosing body (never under an `if` / a loop), so it cannot be used before its definition; its name is bound by
  nothing else in that body; a call `f(..)` where `f` is a variable of the calling function (or, inside a nested
  function, of the enclosing one) is rejected even when a function of the module has that name.
* `self_<attr>` is the Lean name of `self.<attr>` inside `__init__`: no parameter, local, loop target or
  comprehension variable may be spelled `self` / `self_*` (Review E5.4).
* `if x is None` / `if x is not None` on an Optional local become `match x with | some x => .. | none => ..`
  (the `some` arm is typed with `x` at the inner type; a later test of `x` in either arm is decided
  statically); `if a or b` where `b` may raise, or needs `a` to be false to be typed, is `if a .. elif b ..`.
* `deepcopy(x)` (with `from copy import deepcopy`, never rebound) is `x`: value semantics.  This is exact as
  long as no object is changed while it can be reached through two references; enforced syntactically:
  mutable values are bound / stored only when fresh (display, comprehension, `list(..)`, slice, `deepcopy`,
  the result of a translated function that never returns a parameter or an attribute), parameters are
  never changed in place, and no variable is changed in place after (in source order, or in the same
  loop as) a statement that hands the bare reference on (`check_moves`).  What is RETURNED may share
  objects with the arguments, `self` included (`return [partition]`): which objects are identical is not
  part of the translation, only their values when the function returns.
  The result of a call may be BOUND to a name only when the callee returns a syntactically NEW value on every
  path (`new_value`: display, comprehension, `list(..)`, `[e] * n`, `a + b`, slice, `deepcopy`, `None`, a local
  that is not a loop target, a new call, `a if c else b` of these).  A callee that may return a parameter, an
  attribute, a ROW of one (`self.table[i]`, `xs[0]`), a loop target, or a display holding a list parameter / a
  loop target (`[xs]`, `[row]`) is `ret_alias` (Review E5.3).  The receiver of a method whose result holds a list /
  an object counts as handed on (`x = self.me()` with `return [self]`), and a row `x.rows[i]` may not be handed
  on in the statement of a call that changes `x`.
* `for v in <live collection>`: Python iterates over the list itself.  The body may change neither the variable
  iterated over nor — `for x in self.attr`, `enumerate(self.attr)`, `self.rows[i]`, `obj.m()` — the object that
  holds it, directly or through a method that changes it (Review E5.2); `range(len(self.attr))` is evaluated once.
* `x[k:]` (`List.drop`), `return a + b` on two local lists, `list(range(n))`, `x[i].append(v)`,
  `[e for x in seq if c]`, `return [x for x in local if c]` (the rows move into the result).  A
  comprehension / generator whose element expression may raise or changes an object
  (`self.find(i) for i in ..`) is the loop it abbreviates: it is lifted in front of the statement as
  `c1_ = []; for i in ..: c1_.append(..)` when it is the first thing the statement evaluates.
* `list(set(xs))` on non-negative ints is `Py.listOfSet ord_ xs`: Python does not specify the iteration
  order of a set, so the function takes the explicit parameter `ord_ : List Nat → List Nat` (the distinct
  elements in insertion order ↦ the order of iteration); theorems assume `Py.SetOrder ord_` only.
* An unannotated parameter (`count`) has the type DECLARED for it in the ModuleSpec.  Methods listed
  as `ignored_methods` (`__repr__`) are not translated; they are checked to read attributes and call
  translated methods only.

Dicts, sets, deques (C19; prelude lean/SRVerif/Model/PyRtColl.lean)
-------------------------------------------------------------------
* Types: `Mapping[K, V]` / `Dict[K, V]` is the association list `List (K × V)` of the items in INSERTION order
  (what Python specifies for a dict and its views); PRECONDITION: the keys of a dict PARAMETER are pairwise
  different.  `Set[T]` is the list of the elements in insertion order, `Deque[T]` a list.  A `TypeVar` (`Node`)
  is an opaque element type with `==` (`{α} [DecidableEq α]`; hashing is not modelled).
* dict: `d[k]` (`Py.dictGet?`, `KeyError`), `d[k] = v` (`Py.dictSet`: a key that is present keeps its place),
  `d[k] op= v` (load with `KeyError`, then store), `k in d` / `k not in d`, `d.get(k, default)`, `len(d)`,
  iteration over `d` / `d.keys()` / `d.values()` / `d.items()` (`for k, v in ..`), `{k: v for x in seq}`
  (`Py.dictOfList`), `list(d)`, `set(d)`, `deque(d)` (the keys).
* set: `set()`, `set(xs)` (`Py.setOfList`: the distinct elements in order of first insertion), `s.add(v)`,
  `s.discard(v)`, `s.remove(v)` (`KeyError`), `v in s`, `len(s)`, truth value.  ITERATION ORDER: Python does not
  specify it.  (a) A set held by a dict parameter that nothing changes (`for succs in graph.values()`,
  `graph[k]`) is given BY THE CALLER as the list of its elements in iteration order (an unchanged set iterates
  in the same order every time); theorems quantify over every such listing.  (b) Every other set `s` iterates as
  `ord_ s`, where `ord_ : List T → List T` is an explicit parameter of the generated function standing for the
  order (it receives the elements in insertion order); theorems assume `Py.SetOrder ord_` only.  `set(s)` of a set
  inserts in iteration order.  (Recorded limit: CPython's order may also depend on deleted entries; every function
  of the insertion-ordered contents is covered, a dependence on the history beyond it is not.)  A loop body may
  not change the collection it iterates over (Python raises RuntimeError).
* deque (`from collections import deque`): `deque()`, `deque(xs)`, `d.append(v)`, `x = d.popleft()` (`IndexError`;
  the call rebinds `d`), `d.remove(v)` (first occurrence, `ValueError`), iteration, `len`, truth value.
* `while xs:` (or any test without a syntactic variant): the number of iterations is DECLARED in the ModuleSpec
  (`fuel={"toposort.while1": "len(graph) + 1"}`, an expression over the live variables); `continue` allowed.
* A module-level function that changes a PARAMETER in place (`indeg[x] -= 1` in `_toposort_all_bt`: found by a
  syntactic fixed point, `mutating_functions`) is translated in state-passing style: it returns the new values of
  those parameters with its result (`Except Err (P × ρ)`), a call rebinds the variables handed to them (they must be
  locals, or such parameters of the caller; the variable may not be mentioned elsewhere in the statement).
  Module-level functions may be recursive (declared fuel); a recursive call INSIDE A LOOP goes to the extra loop
  parameter `rec_` (the function itself at the smaller fuel, `f.rec_ fuel_` at the call site of the loop).
* In-place changes of a LOOP TARGET (`x.append(e)`, `x.reverse()`), two forms (`target_mutation`):
  `for x in f(..)` over the result of a translated call that is not bound to a name (a new list of new lists that
  dies with the loop): `x` may be changed, and MOVED into another list by the last statement that mentions it
  (`ys.append(x)`); `for x in xs` over a local list of lists: the loop rebuilds `xs` from the final value of `x`
  in each iteration (no `break` / `continue`, the body may not mention `xs`).  Both are exact because the
  elements of a list built by translated code are pairwise different objects that nothing else references.
* `list(reversed(x))`, `x.reverse()`.

Normal form (what the hand-written equivalence proofs are stated against)
-----------------------------------------------------------------------
* `def f (params) : Except Err rho` -- `.error e` = Python raises `e`;
* straight-line code is a chain of `let x : T := e`; an `if` without escape (no return / break /
  continue / assert / item assignment / raising expression inside) is a tuple-valued
  `let (x, y) : .. := if c then .. else ..` over the variables it assigns; any other `if` is an
  `if c then .. else ..` whose branches contain the rest of the block (duplicated only when both
  branches can fall through);
* raising sub-expressions (`seq[i]`, `seq.index(v)`, checked `**` / shifts, the steps of an item
  assignment) are hoisted, in evaluation order, into
  `match seq[i]? with | none => <raise IndexError> | some t1_ => ..`; calls of translated functions and
  `min` on elements into `match f args with | .error e_ => <raise e_> | .ok t1_ => ..`;
* `assert x is not None` is `match x with | none => <raise AssertionError> | some x => ..`;
* every loop is a local function `f.loopK free.. : List beta -> sigma -> Ctl sigma rho` (structural
  recursion on the iterated list) or `.. : Nat -> sigma -> Ctl sigma rho` (recursion on the fuel),
  `sigma` = tuple of the variables assigned in the body that are live before the loop, in the
  order of their first appearance in the function; `break` is `.next state`, falling off the body
  or `continue` is the recursive call, `return v` is `.ret v`, an exception is `.err e`.  The call
  site is `match f.loopK .. with | .err e_ => .. | .ret v_ => .. | .next state => <rest>`.
Local variable NAMES appear only in binders, so renaming a local does not change the meaning of any
proof script; the ORDER of first appearance fixes the state tuple.
"""
import ast
import copy
import hashlib
import json
import re
from pathlib import Path

from harness.common import LEAN, REPO

# --------------------------------------------------------------------------
# Errors and types


class Unsupported(Exception):
    """Syntax (or typing) outside the translated subset."""

    def __init__(self, node, why="unsupported syntax"):
        self.node = node
        line = getattr(node, "lineno", "?")
        try:
            src = ast.unparse(node).splitlines()[0][:70] if isinstance(node, ast.AST) else str(node)
        except Exception:  # pragma: no cover
            src = "?"
        kind = type(node).__name__ if isinstance(node, ast.AST) else "module"
        super().__init__(f"{why}: {kind} at line {line}: `{src}`")


NAT, INT, BOOL, ELEM, BOT = "Nat", "Int", "Bool", "α", "⊥"


def tlist(t):
    return ("list", t)


def topt(t):
    return ("opt", t)


def tstruct(name, elem):
    return ("struct", name, bool(elem))


def is_list(t):
    return isinstance(t, tuple) and t[0] == "list"


def is_opt(t):
    return isinstance(t, tuple) and t[0] == "opt"


def is_struct(t):
    return isinstance(t, tuple) and t[0] == "struct"


# Python `set` / `collections.deque` / `dict` (C19): a set is the list of its elements in INSERTION order
# (`add` appends a new element, `remove` / `discard` erase it), a deque is a list, a dict is the association
# list of its items in insertion order (`d[k] = v` keeps the place of a key that is present).


def tset(t):
    return ("set", t)


def tdeque(t):
    return ("deque", t)


def tdict(k, v):
    return ("dict", k, v)


def is_set(t):
    return isinstance(t, tuple) and t[0] == "set"


def is_deque(t):
    return isinstance(t, tuple) and t[0] == "deque"


def is_dict(t):
    return isinstance(t, tuple) and t[0] == "dict"


def is_seq(t):
    """list / set / deque: one element type, a Lean `List`."""
    return is_list(t) or is_set(t) or is_deque(t)


def is_coll(t):
    return is_seq(t) or is_dict(t)


def has_bot(t):
    return (t == BOT or ((is_seq(t) or is_opt(t)) and has_bot(t[1]))
            or (is_dict(t) and (has_bot(t[1]) or has_bot(t[2]))))


def uses_elem(t):
    return (t == ELEM or ((is_seq(t) or is_opt(t)) and uses_elem(t[1])) or (is_struct(t) and t[2])
            or (is_dict(t) and (uses_elem(t[1]) or uses_elem(t[2]))))


def has_list(t):
    """The value is (or holds) a mutable container: it must never be referenced twice."""
    return is_coll(t) or is_struct(t) or (is_opt(t) and has_list(t[1]))


def fits(ty, want):
    """A term written at type `ty` elaborates unchanged at type `want` (`[]`, `none` are polymorphic)."""
    if ty == want or ty == BOT:
        return True
    if (is_list(ty) and is_list(want)) or (is_opt(ty) and is_opt(want)) or (is_set(ty) and is_set(want)) \
            or (is_deque(ty) and is_deque(want)):
        return fits(ty[1], want[1])
    if is_dict(ty) and is_dict(want):
        return fits(ty[1], want[1]) and fits(ty[2], want[2])
    return False


def join(a, b, node):
    if a == BOT:
        return b
    if b == BOT or a == b:
        return a
    if {a, b} == {NAT, INT}:
        return INT
    if is_list(a) and is_list(b):
        return tlist(join(a[1], b[1], node))
    if (is_set(a) and is_set(b)) or (is_deque(a) and is_deque(b)):
        return (a[0], join(a[1], b[1], node))
    if is_dict(a) and is_dict(b):
        return tdict(join(a[1], b[1], node), join(a[2], b[2], node))
    if is_opt(a) or is_opt(b):
        # `None` or a value: Optional[T]; a plain value is embedded with `some`
        inner = join(a[1] if is_opt(a) else a, b[1] if is_opt(b) else b, node)
        if is_opt(inner):
            raise Unsupported(node, "nested Optional")
        return topt(inner)
    raise Unsupported(node, f"incompatible types {show_ty(a)} / {show_ty(b)}")


def show_ty(t):
    if is_seq(t) or is_opt(t):
        inner = show_ty(t[1])
        return ("Option " if is_opt(t) else "List ") + (f"({inner})" if " " in inner else inner)
    if is_dict(t):
        k, v = show_ty(t[1]), show_ty(t[2])
        return "List (" + (f"({k})" if " " in k else k) + " × " + (f"({v})" if " " in v else v) + ")"
    if is_struct(t):
        return t[1] + (" α" if t[2] else "")
    return t


LEAN_KEYWORDS = set(
    "abbrev at axiom by class def deriving do else end example from fun have if import in "
    "inductive instance let match mutual namespace notation open private protected section "
    "set_option show structure syntax then theorem universe variable where with macro local "
    "partial unsafe opaque nomatch nofun this Type Prop Sort "
    # further tokens of Lean 4.33 that do not parse as a `let` binder (each one tried: `let calc : Nat := ..` is a
    # syntax error, i.e. a harmless renaming of a Python local made the tie `unavailable`)
    "calc forall exists using extends catch prefix infix infixl infixr postfix attribute export noncomputable "
    "termination_by decreasing_by nonrec renaming hiding unless suffices mut omit include initialize elab "
    "prelude".split()
)
RESERVED = {"it_", "fuel_", "e_", "v_", "lt_", "ord_", "rec_", "p_"}
# Lean constants that the GENERATED text itself mentions unqualified (`none`, `some x`, `true`, `decide (..)`,
# `List.map ..`, `Int.toNat ..`, `Py.getInt? ..`): a Python local of that name would be bound by a Lean `let` /
# pattern and silently CAPTURE those occurrences (`none = xs[i]; return None` would return `xs[i]`; a dead local
# `true = False` flips every generated `.. = true`).  Such a name is rejected (tie "unavailable": never a wrong
# translation, never an alarm).
CAPTURED = {"none", "some", "true", "false", "decide", "List", "Option", "Nat", "Int", "Bool",
            "Unit", "Except", "Py", "SR"}
# builtins whose Python meaning the translator relies on: a module or a function that rebinds one is rejected
BUILTINS = {"min", "max", "len", "bool", "list", "range", "enumerate", "int", "None", "True", "False"}
# names of the methods (of the classes being translated) that change their receiver: set by `translate_source`
# "functions": module-level functions that change a parameter in place -> positions of those parameters
_MUT = {"methods": set(), "functions": {}}
# methods of the built-in containers that change their receiver
CONTAINER_MUTATORS = ("add", "discard", "remove", "reverse")
INFER = "?infer"  # member of the `defined` set while types are being inferred (no binding checks)


def nn(name):
    """Marker in a `defined` set: `name` is bound, here, at the type inside its Optional
    (after `assert name is not None`)."""
    return ("nn", name)


def isnone(name):
    """Marker in a `defined` set: `name` (of Optional type) is known to be None here (the `none` arm of
    the `match` generated for `if name is None`)."""
    return ("none", name)


def lean_name(name, node=None):
    if name.startswith("self."):
        return "self_" + lean_name(name[5:], node)
    if name in BUILTINS:
        raise Unsupported(node or name, f"`{name}` rebinds a builtin the translator relies on")
    if name in RESERVED or re.fullmatch(r"t\d+_", name):
        raise Unsupported(node or name, f"local name `{name}` is reserved by the translator")
    if name in CAPTURED:
        raise Unsupported(node or name, f"local name `{name}` would capture a Lean constant used by the translation")
    if not re.fullmatch(r"[A-Za-z_][A-Za-z0-9_]*", name):
        raise Unsupported(node or name, f"non-ASCII identifier `{name}`")
    return name + "'" if name in LEAN_KEYWORDS else name


def indent(lines, n=2):
    pad = " " * n
    return [pad + l for l in lines]


def tup(names):
    if not names:
        return "()"
    return names[0] if len(names) == 1 else "(" + ", ".join(names) + ")"


def tup_ty(types):
    if not types:
        return "Unit"
    parts = [show_ty(t) for t in types]
    return parts[0] if len(parts) == 1 else " × ".join(f"({p})" if " " in p else p for p in parts)


def paren_ty(t):
    s = t if isinstance(t, str) else show_ty(t)
    return f"({s})" if " " in s else s


# --------------------------------------------------------------------------
# Small syntactic analyses


def target_key(t):
    """Key of an assignable place: a plain name, or `self.attr` (key "self.attr")."""
    if isinstance(t, ast.Name):
        return t.id
    if isinstance(t, ast.Attribute) and isinstance(t.value, ast.Name) and t.value.id == "self":
        return "self." + t.attr
    return None


def tuple_assign(st):
    """[(name, value)] when `st` is `a, b = e1, e2` (all right-hand sides are evaluated first)."""
    if (isinstance(st, ast.Assign) and len(st.targets) == 1 and isinstance(st.targets[0], ast.Tuple)
            and isinstance(st.value, ast.Tuple) and len(st.value.elts) == len(st.targets[0].elts)
            and all(isinstance(e, ast.Name) for e in st.targets[0].elts)):
        names = [e.id for e in st.targets[0].elts]
        if len(set(names)) == len(names):
            return list(zip(names, st.value.elts))
    return None


def setitem(st):
    """(key of the container, [index expressions], value) when `st` is `x[i] = v` / `x[i][j] = v`
    (`x` a plain name or `self.attr`)."""
    if not (isinstance(st, ast.Assign) and len(st.targets) == 1 and isinstance(st.targets[0], ast.Subscript)):
        return None
    idx, t = [], st.targets[0]
    while isinstance(t, ast.Subscript):
        if isinstance(t.slice, ast.Slice):
            raise Unsupported(st, "slice assignment")
        idx.insert(0, t.slice)
        t = t.value
    key = target_key(t)
    if key is None or len(idx) > 2:
        raise Unsupported(st, "item assignment is supported on `x[i]` / `x[i][j]` only")
    return key, idx, st.value


def aug_setitem(st):
    """(key of the container, index expression, operator, value) when `st` is `x[i] op= v`
    (`x` a plain name or `self.attr`)."""
    if not (isinstance(st, ast.AugAssign) and isinstance(st.target, ast.Subscript)):
        return None
    t = st.target
    key = target_key(t.value)
    if key is None or isinstance(t.slice, ast.Slice):
        raise Unsupported(st, "augmented item assignment is supported on `x[i] op= v` only")
    return key, t.slice, st.op, st.value


def stmt_target(st):
    """(name, value-expression) of an assignment statement, with `x op= e` normalised to
    `x = x op e`.  None for the other statements (and for `a, b = ..` / `x[i] = ..`)."""
    if tuple_assign(st) or setitem(st) or aug_setitem(st):
        return None
    if isinstance(st, ast.Assign):
        key = target_key(st.targets[0]) if len(st.targets) == 1 else None
        if key is None:
            raise Unsupported(st, "only assignments to one plain name are supported")
        return key, st.value
    if isinstance(st, ast.AnnAssign):
        key = target_key(st.target)
        if key is None or st.value is None:
            raise Unsupported(st, "only assignments to one plain name are supported")
        return key, st.value
    if isinstance(st, ast.AugAssign):
        key = target_key(st.target)
        if key is None:
            raise Unsupported(st, "only assignments to one plain name are supported")
        if isinstance(st.target, ast.Name):
            load = ast.copy_location(ast.Name(id=st.target.id, ctx=ast.Load()), st.target)
        else:  # self.attr op= e
            load = ast.copy_location(ast.Attribute(value=st.target.value, attr=st.target.attr, ctx=ast.Load()),
                                     st.target)
        return key, ast.copy_location(ast.BinOp(left=load, op=st.op, right=st.value), st)
    return None


def append_call(st):
    """(list name, argument) when `st` is `name.append(arg)`."""
    if (isinstance(st, ast.Expr) and isinstance(st.value, ast.Call)
            and isinstance(st.value.func, ast.Attribute) and st.value.func.attr == "append"
            and target_key(st.value.func.value) is not None and len(st.value.args) == 1
            and not st.value.keywords):
        return target_key(st.value.func.value), st.value.args[0]
    return None


def append_item(st):
    """(list key, index expression, argument) when `st` is `name[i].append(arg)`."""
    if (isinstance(st, ast.Expr) and isinstance(st.value, ast.Call)
            and isinstance(st.value.func, ast.Attribute) and st.value.func.attr == "append"
            and isinstance(st.value.func.value, ast.Subscript)
            and not isinstance(st.value.func.value.slice, ast.Slice)
            and target_key(st.value.func.value.value) is not None and len(st.value.args) == 1
            and not st.value.keywords):
        return target_key(st.value.func.value.value), st.value.func.value.slice, st.value.args[0]
    return None


def mut_receiver(node):
    """The receiver `x` of a call `x.m(..)` of a method that changes its receiver."""
    if (isinstance(node, ast.Call) and isinstance(node.func, ast.Attribute)
            and node.func.attr in _MUT["methods"] and isinstance(node.func.value, ast.Name)):
        return node.func.value.id
    return None


def container_call(st):
    """(name, method, [arguments]) when `st` is `name.add(v)` / `name.discard(v)` / `name.remove(v)` /
    `name.reverse()` on a plain name (a set, deque or list: decided by the type of `name`)."""
    if (isinstance(st, ast.Expr) and isinstance(st.value, ast.Call)
            and isinstance(st.value.func, ast.Attribute) and st.value.func.attr in CONTAINER_MUTATORS
            and isinstance(st.value.func.value, ast.Name) and not st.value.keywords
            and len(st.value.args) == (0 if st.value.func.attr == "reverse" else 1)):
        return st.value.func.value.id, st.value.func.attr, list(st.value.args)
    return None


def popleft_receiver(node):
    """The deque `d` of a call `d.popleft()`."""
    if (isinstance(node, ast.Call) and isinstance(node.func, ast.Attribute) and node.func.attr == "popleft"
            and isinstance(node.func.value, ast.Name) and not node.args and not node.keywords):
        return node.func.value.id
    return None


def mut_args(node):
    """The variables handed, by the call `node`, to parameters that the called module-level function
    changes in place: the call rebinds them (state-passing style)."""
    if (isinstance(node, ast.Call) and isinstance(node.func, ast.Name)
            and node.func.id in _MUT["functions"]):
        return [a.id for i, a in enumerate(node.args)
                if i in _MUT["functions"][node.func.id] and isinstance(a, ast.Name)]
    return []


def is_docstring(st):
    return (isinstance(st, ast.Expr) and isinstance(st.value, ast.Constant)
            and isinstance(st.value.value, str))


def loop_targets(st):
    t = st.target
    if isinstance(t, ast.Name):
        return [t.id]
    if isinstance(t, ast.Tuple) and all(isinstance(e, ast.Name) for e in t.elts):
        return [e.id for e in t.elts]
    raise Unsupported(st, "unsupported loop target")


def assigned(stmts):
    """Names assigned (or appended to) anywhere in the block, loop targets included."""
    out = set()
    for st in stmts:
        tv = stmt_target(st) if isinstance(st, (ast.Assign, ast.AugAssign, ast.AnnAssign)) else None
        if tv:
            out.add(tv[0])
        if tuple_assign(st):
            out |= {n for n, _ in tuple_assign(st)}
        if setitem(st):
            out.add(setitem(st)[0])
        ap = append_call(st)
        if ap:
            out.add(ap[0])
        if aug_setitem(st):
            out.add(aug_setitem(st)[0])
        if append_item(st):
            out.add(append_item(st)[0])
        if container_call(st):
            out.add(container_call(st)[0])
        if isinstance(st, (ast.Assign, ast.AnnAssign)) and popleft_receiver(st.value):
            out.add(popleft_receiver(st.value))
        if _MUT["methods"] and not isinstance(st, ast.FunctionDef):
            for sub in ast.walk(st):
                if mut_receiver(sub):
                    out.add(mut_receiver(sub))
        if _MUT["functions"] and not isinstance(st, ast.FunctionDef):
            for sub in ast.walk(st):
                out |= set(mut_args(sub))
        if isinstance(st, ast.If):
            out |= assigned(st.body) | assigned(st.orelse)
        if isinstance(st, ast.For):
            out |= set(loop_targets(st)) | assigned(st.body)
        if isinstance(st, ast.While):
            out |= assigned(st.body)
    return out


def reads(nodes):
    out = set()
    for n in nodes:
        for sub in ast.walk(n):
            if isinstance(sub, ast.Name):
                out.add(sub.id)
            elif isinstance(sub, ast.Attribute) and target_key(sub):
                out.add(target_key(sub))
    return out


def always_exits(stmts):
    if not stmts:
        return False
    last = stmts[-1]
    if isinstance(last, (ast.Return, ast.Break, ast.Continue, ast.Raise)):
        return True
    if isinstance(last, ast.If):
        return always_exits(last.body) and always_exits(last.orelse)
    return False


def contains(stmts, kinds):
    return any(isinstance(sub, kinds) for st in stmts for sub in ast.walk(st))


class Ctx:
    """Control context: how `return v`, an exception, `break`, `continue` are written here."""

    def __init__(self, ret, err, brk=None, cont=None, raw=None):
        self.ret, self.err, self.brk, self.cont = ret, err, brk, cont
        self.raw = raw or ret  # `return` of a value that already carries the new `self` (from an inner loop)


# --------------------------------------------------------------------------
# One function


class ModuleCtx:
    """What a function translation needs to know about its module."""

    def __init__(self, elem_names=("Element",), int_ty=NAT, elem_binders=" {α : Type} [DecidableEq α]",
                 elem_args="", has_deq=True, has_lt=False):
        self.elem_names = set(elem_names)
        self.int_ty = int_ty  # what a parameter annotated `int` becomes
        self.elem_binders = elem_binders
        self.elem_args = elem_args  # explicit arguments that go with `elem_binders` (" lt_")
        self.has_deq = has_deq  # `==` on elements is available
        self.has_lt = has_lt  # `min` on elements is available (through `lt_`)
        self.sigs = {}  # python name -> signature of the functions translated so far
        self.classes = {}  # class name -> {attribute: type}
        self.msigs = {}  # "Class.method" -> signature of the methods translated so far
        self.mutators = {}  # class name -> names of the methods that change `self`
        self.param_types = {}  # qualified python name -> {parameter: annotation text} (unannotated parameters)
        self.fuel = {}  # qualified python name -> python expression (fuel of a recursive function)
        self.attr_seed = {}  # class name -> {attribute: type}: widenings found in an earlier pass
        self.dirty = False  # an attribute was widened in this pass: translate again
        self.deepcopy = False  # `from copy import deepcopy` at module level
        self.deque = False  # `from collections import deque` at module level
        self.rebound = set()  # names of builtins outside BUILTINS (`set`, `deepcopy`) that the module rebinds


class FunctionTranslator:
    MAX_LINES = 1500

    def __init__(self, fn, elem_names=("Element",), mod=None, cls=None, parent=None):
        self.fn = fn
        self.mod = mod or ModuleCtx(elem_names)
        self.cls = cls
        self.kind = "function" if cls is None else ("init" if fn.name == "__init__" else "method")
        self.name = (cls + "." if cls else "") + lean_name(fn.name, fn)
        self.qual = (cls + "." if cls else "") + fn.name
        if parent is not None:  # a function defined inside `parent`'s body
            self.name = parent.name + "." + lean_name(fn.name, fn)
            self.qual = parent.qual + "." + fn.name
        self.parent = parent
        # a method that changes `self` returns the new object with its result (state-passing style)
        self.mut = self.kind == "method" and fn.name in self.mod.mutators.get(cls, ())
        self.recursive = any(self.is_self_call(sub) for sub in ast.walk(fn))
        self.uses_ord = False  # needs the parameter `ord_` (iteration order of a set)
        self.ord_elem = NAT  # element type of the sets whose iteration order is `ord_`
        self.ret_shares = False  # a `return [x]` / `return [x for x in ..]`: the result holds existing objects
        self.loop_stack = []  # per enclosing loop being translated: does its body use `rec_` / `ord_`
        # loop targets that are elements of a temporary list -> the statements (top level of the loop body, last
        # mention of the target) that may MOVE them into another list
        self.movable = {}
        self.n_whiles = 0
        self.ret_alias = False  # the result may BE a parameter / an attribute (a second reference to it)
        self.local_fns = {}  # functions defined inside this one: python name -> signature
        self.in_return = False
        self.loop_depth = 0
        self.cur_stmt = None
        self.elem_names = self.mod.elem_names
        self.aux = []  # loop definitions (text), innermost first
        self.n_loops = 0
        self.n_tmp = 0
        self.emitted = 0
        self.dry = True
        a = fn.args
        if a.vararg or a.kwarg or a.kwonlyargs or a.posonlyargs or a.defaults or fn.decorator_list:
            raise Unsupported(fn, "only plain positional parameters are supported")
        args = list(a.args)
        self.types = {}
        self.params = []
        if cls is not None:
            if not args or args[0].arg != "self" or args[0].annotation is not None:
                raise Unsupported(fn, "a method must take `self` first")
            args = args[1:]
            if self.kind == "method":
                if cls not in self.mod.classes:
                    raise Unsupported(fn, "method translated before `__init__`")
                attrs = self.mod.classes[cls]
                self.params.append("self")
                self.types["self"] = tstruct(cls, any(uses_elem(t) for t in attrs.values()))
        declared = self.mod.param_types.get(self.qual, {})
        for p in args:
            if p.arg == "self" or p.arg.startswith("self_"):
                # inside `__init__` the attribute `self.x` is the Lean local `self_x`: a parameter of that spelling
                # would be shadowed by it (`def __init__(self, self_total): self.total = 5; self.other = self_total`
                # stored 5)
                raise Unsupported(p, f"parameter name `{p.arg}` is reserved by the translator")
            lean_name(p.arg, p)
            self.params.append(p.arg)
            ann = p.annotation
            if ann is None and p.arg in declared:
                # the type of an unannotated parameter is DECLARED by the ModuleSpec (a recorded precondition)
                ann = ast.parse(declared[p.arg], mode="eval").body
            self.types[p.arg] = self.annotation(ann, p)
        self.param_types = dict(self.types)
        self.vars = list(self.params)
        # parameters changed in place (module-level functions only): returned with the result
        self.mut_params = []
        if cls is None and parent is None and fn.name in _MUT["functions"]:
            self.mut_params = [self.params[i] for i in _MUT["functions"][fn.name] if i < len(self.params)]
        self.listing_names = self.find_listing_names()
        for sub in ast.walk(fn):
            # `c1_`, `c2_`, ..: the lists built by lifted comprehensions
            ident = sub.id if isinstance(sub, ast.Name) else sub.arg if isinstance(sub, ast.arg) else ""
            if re.fullmatch(r"c\d+_", ident):
                raise Unsupported(sub, f"local name `{ident}` is reserved by the translator")
        self.fn_body = self.lift_comprehensions(list(fn.body))
        self.nested = [st for st in self.fn_body if isinstance(st, ast.FunctionDef)]
        self.collect_vars(self.fn_body)
        if self.kind == "init":
            for at, ty in self.mod.attr_seed.get(cls, {}).items():
                if "self." + at in self.types:
                    self.types["self." + at] = ty
        self.ret_type = BOT
        # targets of `for` loops / comprehensions: such a name denotes an ELEMENT of the collection iterated over
        # (a row of `self.table`, of a parameter), not a value built by this function
        self.loop_vars = set()
        for sub in ast.walk(ast.Module(body=self.fn_body, type_ignores=[])):
            if isinstance(sub, (ast.For, ast.comprehension)):
                self.loop_vars |= set(loop_targets(sub))
        self.translate_nested()
        self.infer()
        for sub in ast.walk(ast.Module(body=self.fn_body, type_ignores=[])):
            if isinstance(sub, ast.Return) and sub.value is not None:
                v = sub.value
                if has_list(self.ret_type) and not self.new_value(v):
                    self.ret_alias = True  # the result may BE an existing object: callers must not bind it
                for n in ast.walk(v):
                    # `return [x]`, `return [x for x in xs if ..]`: the result HOLDS an existing object
                    if isinstance(n, ast.List) and any(isinstance(e, ast.Name) and has_list(self.types.get(e.id, BOT))
                                                       for e in n.elts):
                        self.ret_shares = True
                    if isinstance(n, ast.ListComp) and isinstance(n.elt, ast.Name) \
                            and is_list(self.ret_type) and has_list(self.ret_type[1]):
                        self.ret_shares = True
                if isinstance(v, ast.Name) and v.id in self.mut_params:
                    raise Unsupported(sub, "a parameter that is changed in place is also returned")
        if has_list(self.ret_type) and not self.ret_shares:
            # the result of a callee that holds existing objects (`return wrap(b)`, `x = wrap(b); return x` with
            # `def wrap(b): return [b]`) may end up in this function's result too
            for st in self.fn_body:
                if isinstance(st, ast.FunctionDef):
                    continue
                for n in ast.walk(st):
                    if isinstance(n, ast.Call) and not self.is_self_call(n):
                        sig = self.callee_sig(n)
                        if sig is not None and (sig.get("ret_shares") or sig.get("ret_alias")):
                            self.ret_shares = True
        if self.kind == "init":
            self.attrs = {v[5:]: self.types[v] for v in self.vars if v.startswith("self.")}
            for at, ty in self.attrs.items():
                if has_bot(ty):
                    raise Unsupported(fn, f"cannot infer the type of `self.{at}`")
            if not self.attrs:
                raise Unsupported(fn, "`__init__` stores no attribute")
            self.ret_type = tstruct(cls, any(uses_elem(t) for t in self.attrs.values()))

    # ---- declarations

    def find_listing_names(self):
        """Names that only ever denote a set held by a dict PARAMETER that is never changed
        (`for succs in graph.values()`, `for k, succs in graph.items()`): such a set is given by the caller as
        the list of its elements IN ITERATION ORDER (nothing changes it, so the order is the same each time:
        no `ord_`).  Every binding of the name must be of that form."""
        good, bad = set(), set()
        for sub in ast.walk(self.fn):
            if isinstance(sub, ast.For) and isinstance(sub.iter, ast.Call) \
                    and isinstance(sub.iter.func, ast.Attribute) and isinstance(sub.iter.func.value, ast.Name) \
                    and not sub.iter.args and not sub.iter.keywords:
                p, how = sub.iter.func.value.id, sub.iter.func.attr
                if p in self.params and p not in self.mut_params and is_dict(self.types.get(p)):
                    if how == "values" and isinstance(sub.target, ast.Name):
                        good.add(id(sub.target))
                    if how == "items" and isinstance(sub.target, ast.Tuple) and len(sub.target.elts) == 2 \
                            and isinstance(sub.target.elts[1], ast.Name):
                        good.add(id(sub.target.elts[1]))
        names = set()
        for sub in ast.walk(self.fn):
            if isinstance(sub, ast.Name) and isinstance(sub.ctx, (ast.Store, ast.Del)):
                (names if id(sub) in good else bad).add(sub.id)
            if isinstance(sub, ast.arg):
                bad.add(sub.arg)
        return names - bad

    def is_listing(self, node):
        """`node` denotes a set held by a dict parameter that is never changed (see `find_listing_names`)."""
        if isinstance(node, ast.Name):
            return node.id in self.listing_names
        if isinstance(node, ast.Subscript) and isinstance(node.value, ast.Name):
            p = node.value.id
            return p in self.params and p not in self.mut_params and is_dict(self.types.get(p))
        return False

    def annotation(self, ann, where):
        if ann is None:
            raise Unsupported(where, "parameter without type annotation")
        if isinstance(ann, ast.Constant) and isinstance(ann.value, str):
            try:  # a forward reference: `"DisjointSet"`
                ann = ast.parse(ann.value, mode="eval").body
            except SyntaxError:
                raise Unsupported(where, "unsupported type annotation")
        if isinstance(ann, ast.Name) and ann.id in self.mod.classes:
            return tstruct(ann.id, any(uses_elem(t) for t in self.mod.classes[ann.id].values()))
        if isinstance(ann, ast.Name):
            if ann.id == "int":
                return self.mod.int_ty
            if ann.id == "bool":
                return BOOL
            if ann.id in self.elem_names:
                return ELEM
        if isinstance(ann, ast.Subscript) and isinstance(ann.value, ast.Name):
            if ann.value.id in ("Sequence", "List", "list"):
                return tlist(self.annotation(ann.slice, where))
            if ann.value.id == "Optional":
                inner = self.annotation(ann.slice, where)
                if is_opt(inner):
                    raise Unsupported(ann, "nested Optional")
                return topt(inner)
            if ann.value.id in ("Set", "set", "Deque", "deque"):
                inner = self.annotation(ann.slice, where)
                if has_list(inner):
                    raise Unsupported(ann, "set / deque of mutable values")
                return tset(inner) if ann.value.id in ("Set", "set") else tdeque(inner)
            if ann.value.id in ("Mapping", "Dict", "dict") and isinstance(ann.slice, ast.Tuple) \
                    and len(ann.slice.elts) == 2:
                k = self.annotation(ann.slice.elts[0], where)
                v = self.annotation(ann.slice.elts[1], where)
                if has_list(k) or is_opt(k):
                    raise Unsupported(ann, "dict whose keys are not plain values")
                return tdict(k, v)
        raise Unsupported(ann, "unsupported type annotation")

    def collect_vars(self, stmts):
        for st in stmts:
            if tuple_assign(st):
                for n, _ in tuple_assign(st):
                    self.add_var(n, st)
            elif isinstance(st, (ast.Assign, ast.AugAssign, ast.AnnAssign)) and stmt_target(st):
                self.add_var(stmt_target(st)[0], st)
            elif isinstance(st, ast.If):
                self.collect_vars(st.body)
                self.collect_vars(st.orelse)
            elif isinstance(st, ast.For):
                for t in loop_targets(st):
                    self.add_var(t, st)
                self.collect_vars(st.body)
            elif isinstance(st, ast.While):
                self.collect_vars(st.body)

    def add_var(self, name, node):
        if name.startswith("self."):
            if self.mut:
                return  # an attribute of `self`, not a local variable
            if self.kind != "init":
                raise Unsupported(node, "assignment to an attribute outside `__init__`")
        elif name.startswith("self_") or name == "self":
            raise Unsupported(node, f"local name `{name}` is reserved by the translator")
        if name != "_":
            lean_name(name, node)
        if name not in self.vars:
            self.vars.append(name)
            self.types.setdefault(name, BOT)

    # ---- recursion, nested functions, lifted comprehensions

    def is_self_call(self, node):
        """`node` is a call of the function being translated (a recursive call)."""
        if not isinstance(node, ast.Call):
            return False
        f = node.func
        if self.kind == "method":
            return (isinstance(f, ast.Attribute) and isinstance(f.value, ast.Name) and f.value.id == "self"
                    and f.attr == self.fn.name)
        return self.kind == "function" and isinstance(f, ast.Name) and f.id == self.fn.name

    def needs_lift(self, node):
        """A comprehension whose element expression calls a translated function / method or indexes a
        list (it may raise or change an object): it is translated as the loop it abbreviates."""
        if len(node.generators) != 1 or node.generators[0].ifs or node.generators[0].is_async:
            return False
        for sub in ast.walk(node.elt):
            if isinstance(sub, ast.Subscript):
                return True
            if isinstance(sub, ast.Call) and not (isinstance(sub.func, ast.Name) and sub.func.id in BUILTINS):
                return True
        return False

    def lift_in(self, e, st):
        """-> (statements to run first, rewritten expression).  The comprehension must be the first
        thing the statement evaluates, bare names and constants apart (a comprehension cannot rebind
        them), so that running it earlier changes nothing."""
        if isinstance(e, (ast.ListComp, ast.GeneratorExp)) and self.needs_lift(e):
            name = f"c{len(self.lifted) + 1}_"
            self.lifted.add(name)
            gen = e.generators[0]

            def at(n):
                return ast.fix_missing_locations(ast.copy_location(n, e))

            init = at(ast.Assign(targets=[ast.Name(id=name, ctx=ast.Store())],
                                 value=ast.List(elts=[], ctx=ast.Load())))
            push = ast.Expr(value=ast.Call(
                func=ast.Attribute(value=ast.Name(id=name, ctx=ast.Load()), attr="append", ctx=ast.Load()),
                args=[e.elt], keywords=[]))
            loop = at(ast.For(target=gen.target, iter=gen.iter, body=[push], orelse=[]))
            return [init, loop], at(ast.Name(id=name, ctx=ast.Load()))
        if isinstance(e, ast.Call) and isinstance(e.func, ast.Name) \
                and not any(isinstance(a, ast.Starred) for a in e.args):
            parts = list(e.args) + [k.value for k in e.keywords]
            for i, a in enumerate(parts):
                pre, new = self.lift_in(a, st)
                if pre:
                    call = copy.copy(e)
                    if i < len(e.args):
                        call.args = e.args[:i] + [new] + e.args[i + 1:]
                    else:
                        j = i - len(e.args)
                        kw = copy.copy(e.keywords[j])
                        kw.value = new
                        call.keywords = e.keywords[:j] + [kw] + e.keywords[j + 1:]
                    return pre, call
                if not isinstance(a, (ast.Name, ast.Constant)):
                    break
        return [], e

    def lift_comprehensions(self, stmts):
        if not hasattr(self, "lifted"):
            self.lifted = set()
        out = []
        for st in stmts:
            if isinstance(st, (ast.If, ast.For, ast.While)):
                st = copy.copy(st)
                st.body = self.lift_comprehensions(st.body)
                st.orelse = self.lift_comprehensions(st.orelse)
            elif isinstance(st, (ast.Return, ast.Assign, ast.AnnAssign)) and st.value is not None:
                pre, new = self.lift_in(st.value, st)
                if pre:
                    st = copy.copy(st)
                    st.value = new
                    out += pre
            out.append(st)
        return out

    def translate_nested(self):
        """Functions defined at the top level of the body: translated as separate (closed) functions."""
        bound_elsewhere = assigned([b for b in self.fn_body if not isinstance(b, ast.FunctionDef)]) | set(self.params)
        for sub in ast.walk(ast.Module(body=[b for b in self.fn_body if not isinstance(b, ast.FunctionDef)],
                                       type_ignores=[])):
            if isinstance(sub, (ast.For, ast.comprehension)):
                bound_elsewhere |= set(loop_targets(sub))
        seen = set()
        for st in self.nested:
            if st.name in seen or st.name in bound_elsewhere:
                # Python calls whatever the name holds at the time of the call; the translation would call the
                # LAST definition everywhere
                raise Unsupported(st, f"the nested function `{st.name}` is defined twice / rebound")
            seen.add(st.name)
        seen_other = False
        for st in self.fn_body:
            if isinstance(st, ast.FunctionDef):
                if seen_other:
                    raise Unsupported(st, "a nested function must be defined before the first statement of the body")
            elif not is_docstring(st):
                seen_other = True
        for st in self.nested:
            if self.parent is not None:
                raise Unsupported(st, "function nested twice")
            local = {a.arg for a in st.args.args} | assigned(st.body) | {st.name}
            for sub in ast.walk(st):
                if isinstance(sub, (ast.comprehension, ast.For)):
                    local |= set(loop_targets(sub))
            known = local | BUILTINS | set(self.mod.classes) | set(self.mod.sigs) | {"deepcopy", "set"}
            # (a name bound by the enclosing function is ITS variable inside the nested function too, even when a
            # function of the module has the same name)
            known -= (bound_elsewhere | {n.name for n in self.nested}) - local
            for b in st.body:
                for sub in ast.walk(b):
                    if isinstance(sub, ast.Name) and sub.id not in known:
                        raise Unsupported(sub, f"the nested function `{st.name}` uses `{sub.id}`, a variable "
                                               "of the enclosing function")
            ft = FunctionTranslator(st, mod=self.mod, cls=None, parent=self)
            self.local_fns[st.name] = ft

    def attr_types(self):
        return self.mod.classes[self.cls]

    def widen_attr(self, attr, ty, node):
        """An attribute assigned by a method: its type is the join over the whole class (the class is
        translated again when a method widens what `__init__` stored)."""
        attrs = self.attr_types()
        if attr not in attrs:
            raise Unsupported(node, f"unknown attribute `self.{attr}`")
        new = join(attrs[attr], ty, node)
        if new != attrs[attr]:
            attrs[attr] = new
            self.mod.attr_seed.setdefault(self.cls, {})[attr] = new
            self.mod.dirty = True

    def is_attr_key(self, key):
        return self.kind == "method" and key.startswith("self.")

    def assigned_(self, stmts):
        """`assigned`, with the attributes of `self` changed by a method counted as `self`."""
        out = assigned(stmts)
        if self.kind == "method" and any(k.startswith("self.") for k in out):
            out = {k for k in out if not k.startswith("self.")} | {"self"}
        return out

    def place(self, key, node, defined):
        """-> (Lean text, type) of the assignable place `key` (a local, or an attribute of `self`)."""
        if self.is_attr_key(key):
            attrs = self.attr_types()
            if key[5:] not in attrs:
                raise Unsupported(node, f"unknown attribute `{key}`")
            self.var_ref("self", node, defined)
            return f"self.{lean_name(key[5:], node)}", attrs[key[5:]]
        return lean_name(key, node), self.types[key]

    def store(self, key, text, node):
        """The `let` that writes `text` into the place `key`."""
        if self.is_attr_key(key):
            return (f"let self : {show_ty(self.types['self'])} := "
                    f"{{ self with {lean_name(key[5:], node)} := {text} }}")
        return f"let {lean_name(key, node)} : {show_ty(self.types[key])} := {text}"

    def rho(self):
        """The result type of the Lean function (with the new `self` for a method that changes it)."""
        if self.mut:
            return f"({show_ty(self.types['self'])} × {paren_ty(self.ret_type)})"
        if self.mut_params:
            parts = [paren_ty(self.param_types[p]) for p in self.mut_params] + [paren_ty(self.ret_type)]
            return "(" + " × ".join(parts) + ")"
        return paren_ty(self.ret_type)

    def ret_text(self, v):
        if self.mut_params:
            return "(" + ", ".join([lean_name(p) for p in self.mut_params] + [v]) + ")"
        return f"(self, {v})" if self.mut else v

    # ---- type inference (flow-insensitive join, to a fixed point)

    def infer(self):
        for _ in range(12):
            before = (dict(self.types), self.ret_type)
            self.infer_block(self.fn_body, {INFER})
            if before == (self.types, self.ret_type):
                return
        raise Unsupported(self.fn, "type inference did not converge")

    def set_type(self, name, ty, node):
        if self.is_attr_key(name):
            return self.widen_attr(name[5:], ty, node)
        self.types[name] = join(self.types.get(name, BOT), ty, node)

    def none_test(self, test, defined):
        """(x, negated) when `test` is `x is not None` (negated = False) / `x is None` (True) on a local
        of Optional type that is not narrowed yet: the branch in which `x` is not None is translated
        with `x` bound at the inner type."""
        if (isinstance(test, ast.Compare) and len(test.ops) == 1 and isinstance(test.left, ast.Name)
                and isinstance(test.ops[0], (ast.Is, ast.IsNot))
                and isinstance(test.comparators[0], ast.Constant) and test.comparators[0].value is None):
            x = test.left.id
            if x in self.types and is_opt(self.types[x]) and nn(x) not in defined and x != "self":
                return x, isinstance(test.ops[0], ast.Is)
        return None, False

    def static_none_test(self, test, defined):
        """True / False when `test` is `x is None` / `x is not None` on a local whose being None or not
        is already settled by an enclosing test (its value has not changed since); None otherwise."""
        if (isinstance(test, ast.Compare) and len(test.ops) == 1 and isinstance(test.left, ast.Name)
                and isinstance(test.ops[0], (ast.Is, ast.IsNot))
                and isinstance(test.comparators[0], ast.Constant) and test.comparators[0].value is None):
            x = test.left.id
            if x in self.types and is_opt(self.types[x]) and INFER not in defined:
                if nn(x) in defined:
                    return isinstance(test.ops[0], ast.IsNot)
                if isnone(x) in defined:
                    return isinstance(test.ops[0], ast.Is)
        return None

    def split_test(self, st):
        """`if a or b: X else: Y` -> `if a: X elif b: X else: Y` when `b` must not be evaluated (or
        typed) before `a` is known to be false: `b` has a raising sub-expression, or `a` is
        `x is None` and `b` uses `x`."""
        t = st.test
        if not (isinstance(t, ast.BoolOp) and isinstance(t.op, ast.Or) and len(t.values) == 2):
            return st
        a, b = t.values
        x, neg = self.none_test(a, set())
        if not ((x is not None and neg and x in reads([b])) or self.may_raise(b)):
            return st
        inner = ast.copy_location(ast.If(test=b, body=st.body, orelse=st.orelse), st)
        return ast.copy_location(ast.If(test=a, body=st.body, orelse=[inner]), st)

    def narrow_target(self, st):
        """`x` when `st` is `assert x is not None` on a plain local name."""
        if (isinstance(st, ast.Assert) and isinstance(st.test, ast.Compare) and len(st.test.ops) == 1
                and isinstance(st.test.ops[0], ast.IsNot) and isinstance(st.test.left, ast.Name)
                and isinstance(st.test.comparators[0], ast.Constant)
                and st.test.comparators[0].value is None):
            return st.test.left.id
        return None

    def drop_nn(self, env, names):
        return env - {nn(n) for n in names} - {isnone(n) for n in names}

    def infer_block(self, stmts, env):
        """Joins the types of everything assigned in `stmts`; `env` carries the narrowings
        (`assert x is not None`) in force, it is threaded through the block."""
        for st in stmts:
            if tuple_assign(st):
                pairs = tuple_assign(st)
                tys = [self.expr(v, env, [])[1] for _, v in pairs]
                for (n, _), ty in zip(pairs, tys):
                    self.set_type(n, ty, st)
                env = self.drop_nn(env, [n for n, _ in pairs])
            elif setitem(st):
                key, idx, value = setitem(st)
                ty = self.expr(value, env, [])[1]
                if key not in self.types and not self.is_attr_key(key):
                    raise Unsupported(st, f"unknown name `{key}`")
                if is_dict(self.types.get(key)) and len(idx) == 1:
                    ty = tdict(self.expr(idx[0], env, [])[1], ty)
                else:
                    for _ in idx:
                        ty = tlist(ty)
                self.set_type(key, ty, st)
            elif aug_setitem(st):
                key, ix, op, value = aug_setitem(st)
                if key not in self.types and not self.is_attr_key(key):
                    raise Unsupported(st, f"unknown name `{key}`")
                load = ast.copy_location(ast.BinOp(left=st.target, op=op, right=value), st)
                if is_dict(self.types.get(key)):
                    self.set_type(key, tdict(self.expr(ix, env, [])[1], self.expr(load, env, [])[1]), st)
                else:
                    self.set_type(key, tlist(self.expr(load, env, [])[1]), st)
            elif container_call(st) and not is_struct(self.types.get(container_call(st)[0])):
                name, how, args = container_call(st)
                if name not in self.types:
                    raise Unsupported(st, f"unknown name `{name}`")
                if how == "add":
                    self.set_type(name, tset(self.expr(args[0], env, [])[1]), st)
                elif args:
                    self.expr(args[0], env, [])
            elif append_item(st):
                key, ix, arg = append_item(st)
                if key not in self.types and not self.is_attr_key(key):
                    raise Unsupported(st, f"unknown name `{key}`")
                self.set_type(key, tlist(tlist(self.expr(arg, env, [])[1])), st)
            elif isinstance(st, ast.FunctionDef) and st in self.nested:
                pass
            elif isinstance(st, ast.Expr) and isinstance(st.value, ast.Call) and not append_call(st):
                self.expr(st.value, env, [])  # a call made for its effect on an object
            elif isinstance(st, (ast.Assign, ast.AugAssign, ast.AnnAssign)):
                name, value = stmt_target(st)
                if isinstance(st, ast.AnnAssign):
                    self.set_type(name, self.annotation(st.annotation, st), st)
                self.set_type(name, self.expr(value, env, [])[1], st)
                env = self.drop_nn(env, [name])
            elif append_call(st):
                name, arg = append_call(st)
                mk = tdeque if is_deque(self.types.get(name)) else tlist
                self.set_type(name, mk(self.expr(arg, env, [])[1]), st)
            elif isinstance(st, ast.If):
                st = self.split_test(st)
                x, neg = self.none_test(st.test, env)
                self.infer_block(st.body, env | ({nn(x)} if x and not neg else set()))
                self.infer_block(st.orelse, env | ({nn(x)} if x and neg else set()))
                env = self.drop_nn(env, assigned(st.body) | assigned(st.orelse))
            elif isinstance(st, ast.For):
                env = self.drop_nn(env, assigned(st.body))
                _, tys, _ = self.iter_parts(st, env, [])
                for t, ty in zip(loop_targets(st), tys):
                    self.set_type(t, ty, st)
                self.infer_block(st.body, env)
            elif isinstance(st, ast.While):
                env = self.drop_nn(env, assigned(st.body))
                self.infer_block(st.body, env)
            elif isinstance(st, ast.Return) and st.value is not None:
                self.in_return = True
                try:
                    self.ret_type = join(self.ret_type, self.expr(st.value, env, [])[1], st)
                finally:
                    self.in_return = False
            elif isinstance(st, ast.Assert):
                x = self.narrow_target(st)
                if x is not None and x in self.types and not x.startswith("self."):
                    env = env | {nn(x)}
            elif not (is_docstring(st) or isinstance(st, (ast.Pass, ast.Break, ast.Continue, ast.Return))):
                raise Unsupported(st)

    # ---- expressions

    def tmp(self):
        self.n_tmp += 1
        return f"t{self.n_tmp}_"

    def need(self, ty, allowed, node, what):
        """Type check; `BOT` is tolerated during inference only."""
        if ty in allowed or (self.dry and ty == BOT):
            return
        raise Unsupported(node, f"{what}: operand of type {show_ty(ty)} (needs {' or '.join(allowed)})")

    def coerce(self, text, ty, want, node):
        if ty == want or self.dry:
            return text
        if ty == NAT and want == INT:
            m = re.fullmatch(r"\d+", text)
            return f"({text} : Int)" if m else f"(({text} : Nat) : Int)"
        if fits(ty, want):
            return text
        if is_opt(want) and not is_opt(ty):
            # a value stored where `None` is possible too: embedded with `some`
            return f"(some {self.coerce(text, ty, want[1], node)})"
        if is_list(ty) and is_list(want) and is_opt(want[1]) and ty[1] == want[1][1] and not has_list(ty[1]):
            # a fresh list of values stored as a row of cells that may be `None`
            return f"(List.map some {text})"
        if is_dict(ty) and is_dict(want) and ty[1] == want[1] and (ty[2], want[2]) == (NAT, INT):
            # a fresh dict of non-negative ints stored where the values may become negative
            return f"(List.map (fun p_ => (p_.1, ((p_.2 : Nat) : Int))) {text})"
        raise Unsupported(node, f"cannot use {show_ty(ty)} as {show_ty(want)}")

    def arith(self, node, l, lt, r, rt, op):
        self.need(lt, (NAT, INT), node, "arithmetic")
        self.need(rt, (NAT, INT), node, "arithmetic")
        ty = INT if (INT in (lt, rt) or op == "-") else NAT
        return f"({self.coerce(l, lt, ty, node)} {op} {self.coerce(r, rt, ty, node)})", ty

    def may_raise(self, node):
        """Whether evaluating `node` needs a hoisted (raising) sub-expression."""
        hoists = []
        saved = (self.n_tmp, self.dry)
        self.dry = True
        try:
            self.expr(node, {INFER}, hoists)
        finally:
            self.n_tmp, self.dry = saved
        return bool(hoists)

    def var_ref(self, key, node, defined):
        if key not in self.types:
            raise Unsupported(node, f"unknown name `{key}`")
        if INFER not in defined and key not in defined:
            raise Unsupported(node, f"`{key}` may be unbound here")
        ty = self.types[key]
        if nn(key) in defined and is_opt(ty):
            ty = ty[1]
        return lean_name(key, node), ty

    def check_fresh(self, value, ty, node):
        """Lists have value semantics in the translation: a list (row, table, object) that is STORED
        (bound to a name, put into another container) must be a freshly built one, never a second
        reference to an existing list (Python would share later in-place changes)."""
        if not has_list(ty) or self.dry:
            return
        fresh = (isinstance(value, (ast.List, ast.ListComp, ast.DictComp))
                 or (isinstance(value, ast.Call) and isinstance(value.func, ast.Name)
                     and value.func.id in ("list", "set", "deque"))
                 or (isinstance(value, ast.BinOp) and isinstance(value.op, ast.Mult)))
        if isinstance(value, ast.Call) and self.fresh_call(value):
            fresh = True
        if isinstance(value, ast.Subscript) and isinstance(value.slice, ast.Slice):
            fresh = True  # a slice is a new list (of elements that are not lists: checked where it is built)
        if not fresh:
            raise Unsupported(node, "aliasing of a list (a later in-place change would be shared)")

    def new_value(self, v):
        """The RETURNED expression `v` (of a type that is or holds a list / an object) is syntactically a NEW
        object: a display, a comprehension, `list(..)` / `set(..)` / `deque(..)`, `[e] * n`, `a + b`, a slice,
        `deepcopy(..)`, the result of a translated function that is itself new, `None`, a local that is not a loop
        target (locals are only ever bound to new values: `check_fresh`), `a if c else b` on two of these.
        Anything else — a parameter, an attribute, a ROW of one (`self.table[i]`, `xs[0]`), a loop target
        ranging over one — may be a second reference to an object the caller / `self` still holds: the function
        is `ret_alias`, callers must not bind its result.  A display that holds a list PARAMETER or a loop target
        (`return [xs]`, `return [row]`) is no better: a row of the result IS the caller's list (`r[0].append(..)`).
        (An OBJECT held by the result, `return [partition]`, is only `ret_shares`: an object inside a list can be
        changed by no translated statement — a method call needs a plain name as its receiver.)"""
        if isinstance(v, ast.Constant):
            return True
        if isinstance(v, ast.IfExp):
            return self.new_value(v.body) and self.new_value(v.orelse)
        if isinstance(v, ast.Name):
            return v.id not in self.params and v.id not in self.loop_vars
        if isinstance(v, ast.List):
            for e in v.elts:  # (an element that is not a name / a display is checked by `check_fresh`)
                if isinstance(e, ast.Name) and (e.id in self.params or e.id in self.loop_vars) \
                        and has_list(self.types.get(e.id, BOT)) and not is_struct(self.types.get(e.id)):
                    return False
                if isinstance(e, ast.List) and not self.new_value(e):
                    return False
            return True
        if isinstance(v, (ast.ListComp, ast.DictComp)):
            return True  # (`[x for x in seq if c]` on rows `x`: `seq` must be a local that dies, see `listcomp`)
        if isinstance(v, ast.BinOp) and isinstance(v.op, ast.Mult):
            return True  # `[e] * n`, `e` not a list
        if isinstance(v, ast.BinOp) and isinstance(v.op, ast.Add):
            # `a + b`: a new list; its ROWS are those of `a` and `b` (locals that die with the `return`)
            return not any(isinstance(x, ast.Name) and x.id in self.loop_vars for x in (v.left, v.right))
        if isinstance(v, ast.Subscript) and isinstance(v.slice, ast.Slice):
            return True
        if isinstance(v, ast.Call) and isinstance(v.func, ast.Name) and v.func.id in ("list", "set", "deque"):
            return True
        return isinstance(v, ast.Call) and self.fresh_call(v)

    def callee_sig(self, node):
        """The translator of the (nested / module / method) function called by `node`, or its signature."""
        f = node.func
        if isinstance(f, ast.Name):
            if f.id in self.local_fns:
                return self.local_fns[f.id].signature()
            if f.id == self.fn.name and (self.parent is not None or self.kind == "function"):
                return self.signature()
            return self.mod.sigs.get(f.id)
        if isinstance(f, ast.Attribute) and isinstance(f.value, ast.Name) and is_struct(self.types.get(f.value.id)):
            q = f"{self.types[f.value.id][1]}.{f.attr}"
            return self.signature() if q == self.qual else self.mod.msigs.get(q)
        return None

    def fresh_call(self, node):
        """The value of this call is a NEW object: `deepcopy(x)`, or the result of a translated function
        that never returns one of its parameters / attributes (objects INSIDE the result may still be
        shared with the arguments: `check_moves` forbids changing those afterwards)."""
        f = node.func
        if isinstance(f, ast.Name) and f.id == "deepcopy" and self.mod.deepcopy:
            return True
        sig = self.callee_sig(node)
        return sig is not None and not sig.get("ret_alias")

    def temp_call(self, node):
        """The value of this call is a NEW list none of whose elements can be reached in another way:
        the result of a translated function that never returns (or puts into its result) an existing
        object.  Such a list, iterated without being bound to a name, dies with the loop."""
        if not (isinstance(node, ast.Call) and isinstance(node.func, ast.Name)):
            return False
        sig = self.callee_sig(node)
        return sig is not None and not sig.get("ret_alias") and not sig.get("ret_shares")

    def expr(self, node, defined, hoists, want=None):
        """-> (Lean text, type).  (`want`: the type of the place a dict comprehension is stored in.)  `defined` = set of bound names (contains INFER during inference) and
        of narrowings `nn(x)`; raising sub-expressions are appended to `hoists` as
        (tmp, option-valued text, Err) or (tmp, Except-valued text, None)."""
        if isinstance(node, ast.Constant):
            v = node.value
            if isinstance(v, bool):
                return ("true" if v else "false"), BOOL
            if isinstance(v, int) and v >= 0:
                return str(v), NAT
            if v is None:
                return "none", topt(BOT)
            raise Unsupported(node, "unsupported literal")
        if isinstance(node, ast.Name):
            if node.id == "_":
                raise Unsupported(node, "reading `_`")
            if node.id == "self" and self.kind == "init":
                raise Unsupported(node, "`self` used as a value inside `__init__`")
            return self.var_ref(node.id, node, defined)
        if isinstance(node, ast.Attribute):
            key = target_key(node)
            if key is None or self.cls is None:
                raise Unsupported(node, "unsupported attribute access")
            if self.kind == "init":
                return self.var_ref(key, node, defined)
            attrs = self.mod.classes[self.cls]
            if node.attr not in attrs:
                raise Unsupported(node, f"unknown attribute `{key}`")
            self.var_ref("self", node, defined)
            return f"self.{lean_name(node.attr, node)}", attrs[node.attr]
        if isinstance(node, ast.UnaryOp):
            if isinstance(node.op, ast.USub):
                t, ty = self.expr(node.operand, defined, hoists)
                self.need(ty, (NAT, INT), node, "unary minus")
                return f"(-{self.coerce(t, ty, INT, node)})", INT
            if isinstance(node.op, ast.Not):
                return f"(!{self.boolval(node.operand, defined, hoists)})", BOOL
            raise Unsupported(node, "unsupported unary operator")
        if isinstance(node, ast.BinOp):
            if isinstance(node.op, ast.Mult) and (isinstance(node.left, ast.List) or isinstance(node.right, ast.List)):
                return self.replicate(node, defined, hoists)
            l, lt = self.expr(node.left, defined, hoists)
            r, rt = self.expr(node.right, defined, hoists)
            op = node.op
            if isinstance(op, ast.Add):
                if is_list(lt) or is_list(rt):
                    # a new list; the operands must be locals that die with the `return`
                    ok = (self.in_return and all(isinstance(x, ast.Name) and x.id not in self.params
                                                 for x in (node.left, node.right)))
                    if not ok or not (is_list(lt) and is_list(rt)):
                        raise Unsupported(node, "list concatenation (supported: `return a + b` on two local lists)")
                    return f"({l} ++ {r})", join(lt, rt, node)
                return self.arith(node, l, lt, r, rt, "+")
            if isinstance(op, ast.Sub):
                return self.arith(node, l, lt, r, rt, "-")
            if isinstance(op, ast.Mult):
                return self.arith(node, l, lt, r, rt, "*")
            bit = {ast.BitAnd: "&&&", ast.BitOr: "|||", ast.BitXor: "^^^", ast.LShift: "<<<",
                   ast.RShift: ">>>", ast.Pow: "^"}.get(type(op))
            if bit and INT in (lt, rt) and isinstance(op, (ast.Pow, ast.LShift, ast.RShift)):
                # ints that may be negative: exact Python semantics, partial operations checked
                self.need(lt, (NAT, INT), node, f"`{bit}`")
                self.need(rt, (NAT, INT), node, f"`{bit}`")
                if rt == NAT and isinstance(op, ast.Pow):
                    return f"({l} ^ {r})", lt
                fn, err = {ast.Pow: ("Py.powInt?", ".OutOfSubset"), ast.LShift: ("Py.shlInt?", ".ValueError"),
                           ast.RShift: ("Py.shrInt?", ".ValueError")}[type(op)]
                t = self.tmp()
                hoists.append((t, f"{fn} {self.coerce(l, lt, INT, node)} {self.coerce(r, rt, INT, node)}", err))
                return t, INT
            if bit:
                self.need(lt, (NAT,), node, f"`{bit}` on a possibly negative int")
                self.need(rt, (NAT,), node, f"`{bit}` on a possibly negative int")
                return f"({l} {bit} {r})", NAT
            if isinstance(op, (ast.Mod, ast.FloorDiv)):
                if not (isinstance(node.right, ast.Constant) and isinstance(node.right.value, int)
                        and not isinstance(node.right.value, bool) and node.right.value > 0):
                    raise Unsupported(node, "division / modulo by anything but a positive literal")
                self.need(lt, (NAT, INT), node, "division")
                if lt == INT:
                    f = "Py.ifloormod" if isinstance(op, ast.Mod) else "Py.ifloordiv"
                    return f"({f} {l} ({r} : Int))", INT
                return f"({l} {'%' if isinstance(op, ast.Mod) else '/'} {r})", NAT
            raise Unsupported(node, "unsupported binary operator")
        if isinstance(node, ast.BoolOp):
            n0 = len(hoists)
            parts = []
            for i, v in enumerate(node.values):
                t, ty = self.expr(v, defined, hoists)
                if ty != BOOL and not (self.dry and ty == BOT):
                    raise Unsupported(node, "`and` / `or` used as a value on non-bool operands")
                if i > 0 and len(hoists) > n0:
                    raise Unsupported(node, "raising expression under a short-circuit operator")
                parts.append(t)
            return "(" + (" && " if isinstance(node.op, ast.And) else " || ").join(parts) + ")", BOOL
        if isinstance(node, ast.Compare):
            return f"(decide ({self.prop(node, defined, hoists)}))", BOOL
        if isinstance(node, ast.IfExp):
            c = self.prop(node.test, defined, hoists)
            n0 = len(hoists)
            a, at = self.expr(node.body, defined, hoists)
            b, bt = self.expr(node.orelse, defined, hoists)
            if len(hoists) > n0:
                raise Unsupported(node, "raising expression inside a conditional expression")
            ty = join(at, bt, node)
            return f"(if {c} then {self.coerce(a, at, ty, node)} else {self.coerce(b, bt, ty, node)})", ty
        if isinstance(node, ast.List):
            ty = BOT
            items = [self.expr(e, defined, hoists) for e in node.elts]
            for (_, t), e in zip(items, node.elts):
                ty = join(ty, t, node)
                if self.in_return and isinstance(e, ast.Name) and has_list(t):
                    # `return [x]`: the result shares `x` with the caller's argument / a local that dies
                    # here; nothing changes `x` after this point (see `check_moves`)
                    continue
                self.check_fresh(e, t, e)
            return "[" + ", ".join(self.coerce(t, tt, ty, node) for t, tt in items) + "]", tlist(ty)
        if isinstance(node, ast.ListComp):
            return self.listcomp(node, defined, hoists)
        if isinstance(node, ast.DictComp):
            return self.dictcomp(node, defined, hoists, want)
        if isinstance(node, ast.Subscript) and not isinstance(node.slice, ast.Slice) \
                and isinstance(node.value, ast.Name) and is_dict(self.types.get(node.value.id)):
            # `d[k]`: `KeyError` when `k` is not a key
            s, st = self.expr(node.value, defined, hoists)
            k, kt = self.expr(node.slice, defined, hoists)
            if not self.dry and kt != st[1]:
                raise Unsupported(node, "dict lookup with a key of another type")
            t = self.tmp()
            hoists.append((t, f"Py.dictGet? {s} {k}", ".KeyError"))
            return t, st[2]
        if isinstance(node, ast.Subscript):
            s, st = self.expr(node.value, defined, hoists)
            if isinstance(node.slice, ast.Slice):
                sl = node.slice
                if sl.lower is None or sl.upper is not None or sl.step is not None:
                    raise Unsupported(node, "slices (supported: `x[k:]`)")
                k, kt = self.expr(sl.lower, defined, hoists)
                self.need(kt, (NAT,), node, "slice bound that may be negative")
                if not is_list(st) and not (self.dry and st == BOT):
                    raise Unsupported(node, "slice of something that is not a list")
                if is_list(st) and has_list(st[1]):
                    raise Unsupported(node, "slice of a list of lists (the rows would be shared)")
                return f"(List.drop {k} {s})", st
            i, it = self.expr(node.slice, defined, hoists)
            if not is_list(st) and not (self.dry and st == BOT):
                raise Unsupported(node, "indexing something that is not a list")
            self.need(it, (NAT, INT) if self.mod.int_ty == INT else (NAT,), node, "index that may be negative")
            t = self.tmp()
            # a Python int index wraps around when negative (Py.getInt?), exactly as `list.__getitem__`
            hoists.append((t, f"Py.getInt? {s} {i}" if it == INT else f"{s}[{i}]?", ".IndexError"))
            return t, (st[1] if is_list(st) else BOT)
        if isinstance(node, ast.Call):
            return self.call(node, defined, hoists)
        raise Unsupported(node)

    def replicate(self, node, defined, hoists):
        """`[e] * n` / `n * [e]` (`n <= 0` gives the empty list)."""
        lst, cnt = (node.left, node.right) if isinstance(node.left, ast.List) else (node.right, node.left)
        if len(lst.elts) != 1:
            raise Unsupported(node, "repetition of a list display with several elements")
        if isinstance(node.left, ast.List):
            e, et = self.expr(lst.elts[0], defined, hoists)
            n, nt = self.expr(cnt, defined, hoists)
        else:
            n, nt = self.expr(cnt, defined, hoists)
            e, et = self.expr(lst.elts[0], defined, hoists)
        self.need(nt, (NAT, INT), node, "list repetition count")
        if has_list(et):
            raise Unsupported(node, "repetition of a list of lists (the copies would be one shared list)")
        return f"(List.replicate {f'(Int.toNat {n})' if nt == INT else n} {e})", tlist(et)

    def listcomp(self, node, defined, hoists):
        """`[e for x in seq]` with a non-raising `e`: `List.map (fun x => e) seq`;
        `[e for x in seq if c]`: the same on `List.filter (fun x => c) seq` (no map when `e` is `x`)."""
        if len(node.generators) != 1 or len(node.generators[0].ifs) > 1 or node.generators[0].is_async:
            raise Unsupported(node, "comprehension with conditions / several generators")
        gen = node.generators[0]
        targets = loop_targets(gen)
        for t in targets:
            # (a comprehension has its own scope: a variable of the function that is not live here may share
            # the name)
            if t != "_" and (t in self.params or (t in self.types and INFER not in defined and t in defined)):
                raise Unsupported(node, f"comprehension variable `{t}` is also a variable of the function")
        seq, tys, pat = self.iter_parts(gen, defined, hoists)
        saved = dict(self.types)
        inner = []
        try:
            for t, ty in zip(targets, tys):
                if t != "_":
                    if t == "self" or t.startswith("self_"):
                        raise Unsupported(node, f"comprehension variable `{t}` is reserved by the translator")
                    lean_name(t, node)
                    self.types[t] = ty
            inside = defined | {t for t in targets if t != "_"}
            e, et = self.expr(node.elt, inside, inner)
            cond = self.prop(gen.ifs[0], inside, inner) if gen.ifs else None
        finally:
            self.types = saved
        if inner:
            raise Unsupported(node, "raising expression inside a comprehension")
        same = isinstance(node.elt, ast.Name) and targets == [node.elt.id]
        if same and has_list(et):
            # the rows of the result ARE rows of `seq`: sound when `seq` is a local that dies here
            if not self.dry and not (self.in_return and isinstance(gen.iter, ast.Name)
                                     and gen.iter.id not in self.params and gen.iter.id not in self.loop_vars):
                raise Unsupported(node, "aliasing of a list (supported: `return [x for x in local if ..]`)")
        else:
            self.check_fresh(node.elt, et, node.elt)
        if cond is not None:
            seq = f"(List.filter (fun {pat} => decide ({cond})) {seq})"
            if same:
                return seq, tlist(et)
        return f"(List.map (fun {pat} => {e}) {seq})", tlist(et)

    def dictcomp(self, node, defined, hoists, want=None):
        """`{k: v for x in seq}` with non-raising `k`, `v`: the items in the order of `seq`, a later item
        replacing the value of an equal earlier key in place (`Py.dictOfList`)."""
        if len(node.generators) != 1 or node.generators[0].ifs or node.generators[0].is_async:
            raise Unsupported(node, "dict comprehension with conditions / several generators")
        gen = node.generators[0]
        targets = loop_targets(gen)
        for t in targets:
            if t != "_" and (t in self.params or (t in self.types and INFER not in defined and t in defined)):
                raise Unsupported(node, f"comprehension variable `{t}` is also a variable of the function")
        seq, tys, pat = self.iter_parts(gen, defined, hoists)
        saved = dict(self.types)
        inner = []
        try:
            for t, ty in zip(targets, tys):
                if t != "_":
                    lean_name(t, node)
                    self.types[t] = ty
            inside = defined | {t for t in targets if t != "_"}
            k, kt = self.expr(node.key, inside, inner)
            v, vt = self.expr(node.value, inside, inner)
        finally:
            self.types = saved
        if inner:
            raise Unsupported(node, "raising expression inside a comprehension")
        if has_list(kt) or is_opt(kt) or has_list(vt):
            raise Unsupported(node, "dict comprehension over mutable values")
        if want is not None and is_dict(want) and not self.dry:
            k, kt = self.coerce(k, kt, want[1], node), want[1]
            v, vt = self.coerce(v, vt, want[2], node), want[2]
        return f"(Py.dictOfList (List.map (fun {pat} => ({k}, {v})) {seq}))", tdict(kt, vt)

    def translated_call(self, node, defined, hoists):
        """A call of a nested function, of a method of a translated class, or of the function itself:
        hoisted (it may raise); a method that changes its receiver `x` also rebinds `x`
        (`| .ok (x, t_) =>`); a recursive call goes to `f.rec_ fuel_`."""
        f = node.func
        sig = self.callee_sig(node)
        if sig is None:
            raise Unsupported(node, "call of a function / method that is not translated (yet)")
        recursive = sig["name"] == self.name
        if recursive and self.loop_depth:
            # the loop (a separate definition) takes the function itself, at the smaller fuel, as `rec_`
            for fl in self.loop_stack:
                fl["rec"] = True
        names = sig["params"]
        recv = None
        if isinstance(f, ast.Attribute):
            recv = f.value.id
            names = names[1:]
        actual = dict(zip(names, node.args))
        if len(node.args) > len(names):
            raise Unsupported(node, "wrong number of arguments")
        for k in node.keywords:
            if k.arg is None or k.arg not in names or k.arg in actual:
                raise Unsupported(node, "unsupported keyword argument")
            actual[k.arg] = k.value
        if set(actual) != set(names):
            raise Unsupported(node, "wrong number of arguments")
        # Python evaluates positional arguments, then keyword arguments, in the order written
        order = list(node.args) + [k.value for k in node.keywords]
        texts = {}
        for a in order:
            name = next(n for n, v in actual.items() if v is a)
            want = sig["param_tys"][sig["params"].index(name)]
            t, ty = self.expr(a, defined, hoists)
            if ty == INT and want == NAT:
                raise Unsupported(a, "argument that may be negative for a parameter translated as Nat")
            texts[name] = self.coerce(t, ty, want, a)
        args = [texts[n] for n in names]
        t = self.tmp()
        if sig["ord"]:
            self.need_ord(node, sig.get("ord_elem", NAT))
        if recursive:
            head = "rec_" if self.loop_depth else self.rec_head()
        else:
            head = sig["name"]
            if sig["elem"]:
                head += self.mod.elem_args
            if sig["ord"]:
                head += " ord_"
        pat = t
        muts = sig.get("mut_params") or []
        if muts:
            # parameters that the callee changes in place: the call REBINDS the variables handed to them
            pats = []
            for m in muts:
                a = actual[m]
                if not isinstance(a, ast.Name):
                    raise Unsupported(a, "argument changed in place by the callee that is not a variable")
                self.check_mut_arg(a.id, sig["param_tys"][sig["params"].index(m)], node, defined)
                pats.append(lean_name(a.id, a))
            if len(set(pats)) != len(pats):
                raise Unsupported(node, "the same variable handed to two parameters that are changed in place")
            pat = "(" + ", ".join(pats + [t]) + ")"
        if recv is not None:
            r, _ = self.var_ref(recv, node, defined)
            if sig["mut"]:
                self.check_receiver(recv, node, defined)
                pat = f"({r}, {t})"
            args = [r] + args
        hoists.append((pat, f"{head} " + " ".join(args), None))
        return t, sig["ret_ty"]

    def need_ord(self, node, elem=NAT):
        """The function takes the parameter `ord_`: the iteration order of the sets of `elem`s."""
        if elem not in (NAT, ELEM) and not (self.dry and has_bot(elem)):
            raise Unsupported(node, f"iteration over a set of {show_ty(elem)}")
        if self.uses_ord and self.ord_elem != elem and not has_bot(elem):
            raise Unsupported(node, "iteration over sets of two different element types")
        for fl in self.loop_stack:
            fl["ord"] = True
        self.uses_ord = True
        if not has_bot(elem):
            self.ord_elem = elem

    def rec_head(self):
        """The function being translated, at the smaller fuel (a recursive call)."""
        return f"{self.name}.rec_{self.elem_args()}{' ord_' if self.uses_ord else ''} fuel_"

    def rec_type(self):
        tys = " → ".join(paren_ty(self.param_types[p]) for p in self.params)
        return f"{tys} → Except Py.Err {self.rho()}"

    def check_mut_arg(self, name, want, node, defined):
        """`name` is handed to a parameter that the callee changes in place: it must be a local (or a
        parameter that this function itself returns changed), of exactly the callee's type, and it must
        not be mentioned elsewhere in the statement (the call rebinds it)."""
        if name in self.params and name not in self.mut_params:
            raise Unsupported(node, "in-place change of a parameter (mutation visible to the caller)")
        if name not in self.types or name == "self":
            raise Unsupported(node, f"unknown name `{name}`")
        if self.dry:
            return
        if name not in defined:
            raise Unsupported(node, f"`{name}` may be unbound here")
        self.no_narrowed([name], defined, node, "changed in place by a call")
        if self.types[name] != want:
            raise Unsupported(node, f"`{name}` is changed in place by the callee at another type")
        root = self.cur_stmt
        if root is None or sum(isinstance(n, ast.Name) and n.id == name for n in ast.walk(root)) != 1:
            raise Unsupported(node, f"`{name}` is read in the same statement as a call that changes it")

    def check_receiver(self, recv, node, defined):
        """`recv.m(..)` changes `recv` in place: `recv` must be `self` inside a method that is translated
        in state-passing style, or a local object (never a parameter: the caller would see the change);
        nothing else in the statement may read the state of `recv` at a time the translation would get
        wrong (see `check_stale`)."""
        if recv == "self":
            if not self.mut:
                raise Unsupported(node, "call that changes `self` in a method that does not return it")
        elif recv in self.params:
            raise Unsupported(node, "in-place change of a parameter (mutation visible to the caller)")
        elif recv not in self.vars:
            raise Unsupported(node, f"unknown name `{recv}`")
        if not self.dry:
            self.check_stale(node, recv)

    def check_stale(self, call, recv):
        """The other mentions of `recv` in the statement of `call`.  After the call, the Lean name `recv`
        denotes the NEW state; a text produced before the call and used after it would read the new
        state where Python read the old one.  Allowed: `recv.attr[i]` (hoisted into a temporary at its
        own time), `recv` as receiver of another translated method (hoisted too), the bare reference
        `recv` passed as an argument (it denotes the object, whose state is the current one), and the
        target of the assignment (evaluated after the right-hand side)."""
        root = self.cur_stmt
        if root is None:
            raise Unsupported(call, "call that changes an object in an unsupported position")
        parent = {}
        for n in ast.walk(root):
            for c in ast.iter_child_nodes(n):
                parent[c] = n
        targets = []
        if isinstance(root, ast.Assign):
            targets = root.targets
        elif isinstance(root, (ast.AugAssign, ast.AnnAssign)):
            targets = [root.target]
        in_target = {id(n) for t in targets for n in ast.walk(t)}
        for n in ast.walk(root):
            if not (isinstance(n, ast.Name) and n.id == recv) or id(n) in in_target:
                continue
            up = parent.get(n)
            if isinstance(up, ast.Attribute):
                up2 = parent.get(up)
                if isinstance(up2, ast.Call) and up2.func is up:
                    continue  # receiver of a method call (this one or another hoisted one)
                if isinstance(up2, ast.Subscript) and up2.value is up and not isinstance(up2.slice, ast.Slice):
                    # hoisted load; what is loaded must be a plain value: a ROW (`self.m(self.table[0])`) is a
                    # second reference to a list that the call may change
                    rty = self.types.get(recv)
                    ty = self.mod.classes.get(rty[1], {}).get(up.attr, BOT) if is_struct(rty) else BOT
                    top = up
                    while isinstance(parent.get(top), ast.Subscript) and parent[top].value is top \
                            and not isinstance(parent[top].slice, ast.Slice):
                        top = parent[top]
                        ty = ty[1] if is_seq(ty) else (ty[2] if is_dict(ty) else BOT)
                    if has_list(ty) or has_bot(ty):
                        raise Unsupported(top, f"a list held by `{recv}` is handed on in the same statement as a "
                                               "call that changes it")
                    continue
            elif isinstance(up, (ast.Call, ast.keyword)):
                continue  # a bare reference passed on
            raise Unsupported(n, f"`{recv}` is read in the same statement as a call that changes it")

    def call(self, node, defined, hoists):
        f = node.func
        if isinstance(f, ast.Name) and f.id in self.types and f.id not in self.local_fns:
            # a variable of this function (wherever it is assigned: Python makes the name local to the whole body,
            # `r = first(k); first = 3` raises UnboundLocalError) hides the function / class of that name
            raise Unsupported(node, f"call of `{f.id}`, a variable of the function")
        if isinstance(f, ast.Name) and (f.id in self.local_fns or (
                f.id == self.fn.name and (self.parent is not None or self.kind == "function"))):
            return self.translated_call(node, defined, hoists)
        if isinstance(f, ast.Name) and f.id in self.mod.sigs \
                and (self.mod.sigs[f.id].get("mut_params") or self.mod.sigs[f.id].get("ord")):
            return self.translated_call(node, defined, hoists)
        if isinstance(f, ast.Attribute) and isinstance(f.value, ast.Name) \
                and is_struct(self.types.get(f.value.id)) and not node.keywords:
            return self.translated_call(node, defined, hoists)
        if node.keywords:
            raise Unsupported(node, "keyword arguments")
        if isinstance(f, ast.Name) and f.id == "deepcopy" and len(node.args) == 1 and self.mod.deepcopy:
            # value semantics: a deep copy is the same value (and a new object: see `fresh_call`)
            s, st = self.expr(node.args[0], defined, hoists)
            if uses_elem(st):
                raise Unsupported(node, "deepcopy of opaque elements")
            if not isinstance(node.args[0], ast.Name):
                raise Unsupported(node, "deepcopy of anything but a variable")
            return s, st
        if isinstance(f, ast.Name) and f.id == "list" and len(node.args) == 1 \
                and isinstance(node.args[0], ast.Call) and isinstance(node.args[0].func, ast.Name) \
                and not node.args[0].keywords:
            inner = node.args[0]
            if inner.func.id == "range":
                gen = ast.copy_location(ast.comprehension(target=ast.Name(id="_", ctx=ast.Store()), iter=inner,
                                                          ifs=[], is_async=0), inner)
                seq, tys, _ = self.iter_parts(gen, defined, hoists)
                return seq, tlist(tys[0])
            if inner.func.id == "set" and len(inner.args) == 1 and "set" not in self.mod.rebound:
                # `list(set(xs))`: the elements of `xs` without repetition, in the iteration order of the
                # set, which Python does not specify: the explicit parameter `ord_`
                s, st = self.expr(inner.args[0], defined, hoists)
                if st != tlist(NAT) and not (self.dry and has_bot(st)):
                    raise Unsupported(node, "`set` of anything but non-negative ints")
                self.need_ord(node)
                return f"(Py.listOfSet ord_ {s})", tlist(NAT)
        got = self.coll_call(node, defined, hoists)
        if got is not None:
            return got
        if isinstance(f, ast.Name) and f.id in self.mod.sigs:
            sig = self.mod.sigs[f.id]
            if len(node.args) != len(sig["param_tys"]):
                raise Unsupported(node, "wrong number of arguments")
            args = []
            for a, want in zip(node.args, sig["param_tys"]):
                t, ty = self.expr(a, defined, hoists)
                if ty == INT and want == NAT:
                    raise Unsupported(a, "argument that may be negative for a parameter translated as Nat")
                args.append(self.coerce(t, ty, want, a))
            t = self.tmp()
            hoists.append((t, f"{sig['name']}{self.mod.elem_args if sig['elem'] else ''} " + " ".join(args), None))
            return t, sig["ret_ty"]
        if isinstance(f, ast.Name) and f.id in ("min", "max") and len(node.args) == 2:
            a, at = self.expr(node.args[0], defined, hoists)
            b, bt = self.expr(node.args[1], defined, hoists)
            ty = join(at, bt, node)
            if ty in (NAT, INT):
                return f"({f.id} {self.coerce(a, at, ty, node)} {self.coerce(b, bt, ty, node)})", ty
            if self.dry and has_bot(ty):
                return "?", (ty[1] if is_opt(ty) else ty)
            if f.id == "min" and self.mod.has_lt and ty in (ELEM, topt(ELEM)):
                t = self.tmp()
                fn = "Py.pyMin" if ty == ELEM else "Py.pyMinOpt"
                hoists.append((t, f"{fn} lt_ {self.coerce(a, at, ty, node)} {self.coerce(b, bt, ty, node)}", None))
                return t, ELEM
            raise Unsupported(node, f"`{f.id}` on values of type {show_ty(ty)}")
        if isinstance(f, ast.Name) and len(node.args) == 1:
            if f.id == "len":
                s, st = self.expr(node.args[0], defined, hoists)
                if not is_coll(st) and not (self.dry and st == BOT):
                    raise Unsupported(node, "len of something that is not a list")
                return f"{s}.length" if re.fullmatch(r"[\w'.]+", s) else f"({s}).length", NAT
            if f.id == "bool":
                return f"(decide ({self.prop(node.args[0], defined, hoists)}))", BOOL
            if f.id == "list":
                s, st = self.expr(node.args[0], defined, hoists)
                if not is_list(st) and not (self.dry and st == BOT):
                    raise Unsupported(node, "list() of something that is not a list")
                if is_list(st) and has_list(st[1]):
                    raise Unsupported(node, "shallow copy of a list of lists (the rows would be shared)")
                return s, st
        if popleft_receiver(node):
            # `d.popleft()`: the first element; the call rebinds `d` (`IndexError` on an empty deque)
            d = popleft_receiver(node)
            root = self.cur_stmt
            if not self.dry and not (isinstance(root, (ast.Assign, ast.AnnAssign)) and root.value is node):
                raise Unsupported(node, "`popleft` is supported as `x = d.popleft()` only")
            if d in self.params and d not in self.mut_params:
                raise Unsupported(node, "in-place change of a parameter (mutation visible to the caller)")
            text, ty = self.var_ref(d, node, defined)
            if not is_deque(ty) and not (self.dry and ty == BOT):
                raise Unsupported(node, "popleft on something that is not a deque")
            t = self.tmp()
            hoists.append((f"({text}, {t})", f"Py.popleft? {text}", ".IndexError"))
            return t, (ty[1] if is_deque(ty) else BOT)
        if isinstance(f, ast.Attribute):
            recv, rt = self.expr(f.value, defined, hoists)
            if f.attr == "get" and len(node.args) == 2 and (is_dict(rt) or (self.dry and rt == BOT)):
                # `d.get(k, default)`: never raises
                k, kt = self.expr(node.args[0], defined, hoists)
                dflt, dt = self.expr(node.args[1], defined, hoists)
                if is_dict(rt):
                    if has_list(rt[2]):
                        raise Unsupported(node, "`get` of a mutable value (aliasing)")
                    if not self.dry and kt != rt[1]:
                        raise Unsupported(node, "dict lookup with a key of another type")
                    ty = join(rt[2], dt, node)
                    if not self.dry and ty != rt[2]:
                        raise Unsupported(node, "`get` with a default of another type")
                    return f"((Py.dictGet? {recv} {k}).getD {self.coerce(dflt, dt, ty, node)})", ty
                return "?", dt
            if f.attr == "bit_length" and not node.args:
                if rt == INT:
                    return f"(Py.bitLengthInt {recv})", NAT
                self.need(rt, (NAT,), node, "bit_length of a possibly negative int")
                return f"(Py.bitLength {recv})", NAT
            if f.attr == "index" and len(node.args) == 1:
                if not is_list(rt) and not (self.dry and rt == BOT):
                    raise Unsupported(node, ".index on something that is not a list")
                v, vt = self.expr(node.args[0], defined, hoists)
                if is_list(rt) and not self.dry and vt != rt[1]:
                    raise Unsupported(node, ".index with an argument of another type")
                if not self.mod.has_deq:
                    raise Unsupported(node, ".index needs `==` on the elements")
                t = self.tmp()
                hoists.append((t, f"Py.index? {recv} {v}", ".ValueError"))
                return t, NAT
        raise Unsupported(node, "unsupported call")

    def iter_text(self, node, defined, hoists):
        """-> (Lean list of the elements of the collection `node` in ITERATION order, element type).
        A list / deque iterates in order; a dict iterates over its keys in insertion order; a set held by a
        dict parameter that is never changed is given by the caller in iteration order; the iteration order
        of any other set is `ord_` applied to its elements in insertion order."""
        if isinstance(node, ast.Call) and isinstance(node.func, ast.Attribute) and not node.args \
                and not node.keywords and node.func.attr in ("keys", "values") \
                and isinstance(node.func.value, ast.Name) and is_dict(self.types.get(node.func.value.id)):
            s, sty = self.expr(node.func.value, defined, hoists)
            if node.func.attr == "keys":
                return f"(Py.dictKeys {s})", sty[1]
            return f"(Py.dictValues {s})", sty[2]
        s, sty = self.expr(node, defined, hoists)
        if is_list(sty) or is_deque(sty):
            return s, sty[1]
        if is_dict(sty):
            return f"(Py.dictKeys {s})", sty[1]
        if is_set(sty):
            if self.is_listing(node):
                return s, sty[1]
            if not isinstance(node, ast.Name):
                raise Unsupported(node, "iteration over a set that is not a variable")
            self.need_ord(node, sty[1])
            return f"(ord_ {s})", sty[1]
        if self.dry and sty == BOT:
            return s, BOT
        raise Unsupported(node, "iteration over something that is not a list, set, deque or dict")

    def coll_call(self, node, defined, hoists):
        """`set(..)`, `deque(..)`, `list(..)` of a collection, `list(reversed(x))`; None when `node` is not one."""
        f = node.func
        if not isinstance(f, ast.Name) or node.keywords:
            return None
        if f.id in ("set", "deque") and len(node.args) <= 1:
            if f.id in self.mod.rebound or (f.id == "deque" and not self.mod.deque) \
                    or f.id in self.types or any(isinstance(a, ast.Starred) for a in node.args):
                return None
            mk = tset if f.id == "set" else tdeque
            if not node.args:
                return "[]", mk(BOT)
            seq, et = self.iter_text(node.args[0], defined, hoists)
            if has_list(et) or is_opt(et):
                raise Unsupported(node, f"`{f.id}` of values that are not plain")
            return (f"(Py.setOfList {seq})" if f.id == "set" else seq), mk(et)
        if f.id == "list" and len(node.args) == 1 and "list" not in self.types:
            a = node.args[0]
            if isinstance(a, ast.Call) and isinstance(a.func, ast.Name) and a.func.id == "reversed" \
                    and len(a.args) == 1 and not a.keywords and "reversed" not in self.mod.rebound \
                    and "reversed" not in self.types:
                s, st = self.expr(a.args[0], defined, hoists)
                if not (is_list(st) or is_deque(st)) and not (self.dry and st == BOT):
                    raise Unsupported(node, "reversed() of something that is not a list")
                if is_seq(st) and has_list(st[1]):
                    raise Unsupported(node, "shallow copy of a list of lists (the rows would be shared)")
                return f"({s}).reverse", tlist(st[1] if is_seq(st) else BOT)
            if isinstance(a, ast.Name) and (is_dict(self.types.get(a.id)) or is_set(self.types.get(a.id))
                                            or is_deque(self.types.get(a.id))):
                seq, et = self.iter_text(a, defined, hoists)
                return seq, tlist(et)
        return None

    def boolval(self, node, defined, hoists):
        t, ty = self.expr(node, defined, hoists)
        if ty == BOOL or (self.dry and ty == BOT):
            return t
        return f"(decide ({self.truthy(t, ty, node)}))"

    def truthy(self, text, ty, node):
        if ty == BOOL:
            return f"{text} = true"
        if ty in (NAT, INT):
            return f"{text} ≠ 0"
        if is_coll(ty):
            return f"{text} ≠ []"
        if self.dry:
            return text
        raise Unsupported(node, f"truth value of a value of type {show_ty(ty)}")

    def prop(self, node, defined, hoists):
        """The truth value of `node` as a decidable Lean proposition."""
        if isinstance(node, ast.UnaryOp) and isinstance(node.op, ast.Not):
            return f"¬ ({self.prop(node.operand, defined, hoists)})"
        if isinstance(node, ast.BoolOp):
            n0 = len(hoists)
            parts = []
            for i, v in enumerate(node.values):
                parts.append("(" + self.prop(v, defined, hoists) + ")")
                if i > 0 and len(hoists) > n0:
                    raise Unsupported(node, "raising expression under a short-circuit operator")
            return (" ∧ " if isinstance(node.op, ast.And) else " ∨ ").join(parts)
        if isinstance(node, ast.Call) and isinstance(node.func, ast.Name) and node.func.id == "bool" \
                and len(node.args) == 1 and not node.keywords:
            return self.prop(node.args[0], defined, hoists)
        if isinstance(node, ast.Compare):
            if len(node.ops) != 1:
                raise Unsupported(node, "chained comparison")
            op = node.ops[0]
            if isinstance(op, (ast.Is, ast.IsNot)):
                c = node.comparators[0]
                if not (isinstance(c, ast.Constant) and c.value is None):
                    raise Unsupported(node, "`is` with anything but None")
                l, lt = self.expr(node.left, defined, hoists)
                if is_opt(lt) or (self.dry and lt == BOT):
                    return f"Option.{'isNone' if isinstance(op, ast.Is) else 'isSome'} {l} = true"
                # a value whose type excludes None
                return "False" if isinstance(op, ast.Is) else "True"
            l, lt = self.expr(node.left, defined, hoists)
            r, rt = self.expr(node.comparators[0], defined, hoists)
            if isinstance(op, (ast.In, ast.NotIn)):
                # `x in d` (a key of the dict), `x in s` (an element)
                if not is_coll(rt) and not (self.dry and rt == BOT):
                    raise Unsupported(node, "`in` on something that is not a collection")
                if is_coll(rt) and not self.dry and lt != rt[1]:
                    raise Unsupported(node, "`in` with an element of another type")
                if uses_elem(lt) and not self.mod.has_deq:
                    raise Unsupported(node, "`in` needs `==` on the elements")
                if has_list(lt):
                    raise Unsupported(node, "`in` on mutable values")
                yes = f"Py.dictHas {r} {l} = true" if is_dict(rt) else f"{l} ∈ {r}"
                return yes if isinstance(op, ast.In) else f"¬ ({yes})"
            ty = join(lt, rt, node)
            l, r = self.coerce(l, lt, ty, node), self.coerce(r, rt, ty, node)
            if isinstance(op, (ast.Eq, ast.NotEq)):
                if uses_elem(ty) and not self.mod.has_deq:
                    raise Unsupported(node, "`==` on elements that only support `<`")
                if is_struct(ty):
                    raise Unsupported(node, "`==` on objects")
                return f"{l} {'=' if isinstance(op, ast.Eq) else '≠'} {r}"
            sym = {ast.Lt: "<", ast.LtE: "≤", ast.Gt: ">", ast.GtE: "≥"}.get(type(op))
            if sym is None:
                raise Unsupported(node, "unsupported comparison operator")
            if ty not in (NAT, INT) and not (self.dry and ty == BOT):
                raise Unsupported(node, "ordering comparison on non-integers")
            return f"{l} {sym} {r}"
        t, ty = self.expr(node, defined, hoists)
        return self.truthy(t, ty, node)

    # ---- statements

    def is_pure_block(self, stmts):
        """No escape (return / break / continue / loop / assert / item assignment / raising
        expression) anywhere inside."""
        for st in stmts:
            if is_docstring(st) or isinstance(st, ast.Pass):
                continue
            if tuple_assign(st):
                if any(self.may_raise(v) for _, v in tuple_assign(st)):
                    return False
                continue
            if setitem(st) or aug_setitem(st):
                return False
            if isinstance(st, (ast.Assign, ast.AugAssign, ast.AnnAssign)):
                if self.may_raise(stmt_target(st)[1]):
                    return False
                continue
            ap = append_call(st)
            if ap:
                if self.may_raise(ap[1]):
                    return False
                continue
            if isinstance(st, ast.If):
                if self.may_raise(st.test) or not self.is_pure_block(st.body) \
                        or not self.is_pure_block(st.orelse):
                    return False
                continue
            return False
        return True

    def count(self, lines):
        self.emitted += len(lines)
        if self.emitted > self.MAX_LINES:
            raise Unsupported(self.fn, "translation too large (too many `if`s that may both escape and fall through)")
        return lines

    def wrap_hoists(self, hoists, lines, ctx):
        for t, opt, err in reversed(hoists):
            if err is None:
                lines = [f"match {opt} with", f"| .error e_ => {ctx.err('e_')}", f"| .ok {t} =>"] + indent(lines)
            else:
                lines = [f"match {opt} with", f"| none => {ctx.err(err)}", f"| some {t} =>"] + indent(lines)
        return self.count(lines)

    def state_pat(self, names):
        return tup([lean_name(n) for n in names])

    def state_pat_with(self, names, subst):
        return tup([subst.get(n, lean_name(n)) for n in names])

    def no_narrowed(self, names, defined, node, what):
        for v in names:
            if nn(v) in defined:
                raise Unsupported(node, f"`{v}` is narrowed by an assert and {what}")

    def check_mutable(self, name, defined, st):
        if name in self.params and name not in self.mut_params:
            raise Unsupported(st, "in-place change of a parameter (mutation visible to the caller)")
        if self.kind == "method" and name.startswith("self."):
            if not self.mut:
                raise Unsupported(st, "in-place change of an attribute outside `__init__`")
            self.place(name, st, defined)
            return
        if name not in self.types:
            raise Unsupported(st, f"unknown name `{name}`")
        if name not in defined:
            raise Unsupported(st, f"`{name}` may be unbound here")

    def comp(self, stmts, k, ctx, defined):
        """Lean lines (an expression of the block's result type) for `stmts`, then `k(defined)`."""
        if not stmts:
            return k(defined)
        st, rest = stmts[0], stmts[1:]

        def cont(d):
            return self.comp(rest, k, ctx, d)

        if is_docstring(st) or isinstance(st, ast.Pass):
            return cont(defined)
        if isinstance(st, ast.FunctionDef) and st in self.nested:
            return cont(defined)
        self.cur_stmt = st

        if tuple_assign(st):
            pairs = tuple_assign(st)
            hoists = []
            vals = []
            for name, value in pairs:
                if name == "_":
                    raise Unsupported(st, "assignment to `_`")
                text, ty = self.expr(value, defined, hoists)
                want = self.types[name]
                self.check_fresh(value, want, st)
                if has_bot(want):
                    raise Unsupported(st, f"cannot infer the type of `{name}`")
                vals.append(self.coerce(text, ty, want, st))
            names = [n for n, _ in pairs]
            line = (f"let {self.state_pat(names)} : {tup_ty([self.types[n] for n in names])} := "
                    f"({', '.join(vals)})")
            after = self.drop_nn(defined, names) | set(names)
            return self.wrap_hoists(hoists, [line] + cont(after), ctx)

        if setitem(st) and is_dict(self.types.get(setitem(st)[0])):
            # `d[k] = v`: the value, then the key; a key that is present keeps its place
            key, idx, value = setitem(st)
            self.check_mutable(key, defined, st)
            base, want = self.place(key, st, defined)
            if len(idx) != 1 or has_bot(want):
                raise Unsupported(st, "item assignment on a dict is supported as `d[k] = v` only")
            hoists = []
            text, ty = self.expr(value, defined, hoists)
            self.check_fresh(value, want[2], st)
            kx, kt = self.expr(idx[0], defined, hoists)
            if kt != want[1]:
                raise Unsupported(st, "dict item assignment with a key of another type")
            line = self.store(key, f"Py.dictSet {base} {kx} {self.coerce(text, ty, want[2], st)}", st)
            return self.wrap_hoists(hoists, [line] + cont(defined), ctx)

        if setitem(st):
            key, idx, value = setitem(st)
            self.check_mutable(key, defined, st)
            base, want = self.place(key, st, defined)
            hoists = []
            text, ty = self.expr(value, defined, hoists)  # Python evaluates the right-hand side first
            cell = want
            for _ in idx:
                if not is_list(cell):
                    raise Unsupported(st, "item assignment on something that is not a list")
                cell = cell[1]
            if has_bot(want):
                raise Unsupported(st, f"cannot infer the type of `{key}`")
            self.check_fresh(value, cell, st)
            v = self.coerce(text, ty, cell, st)
            conts = [base]
            ixs = []
            for n, ix in enumerate(idx):
                i, it = self.expr(ix, defined, hoists)
                self.need(it, (NAT, INT) if self.mod.int_ty == INT else (NAT,), st, "index that may be negative")
                ixs.append((i, it))
                if n + 1 < len(idx):
                    t = self.tmp()
                    hoists.append((t, f"Py.getInt? {conts[-1]} {i}" if it == INT else f"{conts[-1]}[{i}]?",
                                   ".IndexError"))
                    conts.append(t)
            for c, (i, it) in zip(reversed(conts), reversed(ixs)):
                t = self.tmp()
                hoists.append((t, f"{'Py.setInt?' if it == INT else 'Py.setNat?'} {c} {i} {v}", ".IndexError"))
                v = t
            line = self.store(key, v, st)
            return self.wrap_hoists(hoists, [line] + cont(defined), ctx)

        if aug_setitem(st) and is_dict(self.types.get(aug_setitem(st)[0])):
            # `d[k] op= v`: the dict and the key are evaluated once, the item is loaded (`KeyError`), then `v`
            key, ix, op, value = aug_setitem(st)
            self.check_mutable(key, defined, st)
            base, want = self.place(key, st, defined)
            if has_bot(want) or want[2] not in (NAT, INT):
                raise Unsupported(st, "augmented item assignment on something that is not a dict of numbers")
            hoists = []
            kx, kt = self.expr(ix, defined, hoists)
            if kt != want[1]:
                raise Unsupported(st, "dict lookup with a key of another type")
            t0 = self.tmp()
            hoists.append((t0, f"Py.dictGet? {base} {kx}", ".KeyError"))
            sym = {ast.Add: "+", ast.Sub: "-", ast.Mult: "*"}.get(type(op))
            if sym is None:
                raise Unsupported(st, "augmented item assignment with an operator other than + - *")
            r, rt = self.expr(value, defined, hoists)
            text, ty = self.arith(st, t0, want[2], r, rt, sym)
            if ty == INT and want[2] == NAT:
                raise Unsupported(st, "item that may become negative in a dict of non-negative ints")
            line = self.store(key, f"Py.dictSet {base} {kx} {self.coerce(text, ty, want[2], st)}", st)
            return self.wrap_hoists(hoists, [line] + cont(defined), ctx)

        if aug_setitem(st):
            # `x[i] op= v`: the container and the index are evaluated once, the item is loaded, then `v`
            key, ix, op, value = aug_setitem(st)
            self.check_mutable(key, defined, st)
            base, want = self.place(key, st, defined)
            if not is_list(want) or has_bot(want) or has_list(want[1]):
                raise Unsupported(st, "augmented item assignment on something that is not a list of numbers")
            hoists = []
            i, it = self.expr(ix, defined, hoists)
            self.need(it, (NAT, INT) if self.mod.int_ty == INT else (NAT,), st, "index that may be negative")
            t0 = self.tmp()
            hoists.append((t0, f"Py.getInt? {base} {i}" if it == INT else f"{base}[{i}]?", ".IndexError"))
            sym = {ast.Add: "+", ast.Sub: "-", ast.Mult: "*"}.get(type(op))
            if sym is None:
                raise Unsupported(st, "augmented item assignment with an operator other than + - *")
            r, rt = self.expr(value, defined, hoists)
            text, ty = self.arith(st, t0, want[1], r, rt, sym)
            if ty == INT and want[1] == NAT:
                raise Unsupported(st, "item that may become negative in a list of non-negative ints")
            v = self.coerce(text, ty, want[1], st)
            t = self.tmp()
            # (the object may have changed while `v` was evaluated: the container is read again)
            base2, _ = self.place(key, st, defined)
            hoists.append((t, f"{'Py.setInt?' if it == INT else 'Py.setNat?'} {base2} {i} {v}", ".IndexError"))
            return self.wrap_hoists(hoists, [self.store(key, t, st)] + cont(defined), ctx)

        if append_item(st):
            # `x[i].append(v)`: x, i, the row `x[i]`, then `v`; rows are never shared (see `check_fresh`)
            key, ix, arg = append_item(st)
            self.check_mutable(key, defined, st)
            base, want = self.place(key, st, defined)
            if not (is_list(want) and is_list(want[1])) or has_bot(want):
                raise Unsupported(st, "append to something that is not a row of a list of lists")
            hoists = []
            i, it = self.expr(ix, defined, hoists)
            self.need(it, (NAT, INT) if self.mod.int_ty == INT else (NAT,), st, "index that may be negative")
            row = self.tmp()
            hoists.append((row, f"Py.getInt? {base} {i}" if it == INT else f"{base}[{i}]?", ".IndexError"))
            text, ty = self.expr(arg, defined, hoists)
            self.check_fresh(arg, want[1][1], st)
            t = self.tmp()
            hoists.append((t, f"{'Py.setInt?' if it == INT else 'Py.setNat?'} {base} {i} "
                              f"({row} ++ [{self.coerce(text, ty, want[1][1], st)}])", ".IndexError"))
            return self.wrap_hoists(hoists, [self.store(key, t, st)] + cont(defined), ctx)

        cc = container_call(st)
        if cc and cc[0] in self.types and not is_struct(self.types[cc[0]]):
            # `s.add(v)`, `s.discard(v)`, `s.remove(v)` on a set; `d.remove(v)` on a deque / list (first
            # occurrence; `ValueError` when absent, `KeyError` for a set); `x.reverse()` on a list
            name, how, args = cc
            self.check_mutable(name, defined, st)
            base, want = self.place(name, st, defined)
            if has_bot(want):
                raise Unsupported(st, f"cannot infer the type of `{name}`")
            hoists = []
            if how == "reverse":
                if not (is_list(want) or is_deque(want)):
                    raise Unsupported(st, "reverse of something that is not a list")
                return [self.store(name, f"{base}.reverse", st)] + cont(defined)
            v, vt = self.expr(args[0], defined, hoists)
            if vt != want[1] or has_list(vt):
                raise Unsupported(st, f"`{how}` with an element of another type")
            if uses_elem(vt) and not self.mod.has_deq:
                raise Unsupported(st, f"`{how}` needs `==` on the elements")
            if how == "remove" and is_seq(want):
                t = self.tmp()
                hoists.append((t, f"Py.remove? {base} {v}", ".KeyError" if is_set(want) else ".ValueError"))
                return self.wrap_hoists(hoists, [self.store(name, t, st)] + cont(defined), ctx)
            if how in ("add", "discard") and is_set(want):
                fn = "Py.setAdd" if how == "add" else "Py.discard"
                return self.wrap_hoists(hoists, [self.store(name, f"{fn} {base} {v}", st)] + cont(defined), ctx)
            raise Unsupported(st, f"`{how}` on a value of type {show_ty(want)}")

        if isinstance(st, ast.Expr) and isinstance(st.value, ast.Call) and not append_call(st):
            # a call made for its effect: the receiver of a method that changes it is rebound
            if not mut_receiver(st.value):
                raise Unsupported(st, "call whose result is not used")
            hoists = []
            self.expr(st.value, defined, hoists)
            return self.wrap_hoists(hoists, cont(defined), ctx)

        if isinstance(st, (ast.Assign, ast.AugAssign, ast.AnnAssign)):
            name, value = stmt_target(st)
            if name == "_":
                raise Unsupported(st, "assignment to `_`")
            hoists = []
            text, ty = self.expr(value, defined, hoists,
                                 want=None if self.is_attr_key(name) else self.types.get(name))
            if self.is_attr_key(name):
                # `self.attr = e` in a method: a new `self`.  List attributes keep the list `__init__` gave
                # them (they are changed in place only), so that a reference to one never goes stale.
                self.check_mutable(name, defined, st)
                _, want = self.place(name, st, defined)
                if has_list(want):
                    raise Unsupported(st, "re-binding of a list attribute outside `__init__`")
                if mut_receiver(value) == "self" or any(mut_receiver(sub) == "self" for sub in ast.walk(value)):
                    raise Unsupported(st, "attribute assigned from a call that changes `self`")
                line = self.store(name, self.coerce(text, ty, want, st), st)
                return self.wrap_hoists(hoists, [line] + cont(defined), ctx)
            want = self.types[name]
            if is_coll(want) and isinstance(value, ast.Name):
                raise Unsupported(st, "aliasing of a list (a later append would be shared)")
            self.check_fresh(value, want, st)
            if has_bot(want):
                raise Unsupported(st, f"cannot infer the type of `{name}`")
            line = f"let {lean_name(name, st)} : {show_ty(want)} := {self.coerce(text, ty, want, st)}"
            after = self.drop_nn(defined, [name]) | {name}
            return self.wrap_hoists(hoists, [line] + cont(after), ctx)

        ap = append_call(st)
        if ap:
            name, arg = ap
            if name in self.params and name not in self.mut_params:
                raise Unsupported(st, "append to a parameter (mutation visible to the caller)")
            self.check_mutable(name, defined, st)
            base, want = self.place(name, st, defined)
            if not (is_list(want) or is_deque(want)) or has_bot(want):
                raise Unsupported(st, "append to something that is not a list")
            hoists = []
            text, ty = self.expr(arg, defined, hoists)
            if not (isinstance(arg, ast.Name) and any(st is m for m in self.movable.get(arg.id, ()))):
                # (an element of a temporary list, moved into its new container: see `comp_for`)
                self.check_fresh(arg, want[1], st)
            if self.is_attr_key(name):
                if any(mut_receiver(sub) == "self" for sub in ast.walk(arg)):
                    raise Unsupported(st, "append to an attribute of a value computed by changing `self`")
                line = self.store(name, f"{base} ++ [{self.coerce(text, ty, want[1], st)}]", st)
                return self.wrap_hoists(hoists, [line] + cont(defined), ctx)
            line = (f"let {lean_name(name, st)} : {show_ty(want)} := "
                    f"{lean_name(name, st)} ++ [{self.coerce(text, ty, want[1], st)}]")
            return self.wrap_hoists(hoists, [line] + cont(defined), ctx)

        if isinstance(st, ast.Assert):
            if st.msg is not None and not (isinstance(st.msg, ast.Constant) and isinstance(st.msg.value, str)):
                raise Unsupported(st, "assert with a computed message")
            x = self.narrow_target(st)
            if x is not None and x in self.types and not x.startswith("self."):
                text, ty = self.var_ref(x, st, defined)
                if not is_opt(ty):
                    return cont(defined)  # the type already excludes None: the assertion holds
                if has_bot(ty):
                    raise Unsupported(st, f"cannot infer the type of `{x}`")
                lines = [f"match {text} with", f"| none => {ctx.err('.AssertionError')}",
                         f"| some {text} =>"] + indent(cont(defined | {nn(x)}))
                return self.count(lines)
            hoists = []
            c = self.prop(st.test, defined, hoists)
            lines = [f"if {c} then"] + indent(cont(defined)) + ["else", "  " + ctx.err(".AssertionError")]
            return self.wrap_hoists(hoists, lines, ctx)

        if isinstance(st, ast.Return):
            if st.value is None:
                raise Unsupported(st, "return without a value")
            if self.kind == "init":
                raise Unsupported(st, "return inside `__init__`")
            if rest:
                raise Unsupported(rest[0], "unreachable statement")
            hoists = []
            self.in_return = True
            try:
                text, ty = self.expr(st.value, defined, hoists)
            finally:
                self.in_return = False
            return self.wrap_hoists(hoists, ctx.ret(self.coerce(text, ty, self.ret_type, st)), ctx)

        if isinstance(st, (ast.Break, ast.Continue)):
            if rest:
                raise Unsupported(rest[0], "unreachable statement")
            fn = ctx.brk if isinstance(st, ast.Break) else ctx.cont
            if fn is None:
                raise Unsupported(st, "break / continue not supported here")
            return fn(defined)

        if isinstance(st, ast.If):
            return self.comp_if(st, rest, k, ctx, defined)
        if isinstance(st, ast.For):
            return self.comp_for(st, cont, ctx, defined)
        if isinstance(st, ast.While):
            return self.comp_while(st, cont, ctx, defined)
        raise Unsupported(st)

    def comp_if(self, st, rest, k, ctx, defined):
        st = self.split_test(st)
        self.cur_stmt = st.test
        known = self.static_none_test(st.test, defined)
        if known is not None:
            taken = st.body if known else st.orelse
            return self.comp(taken + ([] if always_exits(taken) else rest), k, ctx, defined)
        x, neg = self.none_test(st.test, defined)
        if x is not None and x in defined:
            # `if x is not None: A else: B`  ->  match x with | some x => A | none => B
            self.no_narrowed([x], defined, st, "tested again")
            text, ty = self.var_ref(x, st, defined)
            if has_bot(ty):
                raise Unsupported(st, f"cannot infer the type of `{x}`")
            yes, no = (st.orelse, st.body) if neg else (st.body, st.orelse)
            some = self.comp(yes + ([] if always_exits(yes) else rest), k, ctx, defined | {nn(x)})
            none = self.comp(no + ([] if always_exits(no) else rest), k, ctx, defined | {isnone(x)})
            arms = [(f"| some {text} =>", some), ("| none =>", none)]
            if neg:
                arms.reverse()
            return self.count([f"match {text} with"] + [l for head, body in arms for l in [head] + indent(body)])
        hoists = []
        c = self.prop(st.test, defined, hoists)
        if self.is_pure_block(st.body) and self.is_pure_block(st.orelse):
            touched = self.assigned_(st.body) | self.assigned_(st.orelse)
            self.no_narrowed(touched, defined, st, "assigned under an `if`")
            after = defined | (self.assigned_(st.body) & self.assigned_(st.orelse))
            written = [v for v in self.vars if v in touched and v in after]
            if not written:
                return self.wrap_hoists(hoists, self.comp(rest, k, ctx, defined), ctx)
            for v in written:
                if has_bot(self.types[v]):
                    raise Unsupported(st, f"cannot infer the type of `{v}`")
            pat = self.state_pat(written)

            def leaf(d):
                missing = [v for v in written if v not in d]
                if missing:  # cannot happen: `after` is the intersection
                    raise Unsupported(st, f"`{missing[0]}` may be unbound after this `if`")
                return [pat]

            pure = Ctx(ret=None, err=None)
            lines = [f"let {pat} : {tup_ty([self.types[v] for v in written])} :="]
            lines += indent([f"if {c} then"] + indent(self.comp(st.body, leaf, pure, defined))
                            + ["else"] + indent(self.comp(st.orelse, leaf, pure, defined)))
            lines += self.comp(rest, k, ctx, after)
            return self.wrap_hoists(hoists, lines, ctx)
        then = self.comp(st.body + ([] if always_exits(st.body) else rest), k, ctx, defined)
        other = self.comp(st.orelse + ([] if always_exits(st.orelse) else rest), k, ctx, defined)
        lines = [f"if {c} then"] + indent(then) + ["else"] + indent(other)
        return self.wrap_hoists(hoists, lines, ctx)

    # ---- loops

    def iter_parts(self, st, defined, hoists):
        """-> (Lean list expression, element types per target, Lean pattern of one element).
        `st` is a `for` statement or the generator of a comprehension."""
        it = st.iter
        targets = loop_targets(st)
        names = ["_" if t == "_" else lean_name(t, st) for t in targets]
        self.iter_pairs = False  # the elements are pairs (key, value) in that order (`d.items()`)
        if isinstance(it, ast.Call) and isinstance(it.func, ast.Attribute) and not it.args and not it.keywords \
                and it.func.attr in ("keys", "values", "items") and isinstance(it.func.value, ast.Name) \
                and (is_dict(self.types.get(it.func.value.id))
                     or (self.dry and self.types.get(it.func.value.id) == BOT)):
            # the views of a dict, in insertion order
            s, sty = self.expr(it.func.value, defined, hoists)
            kt, vt = (sty[1], sty[2]) if is_dict(sty) else (BOT, BOT)
            if it.func.attr == "items":
                if len(targets) != 2:
                    raise Unsupported(st, "`.items()` needs a target `k, v`")
                self.iter_pairs = True
                return s, [kt, vt], f"({names[0]}, {names[1]})"
            if len(targets) != 1:
                raise Unsupported(st, "tuple target over a plain sequence")
            if it.func.attr == "keys":
                return f"(Py.dictKeys {s})", [kt], names[0]
            return f"(Py.dictValues {s})", [vt], names[0]
        if isinstance(it, ast.Call) and isinstance(it.func, ast.Name) and not it.keywords:
            if it.func.id == "range" and len(it.args) in (1, 2) and len(targets) == 1:
                args, tys = [], []
                for a in it.args:
                    t, ty = self.expr(a, defined, hoists)
                    if self.mod.int_ty == INT:
                        self.need(ty, (NAT, INT), a, "range bound")
                    else:
                        self.need(ty, (NAT,), a, "range bound that may be negative")
                    args.append(t)
                    tys.append(ty)
                if len(args) == 1:
                    # range(n) with n <= 0 is empty: Int.toNat
                    text = f"(List.range (Int.toNat {args[0]}))" if tys[0] == INT else f"(List.range {args[0]})"
                elif tys[0] == INT:
                    raise Unsupported(it, "range whose start may be negative")
                elif tys[1] == INT:
                    text = (f"(List.range' {args[0]} (Int.toNat ({args[1]} - "
                            f"{self.coerce(args[0], NAT, INT, it)})))")
                else:
                    text = f"(List.range' {args[0]} ({args[1]} - {args[0]}))"
                return text, [NAT], names[0]
            if it.func.id == "enumerate" and len(it.args) == 1 and len(targets) == 2:
                s, sty = self.expr(it.args[0], defined, hoists)
                if not is_list(sty) and not (self.dry and sty == BOT):
                    raise Unsupported(it, "enumerate of something that is not a list")
                return (f"({s}).zipIdx", [NAT, sty[1] if is_list(sty) else BOT],
                        f"({names[1]}, {names[0]})")
            if it.func.id in ("range", "enumerate") or self.callee_sig(it) is None:
                raise Unsupported(it, "unsupported iterable")
        if len(targets) != 1:
            raise Unsupported(st, "tuple target over a plain sequence")
        s, ety = self.iter_text(it, defined, hoists)
        return s, [ety], names[0]

    def target_mutation(self, st, defined):
        """The loop target `x` of `for x in xs` is changed IN PLACE by the body (`x.append(e)`, `x.reverse()`).
        -> None (no such change), or
           ("temp", None): `xs` is the result of a translated call that is not bound to a name — a new list of new
             lists that dies with the loop; `x` may also be MOVED into a container by the last statement of the
             body that mentions it (`ys.append(x)`), since nothing else can reach it any more;
           ("acc", xs): `xs` is a local list of lists; Python changes the elements of `xs`, so the loop REBUILDS
             `xs` from the final value of `x` in each iteration (the Lean name `xs` is the accumulator inside the
             loop: the body may not mention `xs`, nor `break` / `continue`).
        Lists have value semantics; both forms are exact because the elements of a list built by translated
        code are pairwise different objects that nothing else references (every stored list is fresh or moved)."""
        targets = loop_targets(st)
        changed = [t for t in targets if t in assigned(st.body)]
        if not changed:
            return None
        if len(targets) != 1:
            raise Unsupported(st, f"loop target `{changed[0]}` assigned in the loop body")
        x = targets[0]
        for sub in ast.walk(ast.Module(body=st.body, type_ignores=[])):
            if isinstance(sub, ast.Name) and sub.id == x and isinstance(sub.ctx, (ast.Store, ast.Del)):
                raise Unsupported(st, f"loop target `{x}` assigned in the loop body")
            if isinstance(sub, (ast.For, ast.comprehension)) and x in loop_targets(sub):
                raise Unsupported(st, f"loop target `{x}` assigned in the loop body")
        if self.temp_call(st.iter):
            # the only store of `x`: `ys.append(x)` at the top level of the body, after which `x` is not mentioned
            moves = []
            for i, b in enumerate(st.body):
                ap = append_call(b)
                if ap and isinstance(ap[1], ast.Name) and ap[1].id == x:
                    if ap[0] == x or x in reads(st.body[i + 1:]):
                        raise Unsupported(b, f"`{x}` is used after it was stored in another list")
                    moves.append(b)
            return ("temp", moves)
        if isinstance(st.iter, ast.Name) and st.iter.id not in self.params and st.iter.id in defined \
                and is_list(self.types.get(st.iter.id)) and is_list(self.types[st.iter.id][1]):
            xs = st.iter.id
            if xs in reads(st.body) or xs in assigned(st.body):
                raise Unsupported(st, f"the loop body uses the list `{xs}` whose elements it changes")
            for sub in ast.walk(self.fn):
                # (a callee that puts existing objects into its result: the elements could be the caller's)
                tv = stmt_target(sub) if isinstance(sub, (ast.Assign, ast.AnnAssign)) and not tuple_assign(sub) \
                    and not setitem(sub) else None
                if tv and tv[0] == xs and isinstance(tv[1], ast.Call):
                    sig = self.callee_sig(tv[1])
                    if sig is not None and (sig.get("ret_shares") or sig.get("ret_alias")):
                        raise Unsupported(sub, f"the elements of `{xs}` may be shared with an argument of this call "
                                               "and are changed in place later")
            for sub in ast.walk(ast.Module(body=st.body, type_ignores=[])):
                if isinstance(sub, (ast.Break, ast.Continue)):
                    raise Unsupported(sub, "break / continue in a loop that changes the elements it iterates over")
            return ("acc", xs)
        raise Unsupported(st, f"loop target `{x}` is changed in place (supported: over a local list of lists, "
                              "or over the result of a translated call)")

    def loop_frame(self, st, defined, targets, mode=None):
        """State variables and free variables of a loop body."""
        if st.orelse:
            raise Unsupported(st, "loop with an else clause")
        body_assigned = self.assigned_(st.body)
        for t in targets:
            if t == "_":
                continue
            if t in defined:
                raise Unsupported(st, f"loop target `{t}` overwrites a live variable")
            if t in assigned(st.body) and mode is None:
                raise Unsupported(st, f"loop target `{t}` assigned in the loop body")
        if mode is not None and mode[0] == "acc":
            body_assigned = body_assigned | {mode[1]}
        state = [v for v in self.vars if v in body_assigned and v in defined and v not in targets]
        for v in state:
            if has_bot(self.types[v]):
                raise Unsupported(st, f"cannot infer the type of `{v}`")
        used = reads(st.body) | (reads([st.test]) if isinstance(st, ast.While) else set())
        if self.mut_params and contains(st.body, (ast.Return,)):
            used |= set(self.mut_params)  # `return v` gives the changed parameters back too
        free = [v for v in self.vars if v in used and v in defined and v not in state and v not in targets]
        self.no_narrowed(state + free, defined, st, "used by a loop")
        self.n_loops += 1
        return state, free, f"{self.name}.loop{self.n_loops}"

    def elem_used(self):
        return any(uses_elem(self.types[v]) for v in self.vars) or uses_elem(self.ret_type)

    def elem_args(self):
        return self.mod.elem_args if self.elem_used() else ""

    def ord_binder(self):
        t = show_ty(self.ord_elem)
        return f" (ord_ : List {t} → List {t})"

    def binder_text(self, names, params=False, flags=None):
        out = ""
        if self.elem_used():
            out += self.mod.elem_binders
        if self.uses_ord and (params or (flags and flags["ord"])):
            out += self.ord_binder()
        if flags and flags["rec"]:
            out += f" (rec_ : {self.rec_type()})"
        for v in names:
            ty = self.param_types[v] if params else self.types[v]
            out += f" ({lean_name(v)} : {show_ty(ty)})"
        return out

    def loop_args(self, free, flags):
        """Arguments of a loop function: the element operations, `ord_`, the function itself at the smaller
        fuel (`rec_`: at the top level of the function it is `f.rec_ .. fuel_`), the free variables."""
        args = self.elem_args()
        if flags and flags["ord"]:
            args += " ord_"
        if flags and flags["rec"]:
            args += " rec_" if self.loop_depth else f" ({self.rec_head()})"
        return args + "".join(" " + lean_name(v) for v in free)

    def loop_call_site(self, name, free, seed, state, cont, ctx, defined, flags=None, init=None):
        pat = self.state_pat(state)
        args = self.loop_args(free, flags)
        ret = ctx.raw("v_")
        lines = [f"match {name}{args} {seed} {init or pat} with",
                 f"| .err e_ => {ctx.err('e_')}"]
        lines += [f"| .ret v_ => {ret[0]}"] if len(ret) == 1 else ["| .ret v_ =>"] + indent(ret)
        lines += [f"| .next {pat} =>"] + indent(cont(defined))
        return lines

    def comp_for(self, st, cont, ctx, defined):
        hoists = []
        targets = loop_targets(st)
        self.cur_stmt = st.iter
        seq, tys, elem_pat = self.iter_parts(st, defined, hoists)
        for t, ty in zip(targets, tys):
            if t != "_" and (has_bot(ty) or self.types[t] != ty):
                raise Unsupported(st, f"loop target `{t}` is also used at another type")
        for v in reads([st.iter]) & assigned(st.body):
            if is_coll(self.types.get(v)):
                raise Unsupported(st, f"the loop body changes the list `{v}` it iterates over")
        # `for x in self.attr` / `enumerate(self.attr)` / `for x in self.rows[i]` / `for x in obj.m()` iterate over
        # the LIVE list: a body that changes the object (directly, or through a method that does) may change that
        # list under the iterator, while the translation iterates over the value it had before the loop.
        # (`range(len(self.attr))` is evaluated once, before the first iteration.)
        live = st.iter
        if isinstance(live, ast.Call) and isinstance(live.func, ast.Name) and live.func.id == "enumerate" \
                and len(live.args) == 1 and not live.keywords:
            live = live.args[0]
        if not (isinstance(live, ast.Call) and isinstance(live.func, ast.Name) and live.func.id == "range"):
            for v in sorted(reads([live]) & self.assigned_(st.body)):
                if has_list(self.types.get(v)):
                    raise Unsupported(st, f"the loop body may change `{v}`, which holds the list it iterates over")
        pairs = self.iter_pairs
        mode = self.target_mutation(st, defined)
        state, free, name = self.loop_frame(st, defined, targets, mode)
        pat = self.state_pat(state)
        sigma = tup_ty([self.types[v] for v in state])
        rho = self.rho()
        flags = {"rec": False, "ord": False}
        self.loop_stack.append(flags)
        self.loop_depth += 1
        moved = set()
        try:
            # (the recursive call of the loop function: its arguments are known once the body is translated)
            hole = f"\x00{name}\x00"
            rec = [hole]
            step = rec
            if mode is not None and mode[0] == "acc":
                xs = mode[1]
                step = [f"let {lean_name(xs)} : {show_ty(self.types[xs])} := "
                        f"{lean_name(xs)} ++ [{lean_name(targets[0])}]", hole]
            elif mode is not None:
                moved = {targets[0]} - set(self.movable)
                for t in moved:
                    self.movable[t] = mode[1]
            lctx = Ctx(ret=lambda v: [f".ret {self.ret_text(v)}"], err=lambda e: f".err {e}",
                       brk=lambda d: [f".next {pat}"], cont=lambda d: rec, raw=lambda v: [f".ret {v}"])
            inner = self.drop_nn(defined, assigned(st.body)) | {t for t in targets if t != "_"}
            body = self.comp(st.body, lambda d: step, lctx, inner)
            call = f"{name}{self.loop_args(free, flags)} it_ {pat}"
        finally:
            self.loop_depth -= 1
            self.loop_stack.pop()
            for t in moved:
                del self.movable[t]
        body = [l.replace(hole, call) for l in body]
        if pairs:
            elem_ty = tup_ty(tys)
        else:
            elem_ty = tup_ty(list(reversed(tys))) if len(tys) == 2 else show_ty(tys[0])
        text = [f"def {name}{self.binder_text(free, flags=flags)} :",
                f"    List {paren_ty(elem_ty)} → {paren_ty(sigma)} → Py.Ctl {paren_ty(sigma)} {rho}",
                f"  | [], {pat} => .next {pat}",
                f"  | {elem_pat} :: it_, {pat} =>"] + indent(body, 4)
        self.aux.append("\n".join(text))
        init = None
        if mode is not None and mode[0] == "acc":
            # the rebuilt list starts empty; what the loop leaves in `xs` is the list of the changed elements
            init = self.state_pat_with(state, {mode[1]: "[]"})
        site = self.loop_call_site(name, free, seq, state, cont, ctx, defined, flags=flags, init=init)
        return self.wrap_hoists(hoists, site, ctx)

    def while_variant(self, st):
        """The loop variable `x` of `while x:` whose body shifts / floor-divides it exactly once
        at top level (so that `x` strictly decreases and `bit_length(x)` iterations suffice)."""
        t = st.test
        x = None
        if isinstance(t, ast.Name):
            x = t.id
        elif (isinstance(t, ast.Compare) and len(t.ops) == 1 and isinstance(t.left, ast.Name)
              and isinstance(t.comparators[0], ast.Constant) and t.comparators[0].value == 0
              and not isinstance(t.comparators[0].value, bool)
              and isinstance(t.ops[0], (ast.NotEq, ast.Gt))):
            x = t.left.id
        if x is None or self.types.get(x) != NAT:
            raise Unsupported(st, "while loop without a recognised variant (`while x:` on a non-negative int)")
        if contains(st.body, (ast.Continue,)):
            raise Unsupported(st, "continue inside a while loop")
        hits = []
        for s in st.body:
            if tuple_assign(s) and x in [n for n, _ in tuple_assign(s)]:
                hits.append(False)
            tv = stmt_target(s) if isinstance(s, (ast.Assign, ast.AugAssign, ast.AnnAssign)) else None
            if tv and tv[0] == x:
                v = tv[1]
                ok = (isinstance(v, ast.BinOp) and isinstance(v.left, ast.Name) and v.left.id == x
                      and isinstance(v.right, ast.Constant) and isinstance(v.right.value, int)
                      and not isinstance(v.right.value, bool)
                      and ((isinstance(v.op, ast.RShift) and v.right.value >= 1)
                           or (isinstance(v.op, ast.FloorDiv) and v.right.value >= 2)))
                hits.append(ok)
        nested = [s for s in st.body if isinstance(s, (ast.If, ast.For, ast.While))]
        if hits != [True] or x in assigned(nested):
            raise Unsupported(st, f"while loop without a recognised variant (`{x}` must be shifted right "
                                  "exactly once at the top level of the body)")
        return x

    def declared_fuel(self, st, defined):
        """A `while` loop without a syntactic variant: the number of iterations DECLARED for it in the
        ModuleSpec (key `<function>.while<k>`, an expression over the variables live before the loop; that
        it suffices is part of the equivalence proofs: `Err.Diverged` is never a claim about Python)."""
        self.n_whiles += 1
        src = self.mod.fuel.get(f"{self.qual}.while{self.n_whiles}")
        if src is None:
            return None
        hoists = []
        fuel, fty = self.expr(ast.parse(src, mode="eval").body, defined, hoists)
        if hoists or fty != NAT:
            raise Unsupported(st, "the declared fuel must be a non-raising expression of type Nat")
        return fuel

    def comp_while(self, st, cont, ctx, defined):
        try:
            fuel = f"(Py.bitLength {lean_name(self.while_variant(st))})"
            declared = False
        except Unsupported:
            fuel = self.declared_fuel(st, defined)
            declared = True
            if fuel is None:
                raise
        self.cur_stmt = st.test
        if self.may_raise(st.test):
            raise Unsupported(st, "raising expression in a loop condition")
        state, free, name = self.loop_frame(st, defined, [])
        c = self.prop(st.test, defined, [])
        pat = self.state_pat(state)
        sigma = tup_ty([self.types[v] for v in state])
        rho = self.rho()
        flags = {"rec": False, "ord": False}
        self.loop_stack.append(flags)
        self.loop_depth += 1
        try:
            hole = f"\x00{name}\x00"
            rec = [hole]
            lctx = Ctx(ret=lambda v: [f".ret {self.ret_text(v)}"], err=lambda e: f".err {e}",
                       brk=lambda d: [f".next {pat}"], cont=(lambda d: rec) if declared else None,
                       raw=lambda v: [f".ret {v}"])
            body = self.comp(st.body, lambda d: rec, lctx, self.drop_nn(defined, assigned(st.body)))
            call = f"{name}{self.loop_args(free, flags)} fuel_ {pat}"
        finally:
            self.loop_depth -= 1
            self.loop_stack.pop()
        if flags["rec"]:
            raise Unsupported(st, "recursive call inside a while loop")
        body = [l.replace(hole, call) for l in body]
        text = [f"def {name}{self.binder_text(free, flags=flags)} :",
                f"    Nat → {paren_ty(sigma)} → Py.Ctl {paren_ty(sigma)} {rho}",
                f"  | 0, {pat} => if {c} then .err .Diverged else .next {pat}",
                f"  | fuel_ + 1, {pat} =>",
                f"    if {c} then"] + indent(body, 6) + [f"    else .next {pat}"]
        self.aux.append("\n".join(text))
        return self.count(self.loop_call_site(name, free, fuel, state, cont, ctx, defined, flags=flags))

    # ---- whole function

    def translate(self):
        self.dry = False
        self.n_tmp = 0
        if has_bot(self.ret_type):
            raise Unsupported(self.fn, "cannot infer the return type (no `return e`?)")

        def fall_off(d):
            if self.kind != "init":
                raise Unsupported(self.fn, "the function may fall off its end (returns None)")
            missing = [a for a in self.attrs if "self." + a not in d]
            if missing:
                raise Unsupported(self.fn, f"`self.{missing[0]}` may be unset at the end of `__init__`")
            fields = ", ".join(f"{lean_name(a)} := {lean_name('self.' + a)}" for a in self.attrs)
            return [f".ok {{ {fields} }}"]

        for sub in self.local_fns.values():
            self.aux.append(sub.translate())
            self.uses_ord = self.uses_ord or sub.uses_ord
        self.check_moves()
        ctx = Ctx(ret=lambda v: [f".ok {self.ret_text(v)}"], err=lambda e: f".error {e}", raw=lambda v: [f".ok {v}"])
        body = self.comp(list(self.fn_body), fall_off, ctx, set(self.params))
        # a parameter re-assigned at a wider type (`stop = min(stop, last)` with an Int `last`)
        casts = [f"let {lean_name(p)} : {show_ty(self.types[p])} := "
                 f"{self.coerce(lean_name(p), self.param_types[p], self.types[p], self.fn)}"
                 for p in self.params if self.types[p] != self.param_types[p]]
        head = (f"def {self.name}{self.binder_text(self.params, params=True)} : "
                f"Except Py.Err {self.rho()} :=")
        if self.recursive:
            return "\n\n".join(self.aux + self.recursive_text(head, casts + body))
        return "\n\n".join(self.aux + ["\n".join([head] + indent(casts + body))])

    def recursive_text(self, head, body):
        """A recursive function: `f.rec_` recurses on an explicit fuel (`.error .Diverged` when it runs
        out; that it never does on the inputs covered is part of the equivalence proofs), `f` calls it
        with the fuel DECLARED for `f` in the ModuleSpec (an expression over the parameters)."""
        src = self.mod.fuel.get(self.qual)
        if src is None:
            raise Unsupported(self.fn, "recursive function without a declared fuel")
        if self.elem_used() and self.mod.elem_args:
            raise Unsupported(self.fn, "recursive function over elements with an explicit ordering")
        hoists = []
        saved = self.dry
        try:
            fuel, fty = self.expr(ast.parse(src, mode="eval").body, set(self.params), hoists)
        finally:
            self.dry = saved
        if hoists or fty != NAT:
            raise Unsupported(self.fn, "the declared fuel must be a non-raising expression of type Nat")
        tys = " → ".join(paren_ty(self.param_types[p]) for p in self.params)
        pats = ", ".join(lean_name(p) for p in self.params)
        # (opaque elements / the set order are fixed parameters of the recursion)
        fixed = (self.mod.elem_binders if self.elem_used() else "") + (self.ord_binder() if self.uses_ord else "")
        rec = [f"def {self.name}.rec_{fixed} : Nat → {tys} → Except Py.Err {self.rho()}",
               f"  | 0, {', '.join('_' for _ in self.params)} => .error .Diverged",
               f"  | fuel_ + 1, {pats} =>"] + indent(body, 4)
        args = " ".join(lean_name(p) for p in self.params)
        ord_ = " ord_" if self.uses_ord else ""
        return ["\n".join(rec), "\n".join([head, f"  {self.name}.rec_{ord_} {fuel} {args}"])]

    def check_moves(self):
        """Value semantics is exact as long as no object is changed while it can be reached through two
        references.  A mutable variable (list, object) is LEAKED by a statement that hands the bare
        reference on (argument of a call other than len / deepcopy / list / enumerate, element of a
        display, operand, returned or assigned value): from there on the callee's result, a container,
        the caller may hold a second reference to it, so that no statement that comes LATER in the source
        (or that shares a loop with the leak) may change it in place."""
        parent = {}
        for n in ast.walk(ast.Module(body=self.fn_body, type_ignores=[])):
            for c in ast.iter_child_nodes(n):
                parent[c] = n
        safe_calls = {"len", "deepcopy", "list", "enumerate", "bool", "set", "deque", "reversed"}

        def leaks(n):
            up = parent.get(n)
            up2 = parent.get(up)
            if isinstance(up, ast.Attribute) and isinstance(up2, ast.Call) and up2.func is up:
                # `x.m(..)`: the result of a method that returns a list / an object may hold `x` itself
                # (`def me(self): return [self]`), like the result of a call that is handed `x` as an argument
                sig = self.callee_sig(up2)
                return sig is not None and has_list(sig["ret_ty"])
            if isinstance(up, (ast.Attribute, ast.Subscript, ast.Compare, ast.BoolOp, ast.UnaryOp, ast.If,
                               ast.While, ast.Assert, ast.For, ast.comprehension)):
                return False
            if isinstance(up, ast.Call) and isinstance(up.func, ast.Name) and up.func.id in safe_calls:
                return False
            if isinstance(up, ast.Call) and n.id in mut_args(up) and sum(a is n for a in up.args) == 1:
                # handed to a parameter that the callee changes in place and gives back (the call rebinds the
                # variable); a translated callee keeps no other reference to it (`ret_alias` / `ret_shares`)
                sig = self.callee_sig(up)
                if sig is not None and not sig.get("ret_alias") and not sig.get("ret_shares") \
                        and up.args.index(n) in _MUT["functions"].get(up.func.id, ()):
                    return False
            return True

        def rebound_each_time(v, loops, pos, changes):
            """Inside the outermost loop of the leak at `pos`, every in-place change of `v` (positions `changes`,
            all before `pos`) is preceded, in the same iteration, by a NEW binding of `v`: `v` is the target of an
            enclosing loop that also encloses the changes, or the body of the outermost loop binds `v` afresh at
            its top level before any of them."""
            def binds(st2):
                tv2 = stmt_target(st2) if isinstance(st2, (ast.Assign, ast.AnnAssign)) else None
                return bool(tv2) and tv2[0] == v

            changes = [c for c in changes if not binds(flat[c][0])]
            for m in loops:
                if isinstance(m, ast.For) and v in loop_targets(m) and all(m in flat[c][1] for c in changes):
                    return True
            for b in loops[0].body:
                tv = stmt_target(b) if isinstance(b, (ast.Assign, ast.AnnAssign)) else None
                if tv and tv[0] == v:
                    at = next((i for i, (s2, _, _) in enumerate(flat) if s2 is b), None)
                    return at is not None and all(at < c for c in changes) and at < pos
                if v in self.assigned_([b]) or any(isinstance(n, ast.Name) and n.id == v for n in ast.walk(b)):
                    return False
            return False

        def visit(stmts, loops, acc):
            for st in stmts:
                if isinstance(st, ast.FunctionDef):
                    continue
                if isinstance(st, (ast.For, ast.While)):
                    acc.append((st, loops, [st.iter] if isinstance(st, ast.For) else [st.test]))
                    visit(st.body, loops + [st], acc)
                elif isinstance(st, ast.If):
                    acc.append((st, loops, [st.test]))
                    visit(st.body, loops, acc)
                    visit(st.orelse, loops, acc)
                else:
                    acc.append((st, loops, [st]))
            return acc

        flat = visit(self.fn_body, [], [])
        for v in self.vars:
            if not has_list(self.types.get(v, BOT)):
                continue
            leak_at = None  # (position, loops) of the first leak
            for pos, (st, loops, nodes) in enumerate(flat):
                here = any(isinstance(n, ast.Name) and n.id == v and isinstance(n.ctx, ast.Load) and leaks(n)
                           for root in nodes for n in ast.walk(root))
                simple = not isinstance(st, (ast.For, ast.While, ast.If))
                changes = simple and v in self.assigned_([st]) and not (
                    isinstance(st, (ast.Assign, ast.AnnAssign)) and stmt_target(st) and stmt_target(st)[0] == v)
                if isinstance(st, ast.For) and isinstance(st.iter, ast.Name) and st.iter.id == v \
                        and any(t in assigned(st.body) for t in loop_targets(st)):
                    changes = True  # the loop changes the elements of `v` in place (see `target_mutation`)
                if changes and leak_at is not None:
                    raise Unsupported(st, f"`{v}` is changed in place after a reference to it was handed on "
                                          f"(line {flat[leak_at[0]][0].lineno})")
                if here and changes:
                    raise Unsupported(st, f"`{v}` is changed in place by the statement that hands it on")
                if here and leak_at is None:
                    leak_at = (pos, loops)
                    # a change earlier in the same loop comes later in the next iteration
                    earlier = [i for i, (st2, loops2, _) in enumerate(flat[:pos])
                               if loops and loops2[:1] == loops[:1] and v in self.assigned_([st2])
                               and not isinstance(st2, (ast.For, ast.While, ast.If))]
                    if earlier and not rebound_each_time(v, loops, pos, earlier):
                        raise Unsupported(flat[earlier[0]][0],
                                          f"`{v}` is changed in place in a loop that also hands it on")

    def structure_text(self):
        """The Lean structure of a class, from the attributes its `__init__` stores."""
        lines = [f"structure {self.cls}{' (α : Type)' if self.ret_type[2] else ''} where"]
        lines += [f"  {lean_name(a)} : {show_ty(t)}" for a, t in self.attrs.items()]
        if not self.ret_type[2] and self.mod.mutators.get(self.cls):
            lines.append("  deriving DecidableEq, Repr")
        return "\n".join(lines)

    def signature(self):
        return {
            "name": self.name,
            "binders": self.binder_text(self.params, params=True).strip(),
            "args": [lean_name(p) for p in self.params],
            "arg_types": [show_ty(self.param_types[p]) for p in self.params],
            "param_tys": [self.param_types[p] for p in self.params],
            "ret": show_ty(self.ret_type),
            "ret_ty": self.ret_type,
            "elem": self.elem_used(),
            "params": list(self.params),
            "mut": self.mut,
            "ord": self.uses_ord,
            "ord_elem": self.ord_elem,
            "ret_alias": self.ret_alias,
            "ret_shares": self.ret_shares,
            "mut_params": list(self.mut_params),
        }


# --------------------------------------------------------------------------
# Modules


class ModuleSpec:
    def __init__(self, prop, source, namespace, functions, defs_file, equiv_file, proofs_module,
                 equiv, property_modules, refute, imports=(), int_ty=NAT, elem_lt=False,
                 equiv_custom=None, refute_custom=None, refute_prelude=(), note=None, param_types=None,
                 fuel=None, ignored_methods=(), prelude="SRVerif.Model.PyRt",
                 refute_against="the hand-written model"):
        self.prop = prop
        self.refute_against = refute_against  # what the bounded refutation search compares the generated code with
        self.prelude = prelude  # the run-time prelude the generated definitions import
        self.source = source  # path relative to the repository
        self.namespace = namespace
        self.functions = functions  # python functions, `Class.method` for methods (`__init__` first)
        self.defs_file = defs_file  # relative to lean/
        self.equiv_file = equiv_file
        self.proofs_module = proofs_module
        self.equiv = equiv  # python function -> (model expression, Lean type, failure mode, proof term)
        self.property_modules = property_modules  # Properties/*.lean that depend on the tie
        self.refute = refute  # python function -> Lean list expression of argument tuples
        self.imports = imports
        self.int_ty = int_ty  # NAT: `int` parameters are non-negative (precondition); INT: any Python int
        self.elem_lt = elem_lt  # elements support `<` only: explicit parameter `lt_` instead of DecidableEq
        # [(theorem name, binders, statement, proof term)]: statements that are not `f args = model args`
        self.equiv_custom = equiv_custom
        # [(label, Lean list of argument tuples, pattern, generated side, model side)]
        self.refute_custom = refute_custom
        self.refute_prelude = list(refute_prelude)
        self.note = note
        # qualified python name -> {parameter: annotation text}: DECLARED types of unannotated parameters
        self.param_types = param_types or {}
        # qualified python name -> python expression over the parameters: fuel of a recursive function
        self.fuel = fuel or {}
        # methods that are not translated; they must not change the object (checked syntactically)
        self.ignored_methods = list(ignored_methods)

    def module_name(self, rel):
        return rel[:-5].replace("/", ".")

    def module_ctx(self, elem_names):
        if self.elem_lt:
            mod = ModuleCtx(elem_names, self.int_ty,
                            elem_binders=" {α : Type} (lt_ : α → α → Except Py.Err Bool)",
                            elem_args=" lt_", has_deq=False, has_lt=True)
        else:
            mod = ModuleCtx(elem_names, self.int_ty)
        mod.param_types = self.param_types
        mod.fuel = self.fuel
        return mod


def class_parts(cls, spec):
    """The methods of a translated class; everything else in a class body is rejected (an
    untranslated method could change the attributes behind the back of the translated ones)."""
    for b in cls.bases:
        ok = (isinstance(b, ast.Subscript) and isinstance(b.value, ast.Name) and b.value.id == "Generic")
        if not ok:
            raise Unsupported(b, "class with a base other than Generic[...]")
    if cls.keywords or cls.decorator_list:
        raise Unsupported(cls, "class with keywords / decorators")
    methods = {}
    seen = set()
    for st in cls.body:
        if is_docstring(st) or isinstance(st, ast.Pass):
            continue
        if isinstance(st, ast.FunctionDef):
            if st.name in seen:
                raise Unsupported(st, f"method `{cls.name}.{st.name}` is defined twice")
            seen.add(st.name)
            if f"{cls.name}.{st.name}" in spec.ignored_methods:
                check_observer(cls, st, spec)
                continue
            if f"{cls.name}.{st.name}" not in spec.functions:
                raise Unsupported(st, f"method `{cls.name}.{st.name}` is not covered by the translation")
            methods[st.name] = st
            continue
        raise Unsupported(st, "unsupported statement in a class body")
    return methods


def check_observer(cls, fn, spec):
    """A method left out of the translation (`__repr__`) must not be able to change the object behind the
    back of the translated ones: it may read attributes and call TRANSLATED methods, nothing else."""
    parent = {}
    for n in ast.walk(fn):
        for c in ast.iter_child_nodes(n):
            parent[c] = n
    for n in ast.walk(fn):
        if isinstance(n, (ast.Global, ast.Nonlocal, ast.Delete)):
            raise Unsupported(n, f"untranslated method `{cls.name}.{fn.name}` may change the object")
        if not (isinstance(n, ast.Name) and n.id == "self"):
            continue
        up = parent.get(n)
        up2 = parent.get(up)
        ok = False
        if isinstance(up, ast.Attribute) and isinstance(up.ctx, ast.Load):
            if isinstance(up2, ast.Call) and up2.func is up:
                ok = f"{cls.name}.{up.attr}" in spec.functions  # a translated method
            elif isinstance(up2, ast.Subscript) and up2.value is up:
                ok = isinstance(up2.ctx, ast.Load)  # self.attr[i] read
            elif isinstance(up2, ast.Call) and isinstance(up2.func, ast.Name) and up2.func.id == "len":
                ok = True
        if not ok:
            raise Unsupported(n, f"untranslated method `{cls.name}.{fn.name}` may change the object")


def mutating_methods(methods):
    """Names of the methods that change `self`: they assign an attribute / an item of one, append to one,
    or call such a method on `self` (least fixed point)."""
    direct, calls = set(), {}
    for name, fn in methods.items():
        calls[name] = set()
        if name == "__init__":
            continue
        for n in ast.walk(fn):
            if isinstance(n, (ast.Attribute, ast.Subscript)) and isinstance(n.ctx, (ast.Store, ast.Del)):
                base = n
                while isinstance(base, (ast.Attribute, ast.Subscript)):
                    base = base.value
                if isinstance(base, ast.Name) and base.id == "self":
                    direct.add(name)
            if isinstance(n, ast.Call) and isinstance(n.func, ast.Attribute):
                base = n.func.value
                if isinstance(base, ast.Name) and base.id == "self":
                    calls[name].add(n.func.attr)
                    continue
                while isinstance(base, (ast.Attribute, ast.Subscript)):
                    base = base.value
                if isinstance(base, ast.Name) and base.id == "self" \
                        and n.func.attr not in ("index", "bit_length", "count", "copy"):
                    direct.add(name)  # self.attr.append(..), self.attr[i].append(..)
    out = set(direct)
    while True:
        more = {m for m, cs in calls.items() if cs & out} - out
        if not more:
            return out
        out |= more


MUTATING_METHODS = {"append", "appendleft", "add", "discard", "remove", "reverse", "popleft", "pop", "clear",
                    "extend", "extendleft", "insert", "sort", "update", "setdefault", "popitem", "rotate",
                    "difference_update", "intersection_update", "symmetric_difference_update"}


def mutating_functions(fns, names):
    """Module-level functions that change one of their parameters in place -> positions of those parameters:
    the function stores into / deletes from the parameter, calls a mutating method of a built-in container on
    it, or hands it to such a parameter of another function of the module (least fixed point).  Such a function
    is translated in state-passing style (it returns the new values of those parameters with its result)."""
    params = {n: [a.arg for a in fns[n].args.args] for n in names if n in fns}
    out = {n: set() for n in params}

    def base_name(e):
        while isinstance(e, (ast.Attribute, ast.Subscript)):
            e = e.value
        return e.id if isinstance(e, ast.Name) else None

    for n in params:
        for sub in ast.walk(fns[n]):
            hit = None
            if isinstance(sub, (ast.Subscript, ast.Attribute)) and isinstance(sub.ctx, (ast.Store, ast.Del)):
                hit = base_name(sub)
            if isinstance(sub, ast.Call) and isinstance(sub.func, ast.Attribute) \
                    and sub.func.attr in MUTATING_METHODS:
                hit = base_name(sub.func.value)
            if hit in params[n]:
                out[n].add(params[n].index(hit))
    while True:
        more = False
        for n in params:
            for sub in ast.walk(fns[n]):
                if isinstance(sub, ast.Call) and isinstance(sub.func, ast.Name) and sub.func.id in out:
                    for i, a in enumerate(sub.args):
                        if i in out[sub.func.id] and isinstance(a, ast.Name) and a.id in params[n] \
                                and params[n].index(a.id) not in out[n]:
                            out[n].add(params[n].index(a.id))
                            more = True
        if not more:
            return {n: sorted(ix) for n, ix in out.items() if ix}


def translate_source(text, spec):
    """-> (Lean text of the definitions, signatures).  Raises Unsupported."""
    saved = set(_MUT["methods"])
    saved_fns = dict(_MUT["functions"])
    try:
        seeds = {}
        for _ in range(6):
            # a method may store a wider type in an attribute than `__init__` did (`self.groups -= 1`
            # makes it an `Int`): the module is translated again with the widened attribute types
            mod, out, sigs = _translate_source(text, spec, seeds)
            if not mod.dirty:
                return out, sigs
        raise Unsupported("module", "the types of the attributes do not converge")
    finally:
        _MUT["methods"] = saved
        _MUT["functions"] = saved_fns


def _translate_source(text, spec, seeds):
    tree = ast.parse(text)
    fns, classes = {}, {}
    wanted = {f.split(".")[0] for f in spec.functions if "." in f}
    rebound, deepcopy_ok, deque_ok = set(), False, False
    special = ("set", "deepcopy", "deque", "reversed")
    for st in ast.walk(tree):
        # names the translator gives a meaning to although they are not in BUILTINS
        if isinstance(st, (ast.FunctionDef, ast.ClassDef)) and st.name in special:
            rebound.add(st.name)
        if isinstance(st, ast.Name) and isinstance(st.ctx, (ast.Store, ast.Del)) and st.id in special:
            rebound.add(st.id)
        if isinstance(st, ast.arg) and st.arg in special:
            rebound.add(st.arg)
        if isinstance(st, (ast.Import, ast.ImportFrom)) and st not in tree.body:
            rebound |= set(special)
    defined_names = {}  # functions / classes of the module -> the statement that defines them
    for st in tree.body:
        bound = []
        if isinstance(st, (ast.Import, ast.ImportFrom, ast.Assign, ast.AnnAssign, ast.AugAssign, ast.FunctionDef,
                           ast.ClassDef)):
            # one definition per name: a function / class that is defined twice, or whose name is also bound by an
            # import / an assignment, is rejected (which binding a call reaches depends on WHEN it runs)
            if isinstance(st, (ast.Import, ast.ImportFrom)):
                names = [(a.asname or a.name).split(".")[0] for a in st.names]
            elif isinstance(st, (ast.FunctionDef, ast.ClassDef)):
                names = [st.name]
            else:
                tgts = st.targets if isinstance(st, ast.Assign) else [st.target]
                names = [n.id for t in tgts for n in ast.walk(t) if isinstance(n, ast.Name)]
            for b in names:
                if b in defined_names and (isinstance(st, (ast.FunctionDef, ast.ClassDef))
                                           or isinstance(defined_names[b], (ast.FunctionDef, ast.ClassDef))):
                    raise Unsupported(st, f"`{b}` is defined twice at module level")
                defined_names.setdefault(b, st)
                if isinstance(st, (ast.FunctionDef, ast.ClassDef)):
                    defined_names[b] = st
        if isinstance(st, (ast.Import, ast.ImportFrom)):
            bound = [(a.asname or a.name).split(".")[0] for a in st.names]
            for a in st.names:
                if (a.asname or a.name) == "deepcopy":
                    if isinstance(st, ast.ImportFrom) and st.module == "copy" and a.name == "deepcopy" \
                            and st.level == 0:
                        deepcopy_ok = True
                    else:
                        rebound.add("deepcopy")
                if (a.asname or a.name) == "deque":
                    if isinstance(st, ast.ImportFrom) and st.module == "collections" and a.name == "deque" \
                            and st.level == 0:
                        deque_ok = True
                    else:
                        rebound.add("deque")
                if (a.asname or a.name) in ("set", "reversed"):
                    rebound.add(a.asname or a.name)
        elif isinstance(st, (ast.FunctionDef, ast.ClassDef)):
            bound = [st.name]
        elif isinstance(st, ast.Assign):
            bound = [t.id for t in st.targets if isinstance(t, ast.Name)]
        for b in bound:
            if b in BUILTINS or b == "*":
                raise Unsupported(st, f"the module rebinds `{b}`, a builtin the translator relies on")
        if is_docstring(st) or isinstance(st, (ast.Import, ast.ImportFrom)):
            continue
        if (isinstance(st, ast.Assign) and isinstance(st.value, ast.Call)
                and isinstance(st.value.func, ast.Name) and st.value.func.id == "TypeVar"):
            continue
        if isinstance(st, ast.FunctionDef):
            fns[st.name] = st
            continue
        if isinstance(st, ast.ClassDef) and wanted:
            # classes that are not translated (typing protocols) are ignored: any use of them is rejected
            if st.name in wanted:
                classes[st.name] = class_parts(st, spec)
            continue
        raise Unsupported(st, "unsupported top-level statement")
    elem = [st.targets[0].id for st in tree.body
            if isinstance(st, ast.Assign) and isinstance(st.targets[0], ast.Name)]
    mod = spec.module_ctx(elem or ("Element",))
    mod.attr_seed = seeds
    mod.deepcopy = deepcopy_ok and "deepcopy" not in rebound
    mod.deque = deque_ok and "deque" not in rebound
    mod.rebound = rebound
    for cname, methods in classes.items():
        mod.mutators[cname] = mutating_methods(methods)
    _MUT["methods"] = set().union(*mod.mutators.values()) if mod.mutators else set()
    _MUT["functions"] = mutating_functions(fns, [n for n in spec.functions if "." not in n])
    out, sigs = [], {}
    for name in spec.functions:
        cls = None
        if "." in name:
            cls, meth = name.split(".")
            if cls not in classes or meth not in classes[cls]:
                raise Unsupported(tree, f"method `{name}` not found in {spec.source}")
            fn = classes[cls][meth]
        elif name in fns:
            fn = fns[name]
        else:
            raise Unsupported(tree, f"function `{name}` not found in {spec.source}")
        for sub in ast.walk(fn):
            if isinstance(sub, ast.Call) and isinstance(sub.func, ast.Name) \
                    and (sub.func.id in fns or sub.func.id in classes) and sub.func.id not in mod.sigs \
                    and not (cls is None and sub.func.id == name):
                raise Unsupported(sub, "call of another function of the module")
        ft = FunctionTranslator(fn, mod=mod, cls=cls)
        text_fn = ft.translate()
        doc = f"/-- `{name}` (line {fn.lineno} of {spec.source}). -/\n"
        if ft.kind == "init":
            for at in ft.attrs:
                if at in classes[cls]:
                    # `self.find = ..` hides the method `find` of the instance
                    raise Unsupported(fn, f"attribute `self.{at}` has the name of a method")
            mod.classes[cls] = ft.attrs
            out.append(f"/-- class `{cls}`: the attributes stored by `__init__`. -/\n" + ft.structure_text())
        out.append(doc + text_fn)
        sigs[name] = ft.signature()
        if cls is None:
            mod.sigs[name] = sigs[name]
        else:
            mod.msigs[name] = sigs[name]
        for sub in ft.local_fns.values():
            sigs[sub.qual] = sub.signature()
    return mod, "\n\n".join(out), sigs


def defs_file_text(spec, sha, body):
    note = spec.note or (
        "  PRECONDITION recorded by the translator: parameters annotated `int` are non-negative\n"
        "  (translated as `Nat`).  `Except.error e` = the Python function raises `e`.\n")
    return (
        "/-\n"
        f"  GENERATED by harness/translate_py.py from {spec.source} — do not edit.\n"
        f"  source-sha256: {sha}\n"
        "  Mechanical translation of the function bodies into the normal form described in\n"
        "  harness/translate_py.py and SRVerif/Model/PyRt.lean (core Lean only).\n"
        + note +
        "-/\n"
        f"import {spec.prelude}\n\n"
        "set_option linter.unusedVariables false\n\n"
        f"namespace {spec.namespace}\nopen SR\n\n{body}\n\nend {spec.namespace}\n"
    )


def model_side(spec, name, sig):
    """Right-hand side of `gen_f_eq_model`: the model's value as a result of the generated function's type
    (a `Nat`-valued model under an `Int`-valued generated function is cast; `none` is the exception `err`)."""
    expr, ty, err, _ = spec.equiv[name]
    expr = expr.format(*sig["args"])
    if err is not None:
        return f"Py.ofOption {err} ({expr})"
    if ty == "Nat" and sig["ret"] == "Int":
        return f".ok (({expr} : Nat) : Int)"
    return f".ok ({expr})"


def equiv_file_text(spec, sha, sigs):
    lines = [
        "/-",
        f"  GENERATED by harness/translate_py.py from {spec.source} — do not edit.",
        f"  source-sha256: {sha}",
        "  Equivalence of the generated functions with the hand-written model, one theorem per",
        "  function, instantiating the hand-written loop-invariant proofs of",
        f"  {spec.proofs_module} against the definitions generated in this run.",
        "-/",
        f"import {spec.proofs_module}",
    ] + [f"import {m}" for m in spec.imports] + ["", f"namespace {spec.namespace}", "open SR", ""]
    if spec.equiv_custom is not None:
        for thm, binders, statement, proof in spec.equiv_custom:
            lines += [f"theorem {thm} {binders} :", f"    {statement} :=", f"  {proof}", ""]
        lines += [f"end {spec.namespace}", ""]
        return "\n".join(lines)
    for name in spec.functions:
        sig = sigs[name]
        proof = spec.equiv[name][3]
        a = sig["args"]
        lines += [
            f"theorem gen_{sig['name']}_eq_model {sig['binders']} :",
            f"    {sig['name']} {' '.join(a)} = {model_side(spec, name, sig)} :=",
            f"  {proof.format(*a)}",
            "",
        ]
    lines += [f"end {spec.namespace}", ""]
    return "\n".join(lines)


SUBSEQ = ModuleSpec(
    prop="C18",
    source="src/superrec2/utils/subsequences.py",
    namespace="SR.Gen.Subseq",
    functions=["subseq_complete", "mask_from_subseq", "subseq_from_mask", "subseq_segment_dist"],
    defs_file="SRVerif/Generated/SubseqPy.lean",
    equiv_file="SRVerif/Generated/SubseqPyEquiv.lean",
    proofs_module="SRVerif.Proofs.SubseqPyEquiv",
    imports=["SRVerif.Model.Subseq"],
    # python function -> (model expression, its Lean type, how the model reports failure, proof term)
    equiv={
        "subseq_complete": ("subseqComplete {0}", "Nat", None,
                            "SR.SubseqPyProofs.subseq_complete_eq {0}"),
        "mask_from_subseq": ("maskFromSubseq {0} {1}", "Nat", None,
                             "SR.SubseqPyProofs.mask_from_subseq_eq {0} {1}"),
        "subseq_from_mask": ("subseqFromMask {0} {1}", "List α", ".IndexError",
                             "SR.SubseqPyProofs.subseq_from_mask_eq {0} {1}"),
        "subseq_segment_dist": ("subseqSegmentDist {0} {1} {2}", "Int", None,
                                "SR.SubseqPyProofs.subseq_segment_dist_eq {0} {1} {2}"),
    },
    property_modules=["C18Code"],
    # bounded refutation search (classification only, never evidence): argument tuples
    refute={
        "subseq_complete": "(lists 3 5).map fun s => s",
        "mask_from_subseq": "(lists 3 4).flatMap fun c => (lists 3 5).map fun p => (c, p)",
        "subseq_from_mask": "(List.range 128).flatMap fun c => (List.range 7).map fun n => (c, List.range n)",
        "subseq_segment_dist": "(List.range 128).flatMap fun c => (List.range 128).flatMap fun p => "
                               "[(c, p, false), (c, p, true)]",
    },
)

RMQ = ModuleSpec(
    prop="C17",
    source="src/superrec2/utils/range_min_query.py",
    namespace="SR.Gen.Rmq",
    functions=["_ilog2", "RangeMinQuery.__init__", "RangeMinQuery.__call__"],
    defs_file="SRVerif/Generated/RmqPy.lean",
    equiv_file="SRVerif/Generated/RmqPyEquiv.lean",
    proofs_module="SRVerif.Proofs.RmqPyEquiv",
    imports=["SRVerif.Model.Lca", "SRVerif.Model.RmqPyBridge"],
    int_ty=INT,
    elem_lt=True,
    note=("  `int` values are Lean `Int`s: negative indices wrap around exactly as in Python (`Py.getInt?`),\n"
          "  `range` / list repetition with a non-positive count are empty, `2 ** e` with `e < 0` (a float in\n"
          "  Python) is the marker `Err.OutOfSubset`.  Elements are opaque and only support `<`: the explicit\n"
          "  parameter `lt_` stands for `Element.__lt__` (it may raise).  A class is a structure of the\n"
          "  attributes stored by `__init__`; lists have value semantics (the translator rejects every\n"
          "  program in which a list could be reached through two references).\n"
          "  `Except.error e` = the Python function raises `e`.\n"),
    equiv={},
    # statements about the generated functions (they are not of the form `f args = model args`: the model takes
    # natural numbers, its own exception type and a bare table)
    equiv_custom=[
        ("gen_ilog2_eq_model", "(value : Nat) (h : 0 < value)",
         "_ilog2 (value : Int) = .ok ((Lca.ilog2 value : Nat) : Int)",
         "SR.RmqPyProofs.ilog2_eq value h"),
        ("gen_init_eq_model", "{α : Type} (lt : Lca.Lt α) (data : List α)",
         "RangeMinQuery.__init__ (RmqBridge.liftLt lt) data\n"
         "      = (match Lca.build lt data with\n"
         "         | .error e => .error (RmqBridge.toPy e)\n"
         "         | .ok tbl => .ok { sparse_table := tbl })",
         "SR.RmqPyProofs.init_eq lt data"),
        ("gen_call_eq_model",
         "{α : Type} (lt : Lca.Lt α) (self : RangeMinQuery α) (start stop : Nat)",
         "RangeMinQuery.__call__ (RmqBridge.liftLt lt) self (start : Int) (stop : Int)\n"
         "      = RmqBridge.conv (Lca.query lt self.sparse_table start stop)",
         "SR.RmqPyProofs.call_eq lt self start stop"),
        ("gen_rmq_eq_model", "{α : Type} (lt : Lca.Lt α) (data : List α) (start stop : Nat)",
         "(match RangeMinQuery.__init__ (RmqBridge.liftLt lt) data with\n"
         "     | .error e => .error e\n"
         "     | .ok self => RangeMinQuery.__call__ (RmqBridge.liftLt lt) self (start : Int) (stop : Int))\n"
         "      = RmqBridge.modelRmq lt data start stop",
         "SR.RmqPyProofs.rmq_eq lt data start stop"),
    ],
    property_modules=["C17Code"],
    refute={},
    # bounded refutation search (classification only, never evidence), on the model's domain only
    # (0 <= start, stop <= len(data), empty ranges included; the empty array raises in both) and on a total
    # order without distinct equal elements: what the code does elsewhere is not part of the property
    refute_prelude=[
        "def natLt : Lca.Lt Nat := Lca.totalLt (fun a b => decide (a < b))",
        "def rmqCases : List (List Nat × Nat × Nat) :=",
        "  (lists 3 5 ++ [[3, 1, 4, 1, 5, 9, 2, 6, 5], [2, 7, 1, 8, 2, 8, 1, 8], "
        "[9, 8, 7, 6, 5, 4, 3, 2, 1, 0, 1, 2, 3, 4, 5, 6, 7]]).flatMap fun (d : List Nat) =>",
        "    (List.range (d.length + 1)).flatMap fun a => (List.range (d.length + 1)).map fun b => (d, a, b)",
    ],
    refute_custom=[
        ("_ilog2", "(List.range 70).map (· + 1)", "(n : Nat)",
         "_ilog2 (n : Int)", ".ok ((Lca.ilog2 n : Nat) : Int)"),
        ("RangeMinQuery", "rmqCases", "(d, a, b)",
         "(match RangeMinQuery.__init__ (RmqBridge.liftLt natLt) d with | .error e => .error e "
         "| .ok s => RangeMinQuery.__call__ (RmqBridge.liftLt natLt) s (a : Int) (b : Int))",
         "RmqBridge.modelRmq natLt d a b"),
    ],
)

DSU = ModuleSpec(
    prop="C20",
    source="src/superrec2/utils/disjoint_set.py",
    namespace="SR.Gen.Dsu",
    functions=["DisjointSet.__init__", "DisjointSet.find", "DisjointSet.unite", "DisjointSet.__len__",
               "DisjointSet.to_list", "DisjointSet.binary"],
    defs_file="SRVerif/Generated/DsuPy.lean",
    equiv_file="SRVerif/Generated/DsuPyEquiv.lean",
    proofs_module="SRVerif.Proofs.DsuPyEquiv",
    imports=["SRVerif.Model.DisjointSet"],
    # `count` carries no annotation in the source: DECLARED an int (recorded precondition, like "non-negative")
    param_types={"DisjointSet.__init__": {"count": "int"}},
    # fuel of the two recursive functions (that it suffices is part of the equivalence proofs: `find` walks to
    # the root of an acyclic forest whose ranks increase, `_binary` consumes one group per call)
    fuel={"DisjointSet.find": "len(self.parent) + 1", "DisjointSet.binary._binary": "len(groups) + 1"},
    # formats `to_list()`; reads attributes and calls translated methods only (checked)
    ignored_methods=["DisjointSet.__repr__"],
    note=("  PRECONDITION recorded by the translator: `int` values (elements, `count`) are non-negative\n"
          "  (translated as `Nat`; the counter `groups` is an `Int` because the code subtracts from it).\n"
          "  A class is a structure of the attributes stored by `__init__`; a method that changes `self`\n"
          "  returns the new object together with its result (state-passing style), a call `x.m(..)` of\n"
          "  such a method rebinds `x`.  Objects and lists have value semantics: the translator rejects every\n"
          "  program in which an object could be changed while reachable through two references, so that\n"
          "  `deepcopy(x)` is `x`; a RESULT may share objects with the arguments (`self` included): which\n"
          "  objects are identical is not modelled, only their values at the time of the return.\n"
          "  Recursive functions (`find`, `_binary`) recurse on an explicit fuel (`f.rec_`; `Err.Diverged`\n"
          "  when it runs out: never, by the equivalence proofs, on the states they cover).\n"
          "  `list(set(xs))`: the iteration order of a set is the explicit parameter `ord_` (`Py.listOfSet`).\n"
          "  `Except.error e` = the Python function raises `e`.\n"),
    equiv={},
    # statements about the generated functions, on every state `toGen d` of a model structure `d` that
    # satisfies the invariant `DS.WF` (parents in range, ranks increasing towards the roots, the rank bound
    # that makes the fuel of `find` suffice, `groups` = number of roots), elements in range: same result, same
    # new object, and the invariant is preserved
    equiv_custom=[
        ("gen_init_eq_model", "(count : Nat)",
         "DisjointSet.__init__ count = .ok (DsuPyProofs.toGen (DS.init count)) ∧ DS.WF (DS.init count)",
         "⟨SR.DsuPyProofs.init_eq count, (SR.DS.inv_init count).wf⟩"),
        ("gen_find_eq_model", "{d : DS} (hd : DS.WF d) {element : Nat} (he : element < d.size)",
         "DisjointSet.find (DsuPyProofs.toGen d) element\n"
         "      = .ok (DsuPyProofs.toGen (d.find element).1, (d.find element).2) ∧ DS.WF (d.find element).1",
         "⟨SR.DsuPyProofs.find_eq hd he, (SR.DS.find_spec hd he).2.2⟩"),
        ("gen_unite_eq_model",
         "{d : DS} (hd : DS.WF d) {first second : Nat} (h1 : first < d.size) (h2 : second < d.size)",
         "DisjointSet.unite (DsuPyProofs.toGen d) first second\n"
         "      = .ok (DsuPyProofs.toGen (d.unite first second).1, (d.unite first second).2)\n"
         "      ∧ DS.WF (d.unite first second).1",
         "⟨SR.DsuPyProofs.unite_eq hd h1 h2, (SR.DS.unite_spec hd h1 h2).1⟩"),
        ("gen_len_eq_model", "(d : DS)",
         "DisjointSet.__len__ (DsuPyProofs.toGen d) = .ok ((d.groups : Nat) : Int)",
         "SR.DsuPyProofs.len_eq d"),
        ("gen_to_list_eq_model", "{d : DS} (hd : DS.WF d)",
         "DisjointSet.to_list (DsuPyProofs.toGen d) = .ok (DsuPyProofs.toGen d.toList.1, d.toList.2)\n"
         "      ∧ DS.WF d.toList.1",
         "⟨SR.DsuPyProofs.to_list_eq hd, (SR.DS.toList_eq hd).2.1⟩"),
        ("gen_binary_eq_model",
         "{ord : List Nat → List Nat} (hord : Py.SetOrder ord) {d : DS} (hd : DS.WF d)",
         "DisjointSet.binary ord (DsuPyProofs.toGen d)\n"
         "      = .ok (DsuPyProofs.toGen d.allReps.1,\n"
         "             (DS.binGo (Py.listOfSet ord d.allReps.2) d.allReps.1 none none).map DsuPyProofs.toGen)\n"
         "      ∧ DS.WF d.allReps.1",
         "⟨SR.DsuPyProofs.binary_eq hord hd, (SR.DS.allReps_fold hd d.size (Nat.le_refl _)).2.1⟩"),
    ],
    property_modules=["C20Code"],
    refute={},
    # Bounded refutation search (classification only, never evidence).  What is compared is what the PROPERTY
    # observes, not the representation: the flags returned by the `unite`s of a history, `len`, the partition
    # (canonical labelling through `find`), `to_list` as a set of ascending groups, `binary` as a multiset of
    # partitions, and the partition left behind by `to_list` / `binary`.  A rewrite that changes which root
    # represents a class, how far paths are compressed or what the ranks are (all unobservable) makes the
    # proof script stale without being refuted.  Scope: every history of unite / find of length <= 3 on 3
    # elements, of unite of length <= 3 on 4 elements, and longer ones that build trees of rank 2 and 3.
    refute_prelude=[
        'open SR.DS in',
        'def allOps (n : Nat) : List Op :=',
        '  ((List.range n).flatMap fun a => (List.range n).map fun b => Op.unite a b) ++ (List.range n).map Op.find',
        'open SR.DS in',
        'def uniteOps (n : Nat) : List Op := (List.range n).flatMap fun a => (List.range n).map fun b => Op.unite a b',
        'def histsOf (ops : List DS.Op) : Nat → List (List DS.Op)',
        '  | 0 => [[]]',
        '  | k + 1 => (histsOf ops k).flatMap fun h => ops.map fun o => o :: h',
        'def canonLabels (reps : List Nat) : List Nat := reps.map fun r => reps.idxOf r',
        'def groupsCanon (n : Nat) (gs : List (List Nat)) : List Nat × Nat × Nat × Bool :=',
        '  ((List.range n).map fun i => match gs.find? (fun g => g.contains i) with',
        '    | some g => g.foldl min i',
        '    | none => n,',
        '   gs.length, (gs.map List.length).sum, gs.all fun g => g.zip (g.drop 1) |>.all fun (a, b) => decide (a < b))',
        'def insL (x : List Nat) : List (List Nat) → List (List Nat)',
        '  | [] => [x]',
        '  | y :: ys => if x < y then x :: y :: ys else y :: insL x ys',
        'def isort (l : List (List Nat)) : List (List Nat) := l.foldr insL []',
        'def genRunObs (n : Nat) (h : List DS.Op) : Except Py.Err (DisjointSet × List Bool) := do',
        '  let s ← DisjointSet.__init__ n',
        '  h.foldlM (fun (p : DisjointSet × List Bool) op => match op with',
        '    | .unite a b => do let (s, r) ← DisjointSet.unite p.1 a b; pure (s, p.2 ++ [r])',
        '    | .find a => do let (s, _) ← DisjointSet.find p.1 a; pure (s, p.2)) (s, [])',
        'def genLabels (n : Nat) (s : DisjointSet) : Except Py.Err (List Nat) := do',
        '  let (_, reps) ← (List.range n).foldlM (fun (p : DisjointSet × List Nat) i => do',
        '    let (s, r) ← DisjointSet.find p.1 i; pure (s, p.2 ++ [r])) (s, [])',
        '  pure (canonLabels reps)',
        'def modelLabels (n : Nat) (d : DS) : List Nat := canonLabels ((List.range n).map fun i => (d.find i).2)',
        'def modelRunObs (n : Nat) (h : List DS.Op) : DS × List Bool :=',
        '  h.foldl (fun (p : DS × List Bool) op => match op with',
        '    | .unite a b => ((p.1.unite a b).1, p.2 ++ [(p.1.unite a b).2])',
        '    | .find a => ((p.1.find a).1, p.2)) (DS.init n, [])',
        'structure Obs where',
        '  flags : List Bool',
        '  len : Int',
        '  labels : List Nat',
        '  groups : List Nat × Nat × Nat × Bool',
        '  labelsAfter : List Nat',
        '  lenAfter : Int',
        '  deriving DecidableEq, Repr',
        'abbrev BinObs := List (List Nat) × List Nat',
        'def genObs (n : Nat) (h : List DS.Op) : Except Py.Err Obs := do',
        '  let (s, bs) ← genRunObs n h',
        '  let k ← DisjointSet.__len__ s',
        '  let labels ← genLabels n s',
        '  let (s2, gs) ← DisjointSet.to_list s',
        '  let labels2 ← genLabels n s2',
        '  let k2 ← DisjointSet.__len__ s2',
        '  pure ⟨bs, k, labels, groupsCanon n gs, labels2, k2⟩',
        'def modelObs (n : Nat) (h : List DS.Op) : Except Py.Err Obs :=',
        '  let p := modelRunObs n h',
        '  .ok ⟨p.2, (p.1.groups : Int), modelLabels n p.1, groupsCanon n p.1.toList.2, modelLabels n p.1.toList.1,',
        '       (p.1.toList.1.groups : Int)⟩',
        'def genBin (n : Nat) (h : List DS.Op) : Except Py.Err BinObs := do',
        '  let (s, _) ← genRunObs n h',
        "  let (s', res) ← DisjointSet.binary (fun l => l) s",
        '  let ls ← res.mapM (genLabels n)',
        "  let l' ← genLabels n s'",
        "  pure (isort ls, l')",
        'def modelBin (n : Nat) (h : List DS.Op) : Except Py.Err BinObs :=',
        '  let p := modelRunObs n h',
        '  .ok (isort (p.1.binary.map (modelLabels n)), modelLabels n p.1)',
        'open SR.DS in',
        'def dsuCases : List (Nat × List Op) :=',
        '  ((List.range 4).flatMap fun k => (histsOf (allOps 3) k).map fun h => (3, h)) ++',
        '  ((List.range 4).flatMap fun k => (histsOf (uniteOps 4) k).map fun h => (4, h)) ++',
        '  [(0, []), (1, [.unite 0 0]), (5, [.unite 0 1, .unite 2 3, .unite 0 2, .find 3, .unite 4 3, .find 1]),',
        '   (6, [.unite 0 1, .unite 2 3, .unite 4 5, .unite 1 3, .unite 5 3, .find 5, .find 1]),',
        '   (8, [.unite 0 1, .unite 2 3, .unite 4 5, .unite 6 7, .unite 1 3, .unite 5 7, .unite 3 7, .find 7, .find 5]),',
        '   (8, [.unite 1 0, .unite 3 2, .unite 5 4, .unite 7 6, .unite 2 0, .unite 6 4, .unite 4 0, .find 7, .unite 7 1]),',
        '   (7, [.unite 6 5, .unite 4 3, .unite 5 3, .unite 2 1, .unite 1 0, .unite 3 0, .find 6, .find 4])]',
        'def binCases : List (Nat × List DS.Op) := dsuCases.filter fun c => c.2.length ≤ 2 || c.1 > 4',
    ],
    refute_custom=[
        ("DisjointSet_history", "dsuCases", "(n, h)", "genObs n h", "modelObs n h"),
        ("DisjointSet_binary", "binCases", "(n, h)", "genBin n h", "modelBin n h"),
    ],
)

TOPO = ModuleSpec(
    prop="C19",
    source="src/superrec2/utils/toposort.py",
    namespace="SR.Gen.Topo",
    # (`find_cycle` is not part of C19: left out, like every function that is not named here)
    functions=["toposort", "_toposort_all_bt", "toposort_all"],
    defs_file="SRVerif/Generated/TopoPy.lean",
    equiv_file="SRVerif/Generated/TopoPyEquiv.lean",
    proofs_module="SRVerif.Proofs.TopoPyEquivAll",
    imports=["SRVerif.Spec.Toposort"],
    prelude="SRVerif.Model.PyRtColl",
    int_ty=INT,
    # DECLARED bounds (that they suffice is part of the equivalence proofs): the `while starts:` loop of
    # `toposort` pops each vertex at most once; `_toposort_all_bt` removes one vertex per level of recursion
    fuel={"toposort.while1": "len(graph) + 1", "_toposort_all_bt": "len(graph) + 1"},
    note=("  Nodes are opaque values with `==` (`{α} [DecidableEq α]`; the theorems instantiate `α := Nat`).\n"
          "  A `dict` is the association list of its items in insertion order (`Py.dictGet?` / `Py.dictSet`;\n"
          "  `KeyError` = `Except.error .KeyError`); PRECONDITION: the keys of a dict PARAMETER are pairwise\n"
          "  different.  A `set` is the list of its elements in insertion order (`Py.setAdd` / `Py.discard` /\n"
          "  `Py.remove?`); the sets held by the parameter `graph`, which nothing changes, are given by the\n"
          "  caller as lists IN ITERATION ORDER; the iteration order of every other set is the explicit\n"
          "  parameter `ord_`, applied to the elements in insertion order (theorems assume `Py.SetOrder ord_`\n"
          "  only: the elements, each once).  A `deque` is a list (`Py.popleft?`).  `int` values are `Int`s.\n"
          "  `_toposort_all_bt` changes its parameter `indeg` in place: it returns the new dict with its result\n"
          "  (state-passing style), a call rebinds the variable handed to it.  It recurses on a DECLARED fuel\n"
          "  (`.rec_`; its main loop takes the function at the smaller fuel as `rec_`), as does the `while`\n"
          "  loop of `toposort` (`Err.Diverged` when it runs out: never, by the equivalence proofs).  Lists\n"
          "  have value semantics (no list is reachable through two references: checked syntactically; the\n"
          "  loop `for subresult in results: .. subresult.reverse()` rebuilds `results`).\n"
          "  `Except.error e` = the Python function raises `e`.\n"),
    equiv={},
    # Statements about the generated functions at node type Nat.  `toposort` iterates no set of its own: it is
    # EQUAL to the model's function (result and exception) on every graph with pairwise different keys, unless
    # the model runs out of fuel (it never does: C19_total / C19_malformed).  `toposort_all` is parametric in
    # the iteration order of its sets where the model fixes one: for EVERY order its result is a permutation of
    # the model's, and, directly, a duplicate-free list of exactly the topological orderings.
    equiv_custom=[
        ("gen_toposort_eq_model",
         "{g : Toposort.Graph} (hk : (Toposort.keys g).Nodup) (hfuel : Toposort.toposort g ≠ .error .fuel)",
         "toposort g = TopoPyProofs.conv (Toposort.toposort g)",
         "SR.TopoPyProofs.toposort_eq hk hfuel"),
        ("gen_bt_spec",
         "{ord : List Nat → List Nat} (hord : Py.SetOrder ord) {g : Toposort.Graph} (hwf : Toposort.WF g)\n"
         "    (fuel : Nat) (done starts : List Nat) (I : Toposort.Indeg) (hinv : Toposort.Inv g done starts I)\n"
         "    (hfuel : g.length - done.length < fuel)",
         "∃ rs, _toposort_all_bt.rec_ ord fuel starts g I = .ok (I, rs) ∧ rs.Nodup ∧\n"
         "      ∀ r, r ∈ rs ↔ Toposort.Greedy g done r.reverse",
         "SR.TopoPyProofs.bt_rec_spec hord hwf fuel done starts I hinv hfuel"),
        ("gen_toposort_all_spec",
         "{ord : List Nat → List Nat} (hord : Py.SetOrder ord) {g : Toposort.Graph} (hwf : Toposort.WF g)",
         "∃ os, toposort_all ord g = .ok os ∧ os.Nodup ∧ ∀ o, o ∈ os ↔ Toposort.IsTopo g o",
         "SR.TopoPyProofs.toposort_all_spec hord hwf"),
        ("gen_toposort_all_perm_model",
         "{ord : List Nat → List Nat} (hord : Py.SetOrder ord) {g : Toposort.Graph} (hwf : Toposort.WF g)",
         "∃ os ms, toposort_all ord g = .ok os ∧ Toposort.toposortAll g = .ok ms ∧ os.Perm ms",
         "SR.TopoPyProofs.toposort_all_perm hord hwf"),
        ("gen_toposort_all_malformed",
         "(ord : List Nat → List Nat) {g : Toposort.Graph} (hk : (Toposort.keys g).Nodup)\n"
         "    (hbad : ∃ p ∈ g, ∃ v ∈ p.2, v ∉ Toposort.keys g)",
         "toposort_all ord g = .error .KeyError",
         "SR.TopoPyProofs.toposort_all_malformed ord hk hbad"),
    ],
    property_modules=["C19Code"],
    refute_against="the specification (permutations of the keys filtered by IsTopo; KeyError on a non-key successor)",
    refute={},
    # Bounded refutation search (classification only, never evidence).  What is compared is what the PROPERTY
    # observes: for `toposort_all` (under three iteration orders) whether it raises and which exception, whether
    # an ordering is repeated, and the SET of orderings — against the permutations of the keys filtered by the
    # specification `IsTopo`; for `toposort` the exception, None-ness and the VALIDITY of the ordering (not
    # which one).  A rewrite that produces the orderings in another order, or another valid ordering, makes the
    # proof script stale without being refuted.  Scope: every digraph on <= 3 vertices (self-loops included),
    # some on 4 and 5, and graphs with a successor that is not a key.
    refute_prelude=[
        "open SR.Toposort in",
        "def digraph (n bits : Nat) : Graph :=",
        "  (List.range n).map fun i => (i, (List.range n).filter fun j => (bits >>> (i * n + j)) % 2 == 1)",
        "open SR.Toposort in",
        "def topoCases : List Graph :=",
        "  ((List.range 4).flatMap fun n => (List.range (2 ^ (n * n))).map fun b => digraph n b) ++",
        "  ((List.range 40).map fun k => digraph 4 (k * 1637 % 65536)) ++",
        "  [[(4, [0, 1]), (5, [0, 2]), (0, []), (1, []), (2, [3]), (3, [1])], [(0, [1]), (1, [7])], [(0, [5])],",
        "   [(3, [1]), (1, [2]), (2, [1, 0]), (0, [])], [(0, [1, 2, 3, 4]), (1, []), (2, []), (3, []), (4, [])],",
        "   [(2, []), (0, [2, 9])]]",
        "def permsOf : List Nat → List (List Nat)",
        "  | [] => [[]]",
        "  | x :: xs => (permsOf xs).flatMap fun p => (List.range (p.length + 1)).map fun i => p.take i ++ x :: p.drop i",
        "def insO (x : List Nat) : List (List Nat) → List (List Nat)",
        "  | [] => [x]",
        "  | y :: ys => if x < y then x :: y :: ys else if x = y then y :: ys else y :: insO x ys",
        "def asSet (l : List (List Nat)) : List (List Nat) := l.foldr insO []",
        "open SR.Toposort in",
        "def wantAll (g : Graph) : Except Py.Err (List (List Nat) × Bool) :=",
        "  if g.all (fun p => p.2.all fun v => (keys g).contains v) then",
        "    .ok (asSet ((permsOf (keys g)).filter fun o => decide (IsTopo g o)), true)",
        "  else .error .KeyError",
        "def gotAll (ord : List Nat → List Nat) (g : Toposort.Graph) : Except Py.Err (List (List Nat) × Bool) :=",
        "  match toposort_all ord g with",
        "  | .ok os => .ok (asSet os, decide (os.Nodup))",
        "  | .error e => .error e",
        "open SR.Toposort in",
        "def wantOne (g : Graph) : Except Py.Err (Bool × Bool) :=",
        "  match wantAll g with",
        "  | .ok (os, _) => .ok (os.isEmpty, true)",
        "  | .error e => .error e",
        "def gotOne (g : Toposort.Graph) : Except Py.Err (Bool × Bool) :=",
        "  match toposort g with",
        "  | .ok none => .ok (true, true)",
        "  | .ok (some o) => .ok (false, decide (Toposort.IsTopo g o))",
        "  | .error e => .error e",
    ],
    refute_custom=[
        ("toposort", "topoCases", "g", "gotOne g", "wantOne g"),
        ("toposort_all", "topoCases", "g", "gotAll (fun l => l) g", "wantAll g"),
        ("toposort_all_reversed_sets", "topoCases", "g", "gotAll List.reverse g", "wantAll g"),
        ("toposort_all_rotated_sets", "topoCases", "g", "gotAll (fun l => l.drop 1 ++ l.take 1) g", "wantAll g"),
    ],
)

SPECS = {"C18": SUBSEQ, "C17": RMQ, "C20": DSU, "C19": TOPO}


def write_if_changed(path, text):
    path.parent.mkdir(parents=True, exist_ok=True)
    if not path.exists() or path.read_text() != text:
        path.write_text(text)


def _lake(args, timeout=1800):
    from harness.common import run

    return run(["lake"] + args, cwd=LEAN, timeout=timeout)


def refute(spec, sigs):
    """Bounded search, evaluated by Lean (`#eval`, interpreter — a classifier, not a proof), for
    an input on which a generated function differs from the model.  -> {fn: witness text}."""
    lines = [f"import {spec.module_name(spec.defs_file)}"] + [f"import {m}" for m in spec.imports]
    lines += [
        "open SR",
        f"open {spec.namespace}",
        "def lists (k : Nat) : Nat → List (List Nat)",
        "  | 0 => [[]]",
        "  | n + 1 => [] :: (lists k n).flatMap fun l => (List.range k).map fun x => x :: l",
    ]
    lines += spec.refute_prelude
    entries = spec.refute_custom
    if entries is None:
        entries = []
        for name in spec.functions:
            sig = sigs[name]
            a = sig["args"]
            entries.append((name, spec.refute[name], tup(a), f"{sig['name']} {' '.join(a)}",
                            model_side(spec, name, sig)))
    for name, cases, pat, call, model in entries:
        lines += [
            f"#eval IO.println (\"REFUTE {name} \" ++ toString (repr "
            f"((({cases}).find? fun {pat} => "
            f"!(Py.sameResult ({call}) ({model}))))))",
        ]
    path = LEAN / ".lake" / f"tie_{spec.prop}_refute.lean"
    path.write_text("\n".join(lines) + "\n")
    rc, log = _lake(["env", "lean", str(path)], timeout=600)
    out = {}
    for m in re.finditer(r"^REFUTE (\w+) (.*)$", log, flags=re.M):
        if m.group(2).strip() != "none":
            out[m.group(1)] = m.group(2).strip()
    if rc != 0 and not out:
        return None, log[-1500:]
    return out, ""


def short(log, n=600):
    errs = re.findall(r"error: [^\n]*(?:\n(?!\S*error)[^\n]*){0,4}", log)
    return " | ".join(" ".join(e.split()) for e in errs[:2])[:n] or " ".join(log.split())[-n:]


def tie(prop, repo=None):
    """`_tie`, with the guarantee that a defect of the translator itself is never an alarm."""
    spec = SPECS.get(str(prop).upper())
    if spec is None:
        return None
    from harness.common import Infra

    try:
        return _tie(spec, repo)
    except Infra:
        raise
    except Exception as e:  # pragma: no cover
        return {"status": "unavailable", "exclude": list(spec.property_modules), "failing": [], "generated": [],
                "text": f"unavailable: translator crashed: {type(e).__name__}: {e}"}


def _tie(spec, repo=None):
    """Regenerate the translated definitions of `prop` and classify the tie.

    -> None when the property has no translator tie, else a dict
       status   "ok" | "unavailable" | "broken"
       text     the evidence line ("ok (sha256 ...)" / "unavailable: <reason>")
       exclude  Properties/ modules that must not be built / audited / counted in this run
       failing  obligations to report when status is "broken"
       generated  files written

    unavailable = the translator could not do its job (syntax outside the subset, generated
      definitions ill-typed, equivalence proof script no longer applies to the new normal form
      while no differing input exists in the bounded scope): NO ALARM, the caller falls back to the
      hand-model correspondence with the thorough budget.
    broken = the generated definitions compile, the equivalence does not, and Lean itself exhibits
      an input on which the generated function differs from the model: the proof obligation
      `gen_f_eq_model` is refuted for the code as it is now; the caller treats this like any other
      failing theorem (deep search, then VIOLATION).
    """
    src = Path(repo or REPO) / spec.source
    out = {"status": "unavailable", "exclude": list(spec.property_modules), "failing": [],
           "generated": [], "sha256": None}

    def done(status, text, **kw):
        out.update(status=status, text=text, **kw)
        if status == "ok":
            out["exclude"] = []
        return out

    try:
        text = src.read_text()
    except OSError as e:
        return done("unavailable", f"unavailable: cannot read {spec.source}: {e}")
    sha = hashlib.sha256(text.encode()).hexdigest()
    out["sha256"] = sha
    try:
        body, sigs = translate_source(text, spec)
    except Unsupported as e:
        return done("unavailable", f"unavailable: translator: {e}")
    except SyntaxError as e:
        return done("unavailable", f"unavailable: translator: syntax error: {e}")
    write_if_changed(LEAN / spec.defs_file, defs_file_text(spec, sha, body))
    write_if_changed(LEAN / spec.equiv_file, equiv_file_text(spec, sha, sigs))
    out["generated"] = ["lean/" + spec.defs_file, "lean/" + spec.equiv_file]
    rc, log = _lake(["build", spec.module_name(spec.defs_file)])
    if rc != 0:
        return done("unavailable", "unavailable: generated definitions do not compile "
                                   f"(translator defect or unsupported typing): {short(log)}")
    rc, log = _lake(["build", spec.module_name(spec.equiv_file)]
                    + [f"SRVerif.Properties.{m}" for m in spec.property_modules])
    if rc == 0:
        return done("ok", f"ok (sha256 {sha})")
    # Which part failed?  The equivalence proofs (gen_f_eq_model) are the tie; the property modules are THEOREMS
    # stated about the generated functions.  When the equivalence still builds, the generated functions are proved
    # equal to the model, and a property module that does not build is a failing theorem of /verif (never a
    # limitation of the translator): a failed proof obligation, not "unavailable".
    rc_eq, _log_eq = _lake(["build", spec.module_name(spec.equiv_file)])
    if rc_eq == 0:
        where = re.findall(r"error: (\S+\.lean:\d+:\d+)", log)[:10]
        if not where:  # lake failed without naming a Lean source position: not a statement about the theorems
            from harness.common import Infra
            raise Infra("lake build of the property modules failed without a Lean error:\n" + log[-2000:])
        return done("broken", f"ok (sha256 {sha}); but theorems stated about the generated functions fail: {short(log)}",
                    failing=[f"theorem module depending on the translator tie does not build: {w}" for w in where],
                    log=log[-3000:])
    witnesses, err = refute(spec, sigs)
    if witnesses:
        against = "the model" if spec.refute_against == "the hand-written model" else spec.refute_against
        what = "; ".join(f"{f} differs from {against} at {w}" for f, w in sorted(witnesses.items()))
        return done("broken", f"unavailable: equivalence refuted (sha256 {sha}): {what}",
                    failing=[f"translator tie: gen_{f}_eq_model is false: generated {f} differs from "
                             f"{spec.refute_against} at {w}" for f, w in sorted(witnesses.items())],
                    witnesses=witnesses, log=log[-3000:])
    why = ("the equivalence proofs no longer apply to the generated normal form, and no input in the bounded "
           "scope distinguishes the generated functions from the model (proof script stale)")
    if witnesses is None:
        why = f"the equivalence proofs no longer compile and the bounded comparison could not run ({short(err)})"
    return done("unavailable", f"unavailable: {why}: {short(log)}", log=log[-3000:], stale=True)


if __name__ == "__main__":
    import sys

    for p in sys.argv[1:] or ["C18"]:
        print(json.dumps(tie(p), indent=1))
