"""Shared machinery of the checks: Lean build + audit, driver I/O, verdict
logic, evidence and replay files.  See DESIGN.md section 2."""
import hashlib
import importlib
import json
import os
import random
import re
import subprocess
import sys
import time
from collections import Counter
from pathlib import Path

VERIF = Path(__file__).resolve().parent.parent
LEAN = VERIF / "lean"
REPO = Path(os.environ.get("SUPERREC2_REPO", "/repo"))
DRIVER = LEAN / ".lake" / "build" / "bin" / "driver"
ALLOWED_AXIOMS = {"propext", "Classical.choice", "Quot.sound"}
FORBIDDEN = re.compile(
    r"\bsorry\b|\badmit\b|^\s*axiom\s|native_decide|bv_decide|implemented_by|"
    r"\bunsafe\s|maxHeartbeats\s+0\b|\bextern\b",
    re.M,
)
BASE_TRUSTED = [
    "Lean 4.33.0 kernel (elaborator output re-checked by the kernel; leanchecker in the thorough tier)",
    "axioms allowed: propext, Classical.choice, Quot.sound (audited with #print axioms on every run)",
    "the Lean compiler, for the driver executable only (correspondence and search, never a theorem)",
    "the Python harness: generators, canonicalisation, calls into the real superrec2 API",
    "hand-written models are tied to /repo's source only as far as the correspondence explores",
]


class Infra(Exception):
    """Infrastructure failure: exit status 2, never a VIOLATION line."""


def setup_repo_path():
    """Make `import superrec2` resolve to /repo's current working tree."""
    src = str(REPO / "src")
    if src not in sys.path:
        sys.path.insert(0, src)
    os.environ.setdefault("SUPERREC2_VERIF", "1")
    import superrec2  # noqa

    got = Path(superrec2.__file__).resolve()
    if not str(got).startswith(str(REPO.resolve())):
        raise Infra(f"superrec2 imported from {got}, not from {REPO}")
    quiet_tqdm()


def quiet_tqdm():
    """The solvers draw tqdm progress bars on stderr; replace them in-process
    by the identity (no source hook needed)."""
    try:
        import superrec2.compute.super_reconciliation as a
        import superrec2.compute.unordered_super_reconciliation as b

        def ident(it=None, *args, **kw):
            return it

        a.tqdm = ident
        b.tqdm = ident
    except Exception:  # pragma: no cover
        pass


# --------------------------------------------------------------------------
# Lean side


def strip_comments(text):
    text = re.sub(r"/-.*?-/", "", text, flags=re.S)
    text = re.sub(r"--.*", "", text)
    return text


def run(cmd, cwd=None, timeout=3600, input=None):
    try:
        p = subprocess.run(
            cmd, cwd=cwd, capture_output=True, text=True, timeout=timeout, input=input
        )
    except subprocess.TimeoutExpired as e:
        raise Infra(f"timeout: {' '.join(map(str, cmd))}") from e
    return p.returncode, p.stdout + p.stderr


def property_files(prop, exclude=()):
    """Properties/<prop>.lean plus split files Properties/<prop><Suffix>.lean (same namespace SR.<prop>).
    `exclude`: module stems left out of this run (modules that depend on an unavailable translator tie)."""
    d = LEAN / "SRVerif" / "Properties"
    return sorted(p for p in d.glob(f"{prop}*.lean")
                  if re.fullmatch(rf"{prop}([A-Z][A-Za-z]*)?\.lean", p.name) and p.stem not in exclude)


def theorem_names(prop, exclude=()):
    names = []
    for path in property_files(prop, exclude):
        text = strip_comments(path.read_text())
        names += re.findall(r"^theorem\s+([A-Za-z0-9_'.]+)", text, flags=re.M)
    return names


def forbidden_hits():
    hits = []
    for path in list((LEAN / "SRVerif").rglob("*.lean")) + [LEAN / "Driver.lean"]:
        text = strip_comments(path.read_text())
        for m in FORBIDDEN.finditer(text):
            hits.append(f"{path.relative_to(LEAN)}: {m.group(0).strip()}")
    return hits


def translate(prop):
    """Regenerate Generated/*.lean from /repo's source (DESIGN 4.2)."""
    try:
        tr = importlib.import_module("harness.translate")
    except ModuleNotFoundError:
        return []
    return tr.regenerate(prop)


# VERIF_STRICT_TIE=1: an equivalence proof that no longer applies to the generated normal form counts as a
# broken obligation even when Lean finds no input on which generated function and model differ.
STRICT_TIE = os.environ.get("VERIF_STRICT_TIE", "") == "1"


def translator_tie(prop):
    """Second tie of DESIGN 4.2: function bodies translated mechanically from the source text and PROVED equal
    to the hand-written model (harness/translate_py.py).  None for properties without one, else a dict with
    status ok | unavailable | broken, text (evidence line), exclude (Properties modules not to build)."""
    try:
        tp = importlib.import_module("harness.translate_py")
    except ModuleNotFoundError:
        return None
    return tp.tie(prop)


def lean_build(prop, thorough=False):
    """Build the property's theorems and the driver; audit axioms.

    Returns a dict: ok, build_ok, log, theorems, axioms{thm: [..]}, failing[]"""
    out = {
        "ok": False,
        "build_ok": False,
        "log": "",
        "theorems": [],
        "axioms": {},
        "failing": [],
        "checker_cmd": f"cd lean && lake build SRVerif.Properties.{prop} driver && "
        f"lake env lean <audit of #print axioms for {prop}>",
    }
    t0 = time.time()
    generated = translate(prop)
    out["generated"] = generated
    try:
        from harness import translate as _tr

        out["template_extractor"] = _tr.STATUS.get(prop)
    except Exception:  # pragma: no cover
        pass
    tie = translator_tie(prop)
    excluded = set()
    if tie:
        # unavailable: the modules stated about the generated functions are left out (no alarm, the caller
        # falls back to the correspondence with the thorough budget); broken: they are left out AND the run
        # counts as a failed proof obligation (deep search, then VIOLATION).
        excluded = set(tie["exclude"])
        out["generated"] = list(generated) + list(tie.get("generated", []))
        out["translator_tie"] = tie["text"]
        out["tie_status"] = tie["status"]
        if tie.get("stale") and STRICT_TIE:
            tie["status"] = out["tie_status"] = "broken"
            tie["failing"] = ["translator tie (strict): " + tie["text"]]
    files = property_files(prop, excluded)
    rc, log = run(["lake", "build", "driver"], cwd=LEAN)
    if rc != 0 or not DRIVER.exists():
        # The driver contains hand-written models only: this is our fault.
        raise Infra("driver build failed:\n" + log[-3000:])
    mods = [f"SRVerif.Properties.{p.stem}" for p in files] or [f"SRVerif.Properties.{prop}"]
    rc, log = run(["lake", "build"] + mods, cwd=LEAN)
    out["log"] = log[-6000:]
    out["build_ok"] = rc == 0
    thms = theorem_names(prop, excluded)
    out["theorems"] = thms
    if rc != 0:
        out["failing"] = re.findall(r"error: (\S+\.lean:\d+:\d+)", log)[:10]
        if not out["failing"]:
            # lake failed without naming a position in a Lean source (killed, out of memory, lock, missing
            # toolchain ...): nothing was learnt about the theorems -> exit 2, never a VIOLATION line (DESIGN 2.2)
            raise Infra("lake build of the property modules failed without a Lean error:\n" + log[-2000:])
        out["build_s"] = time.time() - t0
        return out
    hits = forbidden_hits()
    if hits:
        out["failing"] = ["forbidden construct: " + h for h in hits]
        return out
    # One audit per property module (independently written modules may declare helper lemmas of the same
    # name, so they cannot always be imported together), run in parallel.
    from concurrent.futures import ThreadPoolExecutor

    def audit_one(path):
        text = strip_comments(path.read_text())
        names = re.findall(r"^theorem\s+([A-Za-z0-9_'.]+)", text, flags=re.M)
        audit = LEAN / ".lake" / f"audit_{path.stem}.lean"
        audit.write_text(f"import SRVerif.Properties.{path.stem}\n"
                         + "".join(f"#print axioms SR.{prop}.{t}\n" for t in names))
        return run(["lake", "env", "lean", str(audit)], cwd=LEAN)

    with ThreadPoolExecutor(8) as ex:
        results = list(ex.map(audit_one, files))
    for rc, log in results:
        if rc != 0:
            if not re.search(r"\.lean:\d+:\d+", log):
                raise Infra("axiom audit could not run (no Lean error reported):\n" + log[-2000:])
            out["failing"] = ["audit: " + log[-2000:]]
            return out
        for m in re.finditer(
            r"'SR\.%s\.(\S+)' (does not depend on any axioms|depends on axioms: \[([^\]]*)\])" % prop,
            log,
        ):
            axs = [a.strip() for a in (m.group(3) or "").replace("\n", " ").split(",") if a.strip()]
            out["axioms"][m.group(1)] = axs
    bad = {t: a for t, a in out["axioms"].items() if not set(a) <= ALLOWED_AXIOMS}
    missing = [t for t in thms if t not in out["axioms"]]
    if bad or missing:
        out["failing"] = [f"axioms of {t}: {a}" for t, a in bad.items()] + [
            f"not audited: {t}" for t in missing
        ]
        return out
    if thorough:
        rc, log = run(["lake", "env", "leanchecker"] + mods, cwd=LEAN, timeout=3000)
        out["leanchecker"] = "ok" if rc == 0 else log[-2000:]
        if rc != 0:
            out["failing"] = ["leanchecker: " + log[-500:]]
            return out
    out["build_s"] = round(time.time() - t0, 2)
    if tie and tie["status"] == "broken":
        # the generated functions provably differ from the model: gen_f_eq_model is a failed obligation
        out["failing"] = list(tie["failing"])
        out["log"] = tie.get("log", "")
        return out
    out["ok"] = True
    return out


class Driver:
    """Batch interface to the compiled Lean driver."""

    def __init__(self):
        if not DRIVER.exists():
            raise Infra("driver executable missing (run MANIFEST.setup_cmd)")

    def batch(self, requests, timeout=1800):
        if not requests:
            return []
        data = "\n".join(json.dumps(r, separators=(",", ":")) for r in requests) + "\n"
        try:
            p = subprocess.run(
                [str(DRIVER)], input=data, capture_output=True, text=True, timeout=timeout
            )
        except subprocess.TimeoutExpired as e:
            raise Infra("driver timeout") from e
        lines = p.stdout.splitlines()
        if p.returncode != 0 or len(lines) != len(requests):
            raise Infra(
                f"driver failed rc={p.returncode} got {len(lines)}/{len(requests)} lines: "
                + p.stderr[-1000:]
            )
        outs = [json.loads(l) for l in lines]
        for r, o in zip(requests, outs):
            if isinstance(o, dict) and "driver_error" in o:
                raise Infra(f"driver error {o['driver_error']} on {json.dumps(r)[:500]}")
        return outs

    def parallel(self, requests, jobs=16, timeout=3000):
        """Split a big batch over several driver processes."""
        if len(requests) < 64 or jobs <= 1:
            return self.batch(requests, timeout)
        from concurrent.futures import ThreadPoolExecutor

        n = min(jobs, max(1, len(requests) // 32))
        chunks = [requests[i::n] for i in range(n)]
        with ThreadPoolExecutor(n) as ex:
            parts = list(ex.map(lambda c: self.batch(c, timeout), chunks))
        out = [None] * len(requests)
        for i, part in enumerate(parts):
            out[i::n] = part
        return out


# --------------------------------------------------------------------------
# Results, verdicts, evidence


def canon(obj):
    return json.dumps(obj, sort_keys=True, separators=(",", ":"), default=str)


class Result:
    def __init__(self):
        self.evaluations = 0
        self.nontrivial = set()
        self.samples = []
        self.dist = Counter()
        self.concrete = []  # implementation fails the specification on an input
        self.mismatch = []  # model and implementation differ (tie broken)
        self.notes = []

    def case(self, case, nontrivial=True, n=1):
        self.evaluations += n
        if nontrivial:
            self.nontrivial.add(hashlib.sha1(canon(case).encode()).hexdigest())
        if len(self.samples) < 6 and (len(self.samples) < 3 or nontrivial and random.random() < 0.01):
            self.samples.append(case)

    def violation(self, what, case, expected=None, observed=None, finding=None):
        # the cap of 50 is per attribution: violations attributed to a recorded finding must not use up the room of
        # the others (a NEW violation recorded after 50 known ones would be dropped and the run would exit 0)
        if sum(1 for v in self.concrete if v.get("finding") == finding) < 50:
            self.concrete.append(
                {"what": what, "input": case, "expected": expected, "observed": observed,
                 "finding": finding}
            )

    def tie_broken(self, relation, case, model=None, impl=None):
        if len(self.mismatch) < 50:
            self.mismatch.append(
                {"relation": relation, "input": case, "model": model, "impl": impl}
            )


class Ctx:
    def __init__(self, prop, tier, seed):
        self.prop = prop
        self.tier = tier
        self.thorough = tier == "thorough"
        self.seed = seed
        self.rng = random.Random(seed * 1000003 + int(prop[1:]))
        self.driver = Driver()
        self.deep = False
        self.t0 = time.time()

    def budget(self, quick, thorough):
        """Case counts: quick, thorough; the deep search uses the thorough one."""
        return thorough if (self.thorough or self.deep) else quick


def load_known():
    path = VERIF / "known_findings.json"
    if not path.exists():
        return []
    return json.loads(path.read_text())


def write_replay(prop, data):
    d = VERIF / "replays"
    d.mkdir(exist_ok=True)
    n = 0
    while (d / f"{prop}-{n}.json").exists():
        n += 1
    path = d / f"{prop}-{n}.json"
    path.write_text(json.dumps(data, indent=1, default=str))
    return path


def write_evidence(ctx, mod, proof, res, violations, extra=None):
    thms = proof["theorems"]
    discharged = len(thms) if proof["ok"] else len(proof["axioms"]) if proof["build_ok"] else 0
    cov = {
        "obligations": max(1, len(thms)),
        "discharged": discharged,
        "checker_cmd": proof["checker_cmd"],
        "trusted_base": BASE_TRUSTED + list(getattr(mod, "TRUSTED", [])),
        "theorems": thms,
        "axioms": proof["axioms"],
        "open_statements": list(getattr(mod, "OPEN", [])),
        "generated_from_source": proof.get("generated", []),
        "translator_tie": proof.get("translator_tie"),
        "template_extractor": proof.get("template_extractor"),
        "leanchecker": proof.get("leanchecker"),
        "evaluations": res.evaluations,
        "distinct_nontrivial": len(res.nontrivial),
        "rule": getattr(mod, "RULE", ""),
        "samples": res.samples[:6] or ["(no case generated)"],
        "distribution": dict(res.dist),
        "correspondence_mismatches": len(res.mismatch),
        "notes": res.notes[:20],
        "exhaustive": bool(getattr(res, "exhaustive", False)),
    }
    if extra:
        cov.update(extra)
    ev = {
        "property_id": ctx.prop,
        "tier": ctx.tier,
        "seed": ctx.seed,
        # a run whose proofs did not all check does not claim the proof level for itself (Review F6): what it did was
        # the exploration of the deep search; the run ends in a VIOLATION line anyway
        "level": "proof" if proof["ok"] else "exploration",
        "coverage": cov,
        "assumptions": list(getattr(mod, "ASSUMPTIONS", [])),
        "wall_s": round(time.time() - ctx.t0, 2),
        "violations": violations,
    }
    (VERIF / "evidence").mkdir(exist_ok=True)
    (VERIF / "evidence" / f"{ctx.prop}.json").write_text(json.dumps(ev, indent=1, default=str))


def main(argv):
    import argparse

    ap = argparse.ArgumentParser()
    ap.add_argument("prop")
    ap.add_argument("--tier", default=os.environ.get("VERIF_TIER", "quick"))
    ap.add_argument("--replay")
    args = ap.parse_args(argv)
    prop = args.prop.upper()
    tier = "thorough" if args.tier == "thorough" else "quick"
    seed = int(os.environ.get("VERIF_SEED", "0") or 0)
    try:
        setup_repo_path()
        mod = importlib.import_module(f"harness.checks.{prop.lower()}")
        if args.replay:
            data = json.loads(Path(args.replay).read_text())
        if args.replay and data.get("kind") == "no-failing-input-found":
            # no input to replay: what failed was a proof obligation or the correspondence -> run the check again
            print(f"replay of a 'no-failing-input-found' record ({data.get('broken_theorems_or_build')}): "
                  "running the whole check again")
            args.replay = None
        if args.replay:
            ctx = Ctx(prop, tier, seed)
            ok, msg = mod.replay(ctx, data)
            print(msg)
            return 0 if ok else 1
        proof = lean_build(prop, thorough=(tier == "thorough"))
        ctx = Ctx(prop, tier, seed)
        # translator tie unavailable (not refuted): no alarm, but the hand-model correspondence that now
        # carries the whole tie runs with the thorough budget
        ctx.deep = proof.get("tie_status") == "unavailable"
        res = Result()
        if hasattr(mod, "corpus"):
            mod.corpus(ctx, res)
        mod.run(ctx, res)
        return verdict(ctx, mod, proof, res)
    except Infra as e:
        print(f"INFRA-ERROR property={prop}: {e}", file=sys.stderr)
        return 2
    except Exception as e:  # a crash of the machinery is never a verdict: exit 2, no VIOLATION line
        import traceback

        traceback.print_exc()
        print(f"INFRA-ERROR property={prop}: check crashed: {type(e).__name__}: {str(e)[:300]}", file=sys.stderr)
        return 2


def split_known(prop, concrete):
    known = [k for k in load_known() if k.get("status") == "known" and prop in k.get("properties", [])]
    new, old = [], []
    for v in concrete:
        fid = v.get("finding")
        if fid and any(k["id"] == fid for k in known):
            old.append(v)
        else:
            new.append(v)
    return old, new


def verdict(ctx, mod, proof, res):
    prop = ctx.prop
    old, new = split_known(prop, res.concrete)
    seen = set()
    for v in old:
        if v["finding"] not in seen:
            seen.add(v["finding"])
            print(f"KNOWN-FINDING: property={prop} {v['finding']}: {v['what']}")
    if new:
        v = new[0]
        if hasattr(mod, "shrink"):
            try:
                v = mod.shrink(ctx, v) or v
            except Exception as e:  # shrinking is best effort
                res.notes.append(f"shrink failed: {e}")
        path = write_replay(prop, {"property": prop, "kind": "concrete", **v,
                                   "others": len(new) - 1})
        write_evidence(ctx, mod, proof, res, len(new))
        print(f"VIOLATION property={prop} replay={path}")
        return 1
    if proof["ok"] and not res.mismatch:
        write_evidence(ctx, mod, proof, res, 0)
        print(
            f"OK property={prop} tier={ctx.tier} seed={ctx.seed} theorems={len(proof['theorems'])} "
            f"cases={res.evaluations} nontrivial={len(res.nontrivial)} wall={time.time()-ctx.t0:.1f}s"
            + (f" translator_tie={str(proof['translator_tie']).split(' ')[0].rstrip(':')}" if proof.get("translator_tie") else "")
            + (" template_extractor=unavailable" if str(proof.get("template_extractor", "")).startswith("unavailable") else "")
        )
        return 0
    # Proof obligation or correspondence broken: search for a failing input.
    ctx.deep = True
    res2 = Result()
    mod.run(ctx, res2)
    res.evaluations += res2.evaluations
    res.nontrivial |= res2.nontrivial
    old2, new2 = split_known(prop, res2.concrete)
    if new2:
        v = new2[0]
        path = write_replay(prop, {"property": prop, "kind": "concrete", **v})
        write_evidence(ctx, mod, proof, res, len(new2))
        print(f"VIOLATION property={prop} replay={path}")
        return 1
    broken = {
        "property": prop,
        "kind": "no-failing-input-found",
        "broken_theorems_or_build": proof["failing"],
        "translator_tie": proof.get("translator_tie"),
        "build_log_tail": proof["log"][-3000:] if not proof["ok"] else "",
        "broken_correspondence": (res.mismatch + res2.mismatch)[:5],
        "searched_cases": res.evaluations,
    }
    path = write_replay(prop, broken)
    write_evidence(ctx, mod, proof, res, 1)
    print(f"VIOLATION property={prop} replay={path} no-failing-input-found")
    return 1
