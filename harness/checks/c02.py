"""C02 — Ordered super-reconciliation returns a minimum-cost labelled reconciliation."""
from .. import solvers
from ._solver_check import make
from . import c02_code

ID = "C02"
RULE = (
    "binary inputs with ordered leaf syntenies (every family subset per leaf, mutually consistent or inconsistent "
    "orders, optional prescribed root order), up to 4 object leaves x 4 species leaves x 3-4 families, cost vectors "
    "inside spe + 2*sloss <= dup + 2*floss with sloss = 0, the boundary and an infinite transfer cost over-sampled; "
    "sreconcile_extended_spfs / sreconcile_base_spfs under both policies vs the Lean model (same solution set) and "
    "the Lean specification (validity; cost = minimum over all species mappings, root orders and labellings — for "
    "the base solver over solutions using the LCA mapping; empty result iff no compatible order).  "
    "Non-trivial = at least 3 object leaves and 2 species."
)
TRUSTED = [
    "models: lean/SRVerif/Model/{Rec,LabelDP,Solvers,Subseq}.lean; specification: lean/SRVerif/Spec/Opt.lean",
    "root orders are modelled by their specification (permutations having every leaf synteny as a subsequence); "
    "that toposort_all(_make_prec_graph) enumerates exactly those is C19",
]
ASSUMPTIONS = ["coherent cost vectors; leaf syntenies non-empty with distinct families; prescribed root order is a common supersequence"]
OPEN = []  # prescribed root orders (incl. strict supersequences) end to end: Properties/C02Pre.lean

CORPUS = [
    # fixed: F-SPFS-SLOSS0
    {"S": [[[], []], []], "O": [{"s": "1", "f": [1, 3]}, [{"s": "00", "f": [1]}, {"s": "01", "f": [0, 1, 2, 3]}]],
     "costs": {"spe": 0, "dup": 1, "hgt": 0, "floss": 1, "sloss": 0}},
    # inconsistent orders: no root order
    {"S": [[], []], "O": [{"s": "0", "f": [0, 1]}, {"s": "1", "f": [1, 0]}]},
    # single node
    {"S": [], "O": {"s": "", "f": [0, 1]}},
]

_corpus, _run, shrink, replay = make(
    ID, ["ext_spfs", "base_spfs"],
    [(lambda ctx, rng: solvers.ordered_case(ctx, rng, 4, 4, 3), 0.8),
     (lambda ctx, rng: solvers.ordered_case(ctx, rng, 3, 3, 4), 0.2)],
    lambda res, r: solvers.judge_optimal(res, r, ID),
    quick=1200, thorough=6000, corpus_cases=CORPUS, known_algos=["ext_spfs"],
)

TRUSTED = TRUSTED + c02_code.TRUSTED


def corpus(ctx, res):
    _corpus(ctx, res)
    c02_code.corpus_code(ctx, res, CORPUS)


def run(ctx, res):
    _run(ctx, res)
    # code-structured model (Model/SpfsCode.lean, proved to refine `spfs`): orderings tried, table entries,
    # values and tags of the real _compute_spfs_table vs the model
    c02_code.run_code(ctx, res)
