"""C02 — Ordered super-reconciliation returns a minimum-cost labelled reconciliation."""
from .. import solvers
from ._solver_check import make
from . import c02_code

ID = "C02"
RULE = (
    "binary inputs with ordered leaf syntenies (every family subset per leaf, mutually consistent or inconsistent "
    "orders, optional prescribed root order), up to 5 object leaves x 4 species leaves x 4 families, cost vectors "
    "inside spe + 2*sloss <= dup + 2*floss with sloss = 0, the boundary and an infinite transfer cost over-sampled; "
    "sreconcile_extended_spfs / sreconcile_base_spfs under both policies vs the Lean model (same solution set) and "
    "the Lean specification (validity; cost = minimum over all species mappings, root orders and labellings — for "
    "the base solver over solutions using the LCA mapping; empty result iff no compatible order).  Thorough: "
    "additionally EVERY input up to 3 object leaves x 3 species leaves x 2 families and up to 2 object leaves x 2 "
    "species leaves x 3 families (every leaf assignment, every arrangement of every family subset per leaf) on three "
    "cost vectors.  "
    "Non-trivial = at least 3 object leaves and 2 species."
)
TRUSTED = [
    "models: lean/SRVerif/Model/{Rec,LabelDP,Solvers,Subseq}.lean; specification: lean/SRVerif/Spec/Opt.lean",
    "root orders are modelled by their specification (permutations having every leaf synteny as a subsequence); "
    "that toposort_all(_make_prec_graph) enumerates exactly those is C19",
]
ASSUMPTIONS = ["coherent cost vectors; leaf syntenies non-empty with distinct families; prescribed root order is a common supersequence"]
OPEN = []  # prescribed root orders (incl. strict supersequences) end to end: Properties/C02Pre.lean

CORPUS = [
    # fixed: F-SPFS-SLOSS0
    {"S": [[[], []], []], "O": [{"s": "1", "f": [1, 3]}, [{"s": "00", "f": [1]}, {"s": "01", "f": [0, 1, 2, 3]}]],
     "costs": {"spe": 0, "dup": 1, "hgt": 0, "floss": 1, "sloss": 0}},
    # inconsistent orders: no root order
    {"S": [[], []], "O": [{"s": "0", "f": [0, 1]}, {"s": "1", "f": [1, 0]}]},
    # single node
    {"S": [], "O": {"s": "", "f": [0, 1]}},
]

EXH_COSTS = [
    {"spe": 0, "dup": 1, "hgt": 1, "floss": 1, "sloss": 1},
    {"spe": 2, "dup": 0, "hgt": 0, "floss": 1, "sloss": 0},      # boundary of the coherent region, sloss = 0
    {"spe": 1, "dup": 1, "hgt": "inf", "floss": 0, "sloss": 0},  # boundary, no transfer, free losses (many ties)
]


def _exhaustive():
    from .. import gen

    for scope in ((3, 3, 2), (2, 2, 3)):
        for base in gen.exhaustive_labelled_cases(*scope, ordered=True):
            if scope == (2, 2, 3) and max(len(l["f"]) for _, l in solvers._leaves(base["O"])) < 3:
                continue  # already inside the first scope up to renaming of families
            for g in EXH_COSTS:
                yield {**base, "costs": dict(g)}


_corpus, _run, shrink, replay = make(
    ID, ["ext_spfs", "base_spfs"],
    [(lambda ctx, rng: solvers.ordered_case(ctx, rng, 4, 4, 3), 0.6),
     (lambda ctx, rng: solvers.ordered_case(ctx, rng, 3, 3, 4), 0.15),
     # the upper end of the quantifier's scope: 5 object leaves, 4 species leaves, 4 families
     (lambda ctx, rng: solvers.ordered_case(ctx, rng, 5, 4, 4), 0.25)],
    lambda res, r: solvers.judge_optimal(res, r, ID),
    quick=1200, thorough=6000, corpus_cases=CORPUS, known_algos=["ext_spfs"], exhaustive=_exhaustive,
)

TRUSTED = TRUSTED + c02_code.TRUSTED


def corpus(ctx, res):
    _corpus(ctx, res)
    c02_code.corpus_code(ctx, res, CORPUS)


def run(ctx, res):
    _run(ctx, res)
    # code-structured model (Model/SpfsCode.lean, proved to refine `spfs`): orderings tried, table entries,
    # values and tags of the real _compute_spfs_table vs the model
    c02_code.run_code(ctx, res)
