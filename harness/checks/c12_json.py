"""C12 (JSON text tie) — lean/SRVerif/Model/Json.lean against CPython's json package.

Use from c12.py:   from . import c12_json   …   c12_json.run_json(ctx, res)   next to c12_bridge.run_bridge(ctx, res);
                   c12.replay dispatches the cases carrying a "json" key to c12_json.replay_json(ctx, data).

Streams (driver ops of lean/SRVerif/Driver/C12Json.lean: c12j_render, c12j_parse, c12j_dict):
  * real dictionaries   the case sources of the bridge tie (c12_bridge.solver_case / make_naming / run_real: the seven
                        REAL solvers x any/all under the harness naming or random safe names) give results x;
                        d = x.to_dict() (NOT passed through json first: infinite costs are float('inf')).  On the real
                        code alone: json.dumps(d) has no line break and json.loads(json.dumps(d)) == d (what the
                        hypothesis removed by Properties/C12Json.lean said — a failure is a VIOLATION of C12: the
                        written line would not read back).  Tie: render(d) == json.dumps(d) byte for byte; parse agrees
                        with json.loads on it and on its variants; c12j_dict (dictOfJ, then dictToJ, then render —
                        the glue used by the theorems) returns json.dumps(d) again, up to the order in which
                        to_dict() builds the keys of the two fixed-key objects (counted, a note: a JSON object is
                        unordered and the property does not speak about key order).
  * random values       nested lists / dicts (depth <= 4, empty containers, empty strings and keys) over an
                        adversarial string alphabet (quote, backslash, slash, the seven short escapes, other control
                        characters, DEL, U+0080, Latin-1, U+2028, U+D7FF, U+E000, U+FFFF, U+10000, U+10FFFF, letters that
                        spell the literals: n u l t r e f a s I i y), integers 0, -1, 9, 10, +-10^k, +-2^k (to 2^200),
                        float('inf'), -float('inf'), None, True, False.  Same three comparisons.
  * variants            every text is also parsed as json.dumps(v, indent=2), indent="\t", separators=(",", ":"),
                        ensure_ascii=False (raw non-ASCII characters), and with random whitespace [ \t\n\r]* inserted
                        around it: json.loads accepts all of them and the model's parse must return the same value
                        (both with the pairs kept, object_pairs_hook, = parseRaw, and as dicts = parse).
  * duplicate keys      objects with a repeated key cannot come from a Python dict; their text is written by the
                        MODEL's render and read by json.loads (first position, last value — JVal.norm) and with
                        object_pairs_hook: compared too.
  * mutated texts       one random deletion / insertion / replacement of a character of a rendered text: whether both
                        sides accept, and the value when both do, are compared (a tie as well) unless Python's answer
                        is outside the model (a number literal with a fraction or an exponent — a float for Python, even
                        when it overflows to inf —, NaN, a lone surrogate): counted only.
Outside the model, counted in the distribution only: floats other than +-inf and NaN in a value (json.dumps writes
them; the model has no such value), strings with lone surrogates, non-string keys (json.dumps coerces them).
"""
import json
import math

from harness import sr
from harness.checks import c12_bridge

RULE_JSON = __doc__.split("Streams", 1)[1]
TRUSTED_JSON = [
    "model: lean/SRVerif/Model/Json.lean (render = json.dumps with default options, parseRaw = json.loads keeping "
    "the pairs of every object, parse = json.loads; dictToJ / dictOfJ between JSON values and the dictionary "
    "structure of Model/Serialize.lean)",
    "CPython's json package is the reference (C accelerator when present: json.loads / json.dumps as the tool calls "
    "them); the transport encoding of values to the driver uses code-point lists, not JSON strings",
]

ALPHABET = ['"', "\\", "/", "\n", "\r", "\t", "\b", "\f", "\x00", "\x01", "\x1f", " ", "~", "\x7f", "\x80", "\xe9",
            "\u2028", "\ud7ff", "\ue000", "\uffff", "\U00010000", "\U0001f600", "\U0010ffff", "a", "Z", "0", "_",
            "n", "u", "l", "t", "r", "e", "f", "s", "I", "i", "y", "N", ":", ",", "[", "]", "{", "}", "-", "."]
SAFE = "abcXYZ019_"


class Pairs(list):
    """An object read with object_pairs_hook: the (key, value) pairs in order."""


def enc(v):
    """Transport encoding of a Python value (Pairs = an object given by its pairs)."""
    if v is None or isinstance(v, bool):
        return v
    if isinstance(v, int):
        return {"i": str(v)}
    if isinstance(v, float):
        if v == math.inf:
            return {"f": "inf"}
        if v == -math.inf:
            return {"f": "-inf"}
        raise ValueError("float outside the model")
    if isinstance(v, str):
        return {"s": [ord(c) for c in v]}
    if isinstance(v, Pairs):
        return {"o": [[[ord(c) for c in k], enc(x)] for k, x in v]}
    if isinstance(v, (list, tuple)):
        return {"a": [enc(x) for x in v]}
    if isinstance(v, dict):
        return {"o": [[[ord(c) for c in k], enc(x)] for k, x in v.items()]}
    raise ValueError(f"value outside the model: {type(v).__name__}")


def outside(v):
    """Why a Python value is outside the model (None: inside)."""
    if v is None or isinstance(v, (bool, int)):
        return None
    if isinstance(v, float):
        return None if math.isinf(v) else ("NaN" if math.isnan(v) else "finite float")
    if isinstance(v, str):
        return "lone surrogate" if any(0xD800 <= ord(c) <= 0xDFFF for c in v) else None
    if isinstance(v, Pairs):
        for k, x in v:
            r = outside(k) or outside(x)
            if r:
                return r
        return None
    if isinstance(v, (list, tuple)):
        for x in v:
            r = outside(x)
            if r:
                return r
        return None
    if isinstance(v, dict):
        for k, x in v.items():
            if not isinstance(k, str):
                return "non-string key"
            r = outside(k) or outside(x)
            if r:
                return r
        return None
    return type(v).__name__


def rand_str(rng):
    r = rng.random()
    if r < 0.12:
        return ""
    if r < 0.35:
        return "".join(rng.choice(SAFE) for _ in range(rng.randint(1, 6)))
    return "".join(rng.choice(ALPHABET) for _ in range(rng.randint(1, 7)))


def rand_int(rng):
    r = rng.random()
    if r < 0.3:
        return rng.choice([0, 1, -1, 9, 10, -10, 99, 100, 101, -100])
    if r < 0.6:
        return rng.choice([1, -1]) * 10 ** rng.randint(0, 40) + rng.choice([0, 0, 1, -1])
    if r < 0.8:
        return rng.choice([1, -1]) * 2 ** rng.randint(0, 200) + rng.choice([0, 1, -1])
    return rng.randint(-10 ** 6, 10 ** 6)


def rand_value(rng, depth=0):
    r = rng.random()
    if depth >= 4 or r < 0.45:
        k = rng.random()
        if k < 0.35:
            return rand_str(rng)
        if k < 0.65:
            return rand_int(rng)
        return rng.choice([None, True, False, math.inf, math.inf, -math.inf])
    n = rng.choice([0, 0, 1, 1, 2, 3, 4])
    if r < 0.72:
        return [rand_value(rng, depth + 1) for _ in range(n)]
    return {rand_str(rng): rand_value(rng, depth + 1) for _ in range(n)}


def rand_pairs_value(rng, depth=0):
    """Like rand_value, with objects given by pairs and keys drawn from a tiny pool: repeated keys at any depth."""
    r = rng.random()
    if depth >= 3 or r < 0.3:
        return rng.choice([None, True, 0, -7, "", "a", math.inf])
    n = rng.choice([0, 1, 2, 3, 4, 5])
    if r < 0.5:
        return [rand_pairs_value(rng, depth + 1) for _ in range(n)]
    return Pairs((rng.choice(["a", "b", "", "\xe9"]), rand_pairs_value(rng, depth + 1)) for _ in range(n))


def with_noise(rng, text):
    ws = lambda: "".join(rng.choice(" \t\n\r") for _ in range(rng.randint(0, 3)))  # noqa
    return ws() + text + ws()


def variants(rng, v, plain):
    """Texts that json.loads reads as v (label, text)."""
    out = [("dumps", plain),
           ("indent=2", json.dumps(v, indent=2)),
           ("indent=tab", json.dumps(v, indent="\t")),
           ("compact", json.dumps(v, separators=(",", ":"))),
           ("ensure_ascii=False", json.dumps(v, ensure_ascii=False)),
           ("outer whitespace", with_noise(rng, plain))]
    return out


def loads_both(text):
    """(json.loads with the pairs kept, json.loads, number of float literals and NaNs met) or the exception class
    name.  A literal with a fraction or an exponent is a float for Python whatever its value (1e999 reads as inf):
    such texts are outside the model."""
    floats = []

    def pf(s):
        floats.append(s)
        return float(s)

    def pc(s):
        if s == "NaN":
            floats.append(s)
        return {"NaN": math.nan, "Infinity": math.inf, "-Infinity": -math.inf}[s]

    try:
        raw = json.loads(text, object_pairs_hook=Pairs, parse_float=pf, parse_constant=pc)
        val = json.loads(text)
    except RecursionError:
        raise
    except Exception as e:  # noqa   json.JSONDecodeError (a ValueError)
        return type(e).__name__
    return raw, val, len(floats)


def parse_req(text):
    return {"op": "c12j_parse", "text": [ord(c) for c in text]}


def judge_parse(res, rec, label, text, py, model, tied=True):
    """One text: Python's answer `py` (loads_both) against the model's."""
    if isinstance(py, str):
        if model is None:
            res.dist[f"json parse/{label}: both reject"] += 1
        elif tied:
            res.tie_broken(f"json.loads rejects a text ({py}) that the model's parse accepts [{label}]",
                           {**rec, "text": text, "label": label}, model=model, impl=py)
        return
    raw, val, nfloat = py
    why = "float literal or NaN" if nfloat else outside(raw)
    if why and label != "mutated text":
        # the text was written from a value of the model: json.loads must not leave the model on it
        res.tie_broken(f"json.loads reads a value outside the model ({why}) from a text written for a value of the "
                       f"model [{label}]", {**rec, "text": text, "label": label}, model=model, impl=repr(val)[:300])
        return
    if why:
        res.dist[f"json parse/{label}: outside the model ({why})"] += 1
        return
    if model is None:
        res.tie_broken(f"the model's parse rejects a text that json.loads accepts [{label}]",
                       {**rec, "text": text, "label": label}, model=None, impl=enc(val))
        return
    if model["raw"] != enc(raw):
        res.tie_broken(f"parseRaw differs from json.loads(object_pairs_hook) [{label}]", {**rec, "text": text, "label": label},
                       model=model["raw"], impl=enc(raw))
    elif model["val"] != enc(val):
        res.tie_broken(f"parse differs from json.loads [{label}]", {**rec, "text": text, "label": label},
                       model=model["val"], impl=enc(val))
    else:
        res.dist[f"json parse/{label}: agree"] += 1


def mutate_text(rng, text):
    if not text:
        return rng.choice(ALPHABET)
    i = rng.randrange(len(text))
    k = rng.random()
    pool = ALPHABET + list('0123456789abcdefABCDEFuU+eE. \n"\\[]{},:-')
    if k < 0.4:
        return text[:i] + text[i + 1:]
    if k < 0.7:
        return text[:i] + rng.choice(pool) + text[i:]
    return text[:i] + rng.choice(pool) + text[i + 1:]


def real_dicts(ctx, rng, n):
    """to_dict() of real solver results (float('inf') costs kept), with the record that regenerates them."""
    out = []
    for _ in range(n):
        algo = rng.choice(c12_bridge.ALGOS)
        policy = "all" if algo == "lca" else rng.choice(["all", "any"])
        case = c12_bridge.solver_case(ctx, rng, algo)
        case = {"S": case["S"], "O": case["O"], "costs": c12_bridge.solvers.full_costs(case),
                **({"root": case["root"]} if case.get("root") is not None else {})}
        with_syn = sr.has_syntenies(case) and not (c12_bridge.KIND[algo] == "plain" and rng.random() < 0.4)
        if c12_bridge.KIND[algo] != "plain" and not with_syn:
            continue
        naming = c12_bridge.make_naming(rng, case, rng.random() < 0.33)
        rec = {"json": "real", "case": case, "algo": algo, "policy": policy, "with_syn": with_syn, "naming": naming}
        out.append(rec)
    return out


def dicts_of(rec):
    _, outs = c12_bridge.run_real(rec["case"], rec["algo"], rec["policy"], rec["naming"], rec["with_syn"])
    if isinstance(outs, str):
        return []
    return [x.to_dict() for x in outs[:3]]


INPUT_KEYS = ["object_tree", "species_tree", "leaf_object_species", "costs", "leaf_syntenies"]
OUTPUT_KEYS = ["input", "object_species", "syntenies", "ordered"]


def model_key_order(d):
    """The real dictionary with the keys that dictToJ knows in dictToJ's order (the order of the pinned to_dict());
    the mappings keep their own order (dictOfJ keeps it); any other key is kept, at the end (dictOfJ drops it, so the
    comparison still fails on it)."""
    def reorder(m, keys):
        return {**{k: m[k] for k in keys if k in m}, **{k: x for k, x in m.items() if k not in keys}}

    if not isinstance(d, dict):
        return d
    out = reorder(d, OUTPUT_KEYS)
    if isinstance(out.get("input"), dict):
        out["input"] = reorder(out["input"], INPUT_KEYS)
    return out


def check_values(ctx, res, items, rng):
    """items: (record, value, is_real_dictionary).  Builds the requests, runs the driver, judges."""
    reqs, plan = [], []
    for rec, v, real in items:
        why = outside(v)
        if why:
            res.dist[f"json value outside the model ({why})"] += 1
            continue
        plain = json.dumps(v)
        reqs.append({"op": "c12j_render", "v": enc(v)})
        plan.append(("render", rec, v, plain))
        for label, text in variants(rng, v, plain):
            reqs.append(parse_req(text))
            plan.append(("parse", rec, label, text))
        if real:
            reqs.append({"op": "c12j_dict", "v": enc(v)})
            plan.append(("dict", rec, v, plain))
        if rng.random() < 0.5:
            text = mutate_text(rng, rng.choice([plain, json.dumps(v, indent=1), json.dumps(v, ensure_ascii=False)]))
            reqs.append(parse_req(text))
            plan.append(("mutated", rec, "mutated text", text))
    outs = ctx.driver.parallel(reqs)
    for p, out in zip(plan, outs):
        if p[0] == "render":
            _, rec, v, plain = p
            if out != plain:
                res.tie_broken("render differs from json.dumps (byte for byte)", rec, model=out, impl=plain)
            else:
                res.dist["json render: equal to json.dumps"] += 1
        elif p[0] == "dict":
            _, rec, v, plain = p
            canon = json.dumps(model_key_order(v))
            if out == plain:
                res.dist["json dictOfJ/dictToJ: real dictionary reproduced"] += 1
            elif out == canon:
                # same dictionary, the keys of `to_dict()` come in another order than dictToJ writes them: a JSON
                # object is unordered, from_dict looks its keys up by name, the property does not speak about key order
                res.dist["json dictOfJ/dictToJ: real dictionary reproduced up to the order of the to_dict() keys"] += 1
                c12_bridge.note_once(res, "to_dict() builds its keys in another order than the model's dictToJ "
                                          "(Model/Json.lean follows the pinned source): the written TEXT of the "
                                          "theorems is the code's text up to the order of the keys of an object; "
                                          "compared as dictionaries, not an alarm")
            else:
                res.tie_broken("render(dictToJ(dictOfJ(d))) differs from json.dumps(d) on a real to_dict() (compared "
                               "up to the order of the to_dict() keys)", rec, model=out, impl=canon)
        else:
            _, rec, label, text = p
            judge_parse(res, rec, label, text, loads_both(text), out)


def run_json(ctx, res):
    rng = ctx.rng
    items = []
    # real dictionaries
    for rec in real_dicts(ctx, rng, ctx.budget(25, 250)):
        ds = dicts_of(rec)
        for k, d in enumerate(ds):
            r = {**rec, "index": k}
            res.case({k2: v for k2, v in r.items() if k2 != "naming"}, nontrivial=True)
            res.dist["json/real to_dict()" + ("/infinite cost" if math.inf in d["input"]["costs"].values() else "")] += 1
            try:
                text = json.dumps(d)
                back = json.loads(text)
            except Exception as e:  # noqa
                res.violation(f"a written dictionary cannot pass through json ({type(e).__name__}: {e})", r)
                continue
            if "\n" in text or "\r" in text:
                res.violation("json.dumps(to_dict()) contains a line break: the output is not one object per line", r,
                              observed=text)
                continue
            if back != d:
                res.violation("json.loads(json.dumps(to_dict())) differs from to_dict(): the written line does not "
                              "read back as the dictionary that was written", r, expected=repr(d), observed=repr(back))
                continue
            items.append((r, d, True))
    # random values
    for _ in range(ctx.budget(250, 4000)):
        v = rand_value(rng)
        rec = {"json": "value", "value": None}
        try:
            rec["value"] = enc(v)
        except ValueError:
            pass
        leaves = json.dumps(v)
        res.case(rec, nontrivial=len(leaves) > 8)
        res.dist["json/random value/" + type(v).__name__] += 1
        items.append((rec, v, False))
    check_values(ctx, res, items, rng)
    # duplicate keys: text written by the model, read by both
    pvals = [rand_pairs_value(rng) for _ in range(ctx.budget(60, 800))]
    texts = ctx.driver.parallel([{"op": "c12j_render", "v": enc(v)} for v in pvals])
    outs = ctx.driver.parallel([parse_req(t) for t in texts])
    for v, t, out in zip(pvals, texts, outs):
        rec = {"json": "pairs", "value": enc(v)}
        res.case(rec, nontrivial=True)
        res.dist["json/value given by pairs (repeated keys possible)"] += 1
        judge_parse(res, rec, "model-rendered pairs", t, loads_both(t), out)


def replay_json(ctx, data):
    """Replays a recorded JSON case on the current code: (ok, message)."""
    from harness.common import Result

    rec = data["input"]
    res = Result()
    if rec.get("json") == "real":
        ds = dicts_of(rec)
        k = rec.get("index", 0)
        if k >= len(ds):
            return True, "ok: the result is no longer produced"
        d = ds[k]
        text = json.dumps(d)
        if "\n" in text or json.loads(text) != d:
            return False, "still fails: the written line does not read back as the dictionary written"
        check_values(ctx, res, [(rec, d, True)], ctx.rng)
    elif "text" in rec:
        out = ctx.driver.batch([parse_req(rec["text"])])[0]
        judge_parse(res, rec, rec.get("label", "mutated text"), rec["text"], loads_both(rec["text"]), out)
    else:
        return True, "ok: nothing to replay (the value is regenerated from the seed)"
    if res.concrete:
        return False, "still fails: " + res.concrete[0]["what"]
    if res.mismatch:
        return False, "tie still broken: " + res.mismatch[0]["relation"]
    return True, "ok: the model's render / parse agree with json.dumps / json.loads"
