"""C02 (deep tie) — the code-structured Lean model of the ordered solvers
(`lean/SRVerif/Model/SpfsCode.lean`, driver op `c02_spfscode`) against the real
`_compute_spfs_table` / `_spfs` (`sreconcile_extended_spfs`, `sreconcile_base_spfs`).

The real `_compute_spfs_table` is observed by wrapping the module attribute while the real public
function runs (so the real `allowed_species` / `allowed_syntenies` closures and the real root orderings
are the ones used); nothing in /repo is edited.

Compared per (case, solver), under the policy ALL:
  * the set of root orderings tried;
  * for every root ordering, the set of INSTANTIATED table entries keyed by
    (pre-order index of the object node, species path, synteny mask);
  * the value of every entry;
  * the tags of every entry as a set of ((left species, left mask), (right species, right mask));
  * the result: cost and set of solutions.
Under the policy ANY (which optimal tag is kept depends on traversal and set iteration order, which the
model fixes but does not claim): same root orderings, same instantiated entries with the same values, at most
one tag per entry and it is one of the ALL tags, one returned solution and it is a member of the model's ALL
result.  Any difference is `res.tie_broken`.

The model is proved (Properties/C02Code.lean) to return, under ALL, the same set of solutions as the model
`spfs` of Model/Solvers.lean: root orderings = `rootOrders`, cell by cell the same values as
`dpTable (ordAlg c)`, decoded sets = `sols`.

Call from harness/checks/c02.py:   `c02_code.run_code(ctx, res)`   (and `c02_code.corpus_code(ctx, res, CORPUS)`).
"""
import contextlib
import io

from .. import solvers
from ..solvers import keys, lean_case
from ..sr import algorithms, build_input, canon_solution, enc_cost, index_tree

ALGOS = ("ext_spfs", "base_spfs")

TRUSTED = [
    "code-structured model of sreconcile_{extended,base}_spfs: lean/SRVerif/Model/SpfsCode.lean (table = "
    "(object node, species, mask) -> Entry with ChildrenAssignment tags, role entries, combine calls, decoding by "
    "tags, root orderings = toposort_all(_make_prec_graph); proved to refine to the labelDP model `spfs`)",
]


def _fidx(name):
    return "abcdefghijklmnopqrstuvwxyz".index(name) if len(name) == 1 else int(name[1:])


def real_tables(case, algo, policy):
    """Run the real solver with `_compute_spfs_table` wrapped.  Returns
    ({root ordering (tuple of family ids): {(object pre-order index, species path, mask): (value, sorted tags)}},
     cost, canonical solutions)."""
    import superrec2.compute.super_reconciliation as mod
    from superrec2.utils.dynamic_programming import RetentionPolicy

    pol = getattr(RetentionPolicy, policy.upper())
    inp = build_input(case)
    sfwd, _ = index_tree(inp.species_lca.tree)
    seen = []
    orig = mod._compute_spfs_table

    def wrapper(srec_input, root_ordering, *args, **kw):
        table = orig(srec_input, root_ordering, *args, **kw)
        # dump at once: decoding later adds `None` placeholders through `EntryProxy._get_real`
        cells = {}
        raw = table._table
        for i, node in enumerate(srec_input.object_tree.traverse("preorder")):
            row = raw.get(node)
            if row is None:
                continue
            for species, sub in list(row.items()):
                for mask, entry in list(sub.items()):
                    if entry is None:
                        continue
                    tags = sorted(
                        [[sfwd[t.left.species], t.left.synteny], [sfwd[t.right.species], t.right.synteny]]
                        for t in entry.infos()
                    )
                    cells[(i, sfwd[species], mask)] = (enc_cost(entry.value()), tags)
        seen.append((tuple(_fidx(f) for f in root_ordering), cells))
        return table

    mod._compute_spfs_table = wrapper
    try:
        with contextlib.redirect_stderr(io.StringIO()):
            outs = list(algorithms()[algo](inp, pol))
    finally:
        mod._compute_spfs_table = orig
    costs = sorted({enc_cost(o.cost()) for o in outs}, key=str)
    sols = [canon_solution(o) for o in outs]
    tables = {}
    dup = False
    for order, cells in seen:
        dup = dup or order in tables
        tables[order] = cells
    return tables, dup, (costs[0] if len(costs) == 1 else (None if not costs else costs)), sols


def model_tables(out):
    return {
        tuple(t["order"]): {(c[0], c[1], c[2]): (c[3], sorted(c[4])) for c in t["cells"]}
        for t in out["tables"]
    }


def compare(res, case, algo, m_all, m_any):
    """Compare one (case, solver); returns True when everything agrees."""
    ok = True
    tag = f"{algo} code model"
    info = {"case": case, "algo": algo}
    try:
        tables, dup, cost, sols = real_tables(case, algo, "all")
    except Exception as e:  # noqa
        if m_all.get("err") != type(e).__name__:
            res.tie_broken(f"{tag}: implementation raises {type(e).__name__}, model returns", info,
                           m_all.get("err", m_all.get("cost")), str(e)[:200])
            return False
        return True
    if "err" in m_all:
        res.tie_broken(f"{tag}: model raises {m_all['err']}, implementation returns", info, m_all["err"], cost)
        return False
    mt = model_tables(m_all)
    if dup or len(m_all["tables"]) != len(mt):
        res.tie_broken(f"{tag}: a root ordering is tried twice", info)
        ok = False
    if set(tables) != set(mt):
        res.tie_broken(f"{tag}: set of root orderings tried", info, sorted(mt)[:6], sorted(tables)[:6])
        return False
    for order in sorted(tables):
        cells, mc = tables[order], mt[order]
        # `_spfs` reads the row of the root object at the COMPLETE mask only (`subseq_complete(root_ordering)`):
        # other entries of that row cannot reach any result, and whether they are filled is the implementation's
        # business (the code itself fills them on multifurcating inputs, where `obj == srec_input.object_tree`
        # is false for the re-parsed root; with a prescribed strict supersequence they would be instantiated).
        full = (1 << len(order)) - 1
        extra = [k for k in cells if k[0] == 0 and k[2] != full and k not in mc]
        if extra:
            res.dist[f"{algo}_code: unread root-row entries ignored"] += len(extra)
            cells = {k: v for k, v in cells.items() if k not in extra}
        if set(cells) != set(mc):
            res.tie_broken(f"{tag}: set of instantiated table entries (ALL), root ordering {list(order)}", info,
                           sorted(set(mc) - set(cells))[:3], sorted(set(cells) - set(mc))[:3])
            ok = False
            break
        bad_v = [k for k in sorted(cells) if cells[k][0] != mc[k][0]]
        bad_t = [k for k in sorted(cells) if cells[k][1] != mc[k][1]]
        if bad_v:
            k = bad_v[0]
            res.tie_broken(f"{tag}: table value at (object node, species, mask) = {k}, root ordering {list(order)}",
                           info, mc[k][0], cells[k][0])
            ok = False
            break
        if bad_t:
            k = bad_t[0]
            res.tie_broken(f"{tag}: table tags at (object node, species, mask) = {k}, root ordering {list(order)}",
                           info, mc[k][1], cells[k][1])
            ok = False
            break
    if cost != m_all["cost"] or keys(sols) != keys(m_all["sols"]):
        res.tie_broken(f"{tag}: (cost, set of solutions) under 'all'", info,
                       {"cost": m_all["cost"], "n": len(m_all["sols"])}, {"cost": cost, "n": len(sols)})
        ok = False
    # ANY: values equal, at most one tag and it is an ALL tag, one solution among the ALL result
    try:
        atables, _, acost, asols = real_tables(case, algo, "any")
    except Exception as e:  # noqa
        res.tie_broken(f"{tag}: implementation (any) raises {type(e).__name__}", info, None, str(e)[:200])
        return False
    ma = model_tables(m_any)
    vals = lambda ts: {o: {k: v[0] for k, v in cs.items()} for o, cs in ts.items()}  # noqa
    def _read(ts):  # drop root-row entries `_spfs` never reads and the model does not have (see above)
        return {o: {k: v for k, v in cs.items()
                    if not (k[0] == 0 and k[2] != (1 << len(o)) - 1 and k not in mt.get(o, {}))}
                for o, cs in ts.items()}
    atables = _read(atables)
    if vals(atables) != vals(ma) or vals(atables) != vals(mt):
        res.tie_broken(f"{tag}: table values under 'any'", info)
        ok = False
    else:
        for order, cells in atables.items():
            for k, (v, tags) in cells.items():
                alltags = mt[order][k][1]
                if len(tags) > 1 or not all(t in alltags for t in tags) or bool(tags) != bool(alltags):
                    res.tie_broken(f"{tag}: 'any' tags at {k} are not one of the 'all' tags", info, alltags, tags)
                    ok = False
                    break
            if not ok:
                break
        for order, cells in ma.items():
            if any(len(tags) > 1 or not all(t in mt[order][k][1] for t in tags) for k, (v, tags) in cells.items()):
                res.tie_broken(f"{tag}: the model's 'any' tags are not among its 'all' tags", info)
                ok = False
                break
    ka = keys(asols)
    # `any` is a member of `all` (and has its cost) only inside the coherent region (C05_any_mem_spfs needs
    # spe + 2*sloss <= dup + 2*floss; outside it the real code and the model both return an `any` solution that
    # is NOT in `all`, cf. C05_any_incoherent_witness) -- and this stream deliberately contains incoherent cost
    # vectors.  Outside the region only cardinality / emptiness (C05_any_card_spfs, _empty_iff_spfs) are compared.
    from .. import gen
    coh = gen.coherent(solvers.full_costs(case), plain=False)
    if len(ka) > 1 or (not ka) != (not m_all["sols"]) \
            or (coh and (not set(ka) <= set(keys(m_all["sols"])) or (ka and acost != m_all["cost"]))):
        res.tie_broken(f"{tag}: 'any' result is not one member of the model's 'all' result", info,
                       {"n": len(m_all["sols"]), "cost": m_all["cost"]}, {"n": len(ka), "cost": acost})
        ok = False
    if len(m_any["sols"]) > 1 or (not m_any["sols"]) != (not m_all["sols"]) \
            or (coh and not set(keys(m_any["sols"])) <= set(keys(m_all["sols"]))):
        res.tie_broken(f"{tag}: the model's 'any' result is not one member of its 'all' result", info)
        ok = False
    return ok


def check_cases(ctx, res, cases):
    reqs = []
    for c in cases:
        lc = lean_case(c)
        for a in ALGOS:
            reqs.append({"op": "c02_spfscode", "algo": a, "policy": "all", **lc})
            reqs.append({"op": "c02_spfscode", "algo": a, "policy": "any", **lc})
    outs = iter(ctx.driver.parallel(reqs))
    for c in cases:
        for a in ALGOS:
            res.case({"case": c, "algo": a + "_code"}, solvers.nontrivial(c))
            res.dist[a + "_code"] += 1
            compare(res, c, a, next(outs), next(outs))


def cases_for(ctx):
    """The generators of C02 (`solvers.ordered_case`: consistent / inconsistent leaf orders, prescribed root
    orders, sloss = 0, infinite transfer cost), plus incoherent cost vectors: the refinement to the labelDP model
    and this tie hold for every cost vector."""
    from .. import gen

    rng = ctx.rng
    out = []
    for _ in range(ctx.budget(300, 3000)):
        out.append(solvers.ordered_case(ctx, rng, 4, 4, 3))
    for _ in range(ctx.budget(100, 1000)):
        out.append(solvers.ordered_case(ctx, rng, 3, 3, 4))
    for _ in range(ctx.budget(100, 1000)):
        c = solvers.ordered_case(ctx, rng, 4, 3, 3)
        c["costs"] = gen.rand_costs(rng, plain=False, coherent_only=False)
        out.append(c)
    return out


PROBES = [
    {"S": [[], []], "O": [{"s": "0", "f": [0]}, {"s": "1", "f": [0]}],
     "costs": {"spe": 0, "dup": 1, "hgt": 1, "floss": 1, "sloss": 1}},
    {"S": [[[], []], []], "O": [[{"s": "00", "f": [0, 1]}, {"s": "1", "f": [1]}], {"s": "01", "f": [0]}],
     "costs": {"spe": 1, "dup": 1, "hgt": 1, "floss": 1, "sloss": 1}},
    # prescribed root order, a STRICT supersequence of the leaves (family 2 is carried by no leaf)
    {"S": [[], []], "O": [{"s": "0", "f": [0]}, [{"s": "1", "f": [0, 1]}, {"s": "1", "f": [1]}]],
     "costs": {"spe": 1, "dup": 1, "hgt": "inf", "floss": 1, "sloss": 1}, "root": [0, 2, 1]},
]


def available(ctx, res):
    """The table-level tie looks INSIDE the implementation (`_compute_spfs_table`, its arguments and the layout
    of its private table).  Self-test on fixed probe inputs: if the hook fails, is never called, OR the
    canonicalised real tables differ from the model's there, the internals were refactored: the tie is
    unavailable — a note, not an alarm; the public-API correspondence of the C02 check still decides."""
    from ..common import Result

    try:
        reqs = []
        for c in PROBES:
            lc = lean_case(c)
            for a in ALGOS:
                reqs += [{"op": "c02_spfscode", "algo": a, "policy": "all", **lc},
                         {"op": "c02_spfscode", "algo": a, "policy": "any", **lc}]
        outs = iter(ctx.driver.parallel(reqs))
        scratch = Result()
        for c in PROBES:
            tables, _, _, _ = real_tables(c, "ext_spfs", "all")
            if not tables:
                raise RuntimeError("_compute_spfs_table was not called")
            for a in ALGOS:
                compare(scratch, c, a, next(outs), next(outs))
        if scratch.mismatch:
            raise RuntimeError("probe: " + scratch.mismatch[0]["relation"])
        return True
    except Exception as e:  # noqa
        res.notes.append(f"table-level tie (c02_code) unavailable: internals changed ({type(e).__name__}: {str(e)[:160]})")
        res.dist["code-table tie unavailable"] += 1
        return False


def run_code(ctx, res):
    if available(ctx, res):
        check_cases(ctx, res, cases_for(ctx))


def corpus_code(ctx, res, corpus):
    if not available(ctx, res):
        return
    check_cases(ctx, res, [c for c in corpus if any("f" in l for _, l in solvers._leaves(c["O"]))])
