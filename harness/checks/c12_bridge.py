"""C12 (bridge tie) — lean/SRVerif/Model/SolOutput.lean against the real code.

Use from c12.py:   from . import c12_bridge   …   c12_bridge.run_bridge(ctx, res)   next to c12_cli.run_cli(ctx, res);
                   c12.replay dispatches the cases carrying a "bridge" key to c12_bridge.replay_bridge(ctx, data).

Two ties (driver ops of lean/SRVerif/Driver/C12Bridge.lean):
  * c12_emb_dict     canonical cases (the generators of the solver ties C01-C05: plain / ordered incl. prescribed root
                     orders / unordered; plain algorithms also on inputs that carry leaf syntenies) are solved by the
                     REAL solvers (seven algorithms x any/all) under the harness naming (sr.default_sname /
                     default_oname / fam_name) or, in a third of the cases, random unique safe names, and with an NHX
                     `color` feature on each node of either tree with probability 0.12 (README "Adding color";
                     naming["scolours"] / ["ocolours"]: the Colouring of Model/SolOutputColour.lean); every result x
                     gives the canonical solution s = sr.canon_solution(x) and `x.to_dict()` (after a JSON round trip)
                     is compared with the dictionary of the model's embedding of s under the same naming
                     (embPlainC / embSuperC, then toDict with the Newick writer: op c12b_emb).  Compared as
                     dictionaries: same keys; Newick strings parsed by ete3 (the reader the package uses) into names,
                     colours and topology; mappings and the cost table as mappings; syntenies as lists for ordered and
                     plain outputs, as sets for unordered ones.  Child order and key order differences are counted,
                     never alarms.  Under `all` the canonical solution must be one of the model solver's results.
                     The property itself is evaluated on the real objects alone: every written dictionary must read
                     back (from_dict) to an object whose cost() is results[0].cost() — what the tool prints as
                     'Minimum cost' (VIOLATION, replayable from the case).
  * c12_eval_output  dictionaries from (a) the real solver outputs above, (b) C06's generator: valid, mostly NON-optimal
                     species mappings x valid ordered / unordered labellings (incl. root orders strictly containing
                     the leaf families) under arbitrary unit costs with the transfer cost infinite in a quarter,
                     (c) C11's random outputs (random names, colours, set-valued syntenies, shuffled key orders, a few
                     arbitrary mappings), and (d) one or two mutations of those (keys `ordered` / `costs` /
                     `leaf_object_species` dropped, an internal node moved to another species, a synteny replaced,
                     children swapped in the Newick text, key orders shuffled; a mapping entry deleted, an unknown
                     name, an unknown cost key, an infinite duplication cost).  `X.from_dict(d).cost()` of the real
                     code is compared with op c12b_eval = fromDict with the Newick reader, then evalPlain / evalSuper.
                     Whether a dictionary is INSIDE the property's input space is decided here, from the dictionary
                     alone (both trees parse, unique safe names, binary object tree, complete mappings over known
                     names, five integer unit costs with only the transfer cost possibly infinite — or no cost table;
                     for labelled outputs no INVALID internal node and, when ordered, every synteny a non-empty
                     subsequence of its parent's): inside, a difference breaks the tie; outside, agreement and
                     disagreement are only counted (the model answers `inf` where Python raises or returns a
                     meaningless number).
"""
import contextlib
import copy
import io
import json
import re

from ete3 import Tree

from superrec2.model.reconciliation import ReconciliationOutput, SuperReconciliationOutput
from superrec2.utils.dynamic_programming import RetentionPolicy

from harness import gen, solvers, sr
from harness.checks import c06, c11

RULE_BRIDGE = __doc__.split("Two ties", 1)[1]
TRUSTED_BRIDGE = [
    "model: lean/SRVerif/Model/SolOutput.lean + Model/SolOutputColour.lean (embPlainC / embSuperC = embPlain / "
    "embSuper with the NHX colours of the input trees: what the solvers hand to to_dict, for a solution "
    "of the solver models; evalPlain / evalSuper: decode the parsed structure, then totalCost of Model/Rec.lean) "
    "composed with to_dict / from_dict of Model/Serialize.lean and the Newick codec of Model/Newick.lean (tied by C11)",
    "sr.canon_solution reads the canonical solution off the real result's `object_species` / `syntenies` attributes "
    "(not through to_dict); the solver models themselves are tied by C01-C05",
    "the decision `inside the property's input space` is this module's (space_reason), from the dictionary alone",
]

ALGOS = ["exh", "lca", "thl", "base_spfs", "ext_spfs", "base_uspfs", "superdtl"]
KIND = solvers.MODE
SAFE_WORD = re.compile(r"[A-Za-z0-9_.\-]+\Z")
COST_NAMES = {"spe": "SPECIATION", "dup": "DUPLICATION", "hgt": "HORIZONTAL_TRANSFER", "floss": "FULL_LOSS",
              "sloss": "SEGMENTAL_LOSS"}
P_COLOUR = 0.12
FAM_POOL = ["g1", "g2", "g10", "g3", "f01", "x_2", "A", "b7", "g20", "h", "G1", "12", "g", "fam_3"]


def note_once(res, text):
    if text not in res.notes:
        res.notes.append(text)


# ---------------------------------------------------------------------------
# naming


def o_paths(O, p=""):
    """(path, leaf dict | None) of every object node, pre-order."""
    if isinstance(O, dict):
        yield p, O
    else:
        yield p, None
        for i, c in enumerate(O):
            yield from o_paths(c, p + str(i))


def fams_of(case, sols=()):
    out = {f for _, l in o_paths(case["O"]) if l for f in l.get("f", [])} | set(case.get("root") or [])

    def rec(s):
        out.update(s.get("f", []))
        for c in s.get("c", []):
            rec(c)

    for s in sols:
        rec(s)
    return sorted(out)


def rand_name(rng, used):
    """c11.rand_name without 'NoName': ete3's legacy default, which label_internal (run by the unordered solvers
    on their input) takes for `unnamed` and replaces — excluded by C12's assumptions."""
    while True:
        n = c11.rand_name(rng, used)
        if n != "NoName":
            return n


def make_naming(rng, case, random_names):
    """Name tables of a canonical case: harness default naming or random unique safe names."""
    if random_names:
        used_s, used_o = set(), set()
        stab = {p: rand_name(rng, used_s) for p in gen.all_paths(case["S"])}
        otab = {p: rand_name(rng, used_o) for p, _ in o_paths(case["O"])}
        ids = list(range(max(fams_of(case) + [0]) + 4))
        ftab = dict(zip(ids, rng.sample(FAM_POOL, len(ids)))) if len(ids) <= len(FAM_POOL) else \
            {i: sr.fam_name(i) for i in ids}
    else:
        stab = {p: sr.default_sname(p) for p in gen.all_paths(case["S"])}
        otab = {p: sr.default_oname(p, None if l is None else stab[l["s"]]) for p, l in o_paths(case["O"])}
        ftab = {i: sr.fam_name(i) for i in range(max(fams_of(case) + [0]) + 4)}
    # colours of the input file (one entry per COLOURED node): drawn last, so that the names above are the
    # names drawn before colours existed
    scol = [[p, c11.rand_colour(rng)] for p in stab if rng.random() < P_COLOUR]
    ocol = [[p, c11.rand_colour(rng)] for p in otab if rng.random() < P_COLOUR]
    return {"snames": [[p, n] for p, n in stab.items()], "onames": [[p, n] for p, n in otab.items()],
            "fnames": [[i, n] for i, n in ftab.items()], "default": not random_names,
            "scolours": scol, "ocolours": ocol}


def colour_input(inp, naming):
    """Put the colours of the naming on the nodes of the real input object (what reading a file with
    `[&&NHX:color=...]` does: ete3 keeps the feature `color` on the node)."""
    for tree, key in ((inp.species_lca.tree, "scolours"), (inp.object_tree, "ocolours")):
        if naming.get(key):
            _, back = sr.index_tree(tree)
            for p, c in naming[key]:
                back[p].add_feature("color", c)


def naming_functions(naming):
    stab, otab = dict(map(tuple, naming["snames"])), dict(map(tuple, naming["onames"]))
    ftab = {int(i): n for i, n in naming["fnames"]}
    back = {n: i for i, n in ftab.items()}
    return {"sname": lambda p: stab[p], "oname": lambda p, leaf=None: otab[p], "fname": lambda i: ftab[i]}, \
        (lambda name: back[name])


# ---------------------------------------------------------------------------
# dictionaries: canonical forms


def enc(v):
    """A cost as the driver writes it; values outside the model's cost space keep a readable tag."""
    if isinstance(v, bool) or not isinstance(v, (int, float)):
        try:
            return sr.enc_cost(v)  # infinity.inf
        except Exception:  # noqa
            return {"other": type(v).__name__}
    if isinstance(v, float):
        if v != v:
            return "nan"
        if v in (float("inf"), float("-inf")):
            return "inf" if v > 0 else "-inf"
        return int(v) if v == int(v) else {"other": "float"}
    return v


def dict_form(d):
    """The dictionary in the driver's rendering (c11.dict_form with costs encoded by `enc`)."""
    def pairs(m):
        return None if m is None else [[k, v] for k, v in m.items()]

    i = d["input"]
    return {"input": {"object_tree": i["object_tree"], "species_tree": i["species_tree"],
                      "leaf_object_species": pairs(i.get("leaf_object_species")),
                      "costs": None if i.get("costs") is None else [[k, enc(v)] for k, v in i["costs"].items()],
                      "leaf_syntenies": pairs(i.get("leaf_syntenies"))},
            "object_species": pairs(d["object_species"]), "syntenies": pairs(d.get("syntenies")),
            "ordered": d.get("ordered")}


def from_form(f):
    """A Python dictionary from the driver's rendering (absent keys dropped)."""
    def unpairs(m):
        return {k: v for k, v in m}

    i = {"object_tree": f["input"]["object_tree"], "species_tree": f["input"]["species_tree"]}
    for k in ("leaf_object_species", "costs", "leaf_syntenies"):
        if f["input"][k] is not None:
            i[k] = unpairs(f["input"][k])
    if "costs" in i:
        i["costs"] = {k: (float(v) if v in ("inf", "-inf", "nan") else v) for k, v in i["costs"].items()}
    d = {"input": i, "object_species": unpairs(f["object_species"])}
    if f["syntenies"] is not None:
        d["syntenies"] = unpairs(f["syntenies"])
    if f["ordered"] is not None:
        d["ordered"] = f["ordered"]
    return d


def read_tree(text, keep_order):
    """Names, colours and topology of a Newick string as the package reads it."""
    try:
        t = Tree(text, format=1)
    except Exception as e:  # noqa
        return ["unreadable", type(e).__name__, text]

    def rec(n):
        kids = [rec(c) for c in n.children]
        if not keep_order:
            kids.sort(key=json.dumps)
        return [n.name, getattr(n, "color", None), kids]

    return rec(t)


def canon_dict(d, keep_order=False):
    """What is compared of a dictionary.  keep_order=True also keeps what is representation (child order in the
    Newick text, key order of the mappings): used only to COUNT such differences."""
    def mapping(m):
        return [[k, v] for k, v in m.items()] if keep_order else dict(m)

    def syn(m, as_sets):
        if as_sets and not keep_order:
            return {k: [sorted(v), len(v)] for k, v in m.items()}
        return mapping({k: list(v) for k, v in m.items()})

    unordered = d.get("ordered") is False
    i = d["input"]
    out = {"keys": [sorted(d), sorted(i)],
           "object_tree": read_tree(i["object_tree"], keep_order),
           "species_tree": read_tree(i["species_tree"], keep_order),
           "object_species": mapping(d["object_species"])}
    if "leaf_object_species" in i:
        out["leaf_object_species"] = mapping(i["leaf_object_species"])
    if "costs" in i:
        out["costs"] = mapping({k: enc(v) for k, v in i["costs"].items()})
    if "leaf_syntenies" in i:
        out["leaf_syntenies"] = syn(i["leaf_syntenies"], unordered)
    if "syntenies" in d:
        out["syntenies"] = syn(d["syntenies"], unordered)
    if "ordered" in d:
        out["ordered"] = d["ordered"]
    return out


def first_diff(a, b):
    for k in sorted(set(a) | set(b)):
        if a.get(k) != b.get(k):
            return f"{k}: model {json.dumps(a.get(k))[:300]} vs to_dict() {json.dumps(b.get(k))[:300]}"
    return "?"


# ---------------------------------------------------------------------------
# tie 1: the embedding


def solver_case(ctx, rng, algo):
    kind = KIND[algo]
    if kind == "plain":
        if rng.random() < 0.5:
            c = solvers.plain_case(ctx, rng, max_o=4 if algo == "exh" else 5, max_s=5)
        else:  # a file with leaf syntenies given to a plain algorithm (the tool keeps the input object)
            c = gen.rand_case(rng, 4 if algo == "exh" else 5, 4, rng.randint(1, 3), plain=True)
        return c
    if kind == "ordered":
        return solvers.ordered_case(ctx, rng)
    c = solvers.unordered_case(ctx, rng, max_o=4)
    return c


def run_real(case, algo, policy, naming, with_syn):
    """The real solver on the case under the naming -> (input object, list of results) or an error name."""
    fns, _ = naming_functions(naming)
    inp = sr.build_input(case, float_inf=True, force_plain=not with_syn, **fns)
    colour_input(inp, naming)
    fn = sr.algorithms()[algo]
    try:
        with contextlib.redirect_stderr(io.StringIO()):
            if algo == "lca":
                outs = [fn(inp)]
            else:
                outs = list(fn(inp, getattr(RetentionPolicy, policy.upper())))
    except Exception as e:  # noqa
        return inp, type(e).__name__
    return inp, outs


def read_back(d):
    cls = SuperReconciliationOutput if "syntenies" in d else ReconciliationOutput
    with contextlib.redirect_stderr(io.StringIO()):
        return cls.from_dict(copy.deepcopy(d))


def emb_record(case, algo, policy, naming, with_syn):
    return {"bridge": "emb", "case": case, "algo": algo, "policy": policy, "with_syn": with_syn, "naming": naming}


def emb_property(rec):
    """The property on the real objects alone.  Returns (violation sentence | None, results, dictionaries)."""
    case, algo = rec["case"], rec["algo"]
    inp, outs = run_real(case, algo, rec["policy"], rec["naming"], rec["with_syn"])
    if isinstance(outs, str):
        return None, outs, []
    dicts = []
    printed = None
    for k, x in enumerate(outs):
        try:
            if printed is None:
                printed = enc(outs[0].cost())  # what reconcile prints as 'Minimum cost'
            d = json.loads(json.dumps(x.to_dict()))
        except Exception as e:  # noqa
            return f"{algo}: result {k} cannot be written ({type(e).__name__}: {e})", outs, dicts
        dicts.append(d)
        try:
            got = enc(read_back(d).cost())
        except Exception as e:  # noqa
            return f"{algo}: written result {k} does not read back ({type(e).__name__}: {e})", outs, dicts
        if got != printed:
            return (f"{algo}: written result {k} reads back as a solution of cost {got}, the printed minimum cost "
                    f"(results[0].cost()) is {printed}"), outs, dicts
    return None, outs, dicts


def check_emb(ctx, res, n):
    rng = ctx.rng
    reqs, metas, harvested = [], [], []
    for _ in range(n):
        algo = rng.choice(ALGOS)
        policy = "all" if algo == "lca" else rng.choice(["all", "any"])
        case = solver_case(ctx, rng, algo)
        case = {"S": case["S"], "O": case["O"], "costs": solvers.full_costs(case),
                **({"root": case["root"]} if case.get("root") is not None else {})}
        with_syn = sr.has_syntenies(case) and not (KIND[algo] == "plain" and rng.random() < 0.4)
        if KIND[algo] != "plain" and not with_syn:
            continue
        naming = make_naming(rng, case, rng.random() < 0.33)
        rec = emb_record(case, algo, policy, naming, with_syn)
        bad, outs, dicts = emb_property(rec)
        n_leaves = sum(1 for _, l in o_paths(case["O"]) if l)
        res.case({k: v for k, v in rec.items() if k != "naming"},
                 nontrivial=n_leaves >= 3 and not isinstance(outs, str) and len(outs) >= 1)
        res.dist[f"emb/{algo}/{policy}" + ("/syn" if with_syn and KIND[algo] == "plain" else "")] += 1
        if isinstance(outs, str):
            res.dist[f"emb: solver raised {outs} (C01-C05's subject)"] += 1
            continue
        if bad:
            res.violation(bad, rec)
            continue
        if not outs:
            res.dist["emb: no solution"] += 1
            continue
        _, fidx = naming_functions(naming)
        try:
            sols = [sr.canon_solution(x, fidx) for x in outs]
        except Exception as e:  # noqa
            res.dist[f"emb: canonical solution not readable ({type(e).__name__}): C04's subject"] += 1
            continue
        if case["costs"]["hgt"] == "inf":
            res.dist["emb: hgt=inf"] += 1
        if case.get("root") is not None:
            res.dist["emb: prescribed root"] += 1
        reqs.append({"op": "c12b_emb", "S": case["S"], "O": case["O"], "costs": case["costs"],
                     "root": case.get("root"), "algo": algo, "with_syn": with_syn, "sols": sols,
                     "member": policy == "all", "snames": naming["snames"], "onames": naming["onames"],
                     "fnames": naming["fnames"], "scolours": naming.get("scolours", []),
                     "ocolours": naming.get("ocolours", [])})
        if naming.get("scolours") or naming.get("ocolours"):
            res.dist["emb: coloured input (%s)" % "+".join(
                k for k in ("scolours", "ocolours") if naming.get(k))] += 1
        metas.append((rec, dicts))
        for d in dicts[:2]:
            harvested.append(("solver:" + algo, d, naming["default"]))
    for (rec, dicts), out in zip(metas, ctx.driver.parallel(reqs)):
        compare_emb(res, rec, dicts, out)
    return harvested


def compare_emb(res, rec, dicts, out):
    """One run: the model's dictionaries of the embedded canonical solutions against the real to_dict()s."""
    case = rec["case"]
    for k, (d, m) in enumerate(zip(dicts, out)):
        md = from_form(m["dict"])
        if m["member"] is False:
            res.tie_broken(f"c12_emb_dict: {rec['algo']} (all): result {k} is not one of the model solver's results",
                           rec, None, d)
            return
        if case.get("root") is not None and "leaf_syntenies" in d["input"]:
            # a prescribed root order is an entry of `leaf_syntenies` for the root object (sr.build_input); the
            # embedding speaks of the leaves: the entry is set aside (counted), everything else is compared
            root_name = read_tree(d["input"]["object_tree"], True)[0]
            if root_name in d["input"]["leaf_syntenies"] and root_name not in md["input"].get("leaf_syntenies", {}):
                d = copy.deepcopy(d)
                d["input"]["leaf_syntenies"].pop(root_name)
                res.dist["emb: root entry of leaf_syntenies set aside (outside the embedding)"] += 1
        a, b = canon_dict(md), canon_dict(d)
        if a != b:
            res.tie_broken(f"c12_emb_dict: {rec['algo']} ({rec['policy']}): to_dict() of result {k} vs the dictionary "
                           f"of the embedded model solution: {first_diff(a, b)}", rec, md, d)
            return
        if canon_dict(md, True) != canon_dict(d, True):
            ka, kb = canon_dict(md, True), canon_dict(d, True)
            what = [x for x in ka if ka[x] != kb.get(x)]
            res.dist["emb: same dictionary, representation differs (" + ",".join(what) + ")"] += 1
        else:
            res.dist["emb: identical incl. child / key / set order"] += 1


# ---------------------------------------------------------------------------
# tie 2: the evaluator on dictionaries


def py_eval(d, cls):
    X = SuperReconciliationOutput if cls == "SO" else ReconciliationOutput
    try:
        with contextlib.redirect_stderr(io.StringIO()):
            y = X.from_dict(copy.deepcopy(d))
    except Exception as e:  # noqa
        name = type(e).__name__
        return {"err": "NewickError" if "Newick" in name else name}
    try:
        return {"cost": enc(y.cost())}
    except Exception as e:  # noqa
        return {"cost_raises": type(e).__name__}


def tree_index(text):
    """name -> path, arities; None if the string does not parse."""
    try:
        t = Tree(text, format=1)
    except Exception:  # noqa
        return None
    names, arity = {}, {}
    order = []

    def rec(n, p):
        order.append((n.name, p))
        arity[p] = len(n.children)
        for i, c in enumerate(n.children):
            rec(c, p + str(i))

    rec(t, "")
    for nm, p in order:
        names.setdefault(nm, p)
    return {"names": names, "order": order, "arity": arity}


def is_subseq(a, b):
    it = iter(b)
    return all(x in it for x in a)


def space_reason(d, cls, default_names):
    """None when the dictionary is inside the property's input space, else the reason (a bucket name)."""
    i = d.get("input")
    if not isinstance(i, dict) or "object_tree" not in i or "species_tree" not in i or "object_species" not in d:
        return "malformed: missing key"
    ot, st = tree_index(i["object_tree"]), tree_index(i["species_tree"])
    if ot is None or st is None:
        return "malformed: tree does not parse"
    for t in (ot, st):
        ns = [n for n, _ in t["order"]]
        if len(set(ns)) != len(ns) or not all(SAFE_WORD.match(n) for n in ns):
            return "names not unique and safe"
    if any(a not in (0, 2) for a in ot["arity"].values()):
        return "object tree not binary"
    costs = i.get("costs")
    if costs is not None:
        if set(costs) - set(COST_NAMES.values()):
            return "malformed: unknown cost key"
        if set(costs) != set(COST_NAMES.values()):
            return "cost table incomplete"
        for k, v in costs.items():
            fin = isinstance(v, int) and not isinstance(v, bool) and v >= 0
            if not fin and not (k == "HORIZONTAL_TRANSFER" and v == float("inf")):
                return "unit cost outside the cost space (only the transfer cost may be infinite)"
    onodes = {p: n for n, p in ot["order"]}
    leaves = [p for p, a in ot["arity"].items() if a == 0]
    los = i.get("leaf_object_species")
    if los is None:
        if not default_names:
            return "leaf_object_species absent, leaf names not <species>_<id>"
    else:
        if any(k not in ot["names"] or v not in st["names"] for k, v in los.items()):
            return "malformed: unknown name"
        if any(onodes[p] not in los for p in leaves):
            return "incomplete mapping"
    osp = d["object_species"]
    if any(k not in ot["names"] or v not in st["names"] for k, v in osp.items()):
        return "malformed: unknown name"
    if any(n not in osp for n in onodes.values()):
        return "incomplete mapping"
    if cls == "RO":
        return None
    syn = d.get("syntenies")
    if syn is None:
        return "malformed: missing key"
    if any(k not in ot["names"] for k in syn):
        return "malformed: unknown name"
    if any(n not in syn for n in onodes.values()):
        return "incomplete mapping"
    sp = {p: st["names"][osp[n]] for p, n in onodes.items()}
    for p, a in ot["arity"].items():
        if a == 2 and c06.event_of(sp[p], sp[p + "0"], sp[p + "1"]) == c06.INVALID:
            return "labelled output with an INVALID internal node (Python asserts)"
    if d.get("ordered", True):
        root = syn[onodes[""]]
        if len(set(root)) != len(root):
            return "invalid ordered labelling"
        for p, a in ot["arity"].items():
            if not syn[onodes[p]]:
                return "invalid ordered labelling"
            if a == 2 and not all(is_subseq(syn[onodes[p + k]], syn[onodes[p]]) for k in "01"):
                return "invalid ordered labelling"
    return None


def c06_dicts(ctx, rng, n_inputs):
    """Valid, mostly non-optimal outputs of C06's generator as dictionaries."""
    out = []
    for _ in range(n_inputs):
        nfam = rng.choice([0, 2, 3, 3, 4])
        inp, order = c06.rand_input(rng, 4, 4, nfam)
        items, _ = c06.items_for_input(rng, inp, order, nfam, map_cap=6, lab_cap=12, per_map=1)
        for it in items:
            naming = make_naming(rng, it["case"], rng.random() < 0.25)
            fns, _ = naming_functions(naming)
            try:
                if it["mode"] == "plain":
                    x = sr.build_output(it["case"], it["sol"], float_inf=True, force_plain=True, **fns)
                else:
                    x = sr.build_output(it["case"], it["sol"], ordered=(it["mode"] == "ordered"), float_inf=True, **fns)
                d = json.loads(json.dumps(x.to_dict()))
            except Exception:  # noqa
                continue
            out.append(("c06:" + it["mode"] + ("/wide-root" if it.get("wide_root") else ""), d, naming["default"]))
    return out


def c11_dicts(ctx, rng, n):
    out = []
    while len(out) < n:
        desc = c11.rand_description(rng, max_leaves=6)
        if desc["cls"] not in ("RO", "SO"):
            continue
        try:
            d = json.loads(json.dumps(c11.build(desc).to_dict()))
        except Exception:  # noqa
            continue
        out.append(("c11:" + desc["cls"], d, False))
    return out


def shuffled(rng, m):
    items = list(m.items())
    rng.shuffle(items)
    return dict(items)


def mutate(rng, d):
    """One mutation of a dictionary -> (tag, dictionary) or None."""
    d = copy.deepcopy(d)
    i = d["input"]
    ot, st = tree_index(i["object_tree"]), tree_index(i["species_tree"])
    if ot is None or st is None:
        return None
    inner = [n for n, p in ot["order"] if ot["arity"][p] > 0]
    kind = rng.choice(["ordered", "costs", "los", "move", "move", "syn", "swap", "shuffle", "shuffle",
                       "del", "unknown", "costkey", "dupinf"])
    if kind == "ordered" and "ordered" in d:
        d.pop("ordered")
    elif kind == "costs" and "costs" in i:
        i.pop("costs")
    elif kind == "los" and "leaf_object_species" in i:
        i.pop("leaf_object_species")
    elif kind == "move" and inner:
        d["object_species"][rng.choice(inner)] = rng.choice(list(st["names"]))
    elif kind == "syn" and "syntenies" in d and inner:
        root = list(d["syntenies"].get(ot["order"][0][0], []))
        pick = [f for f in root if rng.random() < 0.6]
        if rng.random() < 0.3:
            rng.shuffle(pick)
        d["syntenies"][rng.choice(inner)] = pick
    elif kind == "swap" and inner:
        t = Tree(i["object_tree"], format=1)
        node = rng.choice([n for n in t.traverse() if len(n.children) == 2])
        node.children.reverse()
        i["object_tree"] = t.write(format=8, format_root_node=True, features=["color"])
    elif kind == "shuffle":
        d["object_species"] = shuffled(rng, d["object_species"])
        for holder, k in ((d, "syntenies"), (i, "leaf_object_species"), (i, "costs"), (i, "leaf_syntenies")):
            if k in holder:
                holder[k] = shuffled(rng, holder[k])
    elif kind == "del" and d["object_species"]:
        d["object_species"].pop(rng.choice(list(d["object_species"])))
    elif kind == "unknown" and d["object_species"]:
        d["object_species"][rng.choice(list(d["object_species"]))] = "no_such_species"
    elif kind == "costkey" and "costs" in i:
        i["costs"]["LOSS"] = 1
    elif kind == "dupinf" and "costs" in i:
        i["costs"]["DUPLICATION"] = float("inf")
    else:
        return None
    return kind, json.loads(json.dumps(d))


def encodable(form):
    cs = form["input"]["costs"]
    return cs is None or all(v == "inf" or (isinstance(v, int) and not isinstance(v, bool) and v >= 0) for _, v in cs)


def eval_record(origin, cls, d, default_names):
    return {"bridge": "eval", "origin": origin, "cls": cls, "dict": dict_form(d), "default_names": default_names}


def judge_eval(res, rec, d, model):
    """One dictionary: the real from_dict(d).cost() against the model's answer."""
    cls = rec["cls"]
    py = py_eval(d, cls)
    why = space_reason(d, cls, rec["default_names"])
    if "err" in model:
        m = {"err": model["err"]}
    else:
        m = {"cost": model["cost"]}
    same = (py == m)
    if why is None:
        res.dist[f"eval inside space/{rec['origin'].split(':')[0]}/{cls}"] += 1
        if py.get("cost") == "inf":
            res.dist["eval inside space: cost inf"] += 1
        if not same:
            detail = ""
            if "cost" in model:
                detail = (f" (model: cost table {'read' if model['costs_ok'] else 'NOT read'}, trees and mappings "
                          f"{'decoded' if model['decoded'] else 'NOT decoded'}, reconciliation part "
                          f"{model.get('rec')}, labelling part {model.get('label')})")
            res.tie_broken(f"c12_eval_output: {cls}.from_dict(d).cost() vs evalPlain/evalSuper on a dictionary inside "
                           f"the property's input space [{rec['origin']}]" + detail, rec, m, py)
        return
    if "err" in py:
        pk = f"from_dict raises {py['err']}"
    elif "cost_raises" in py:
        pk = f"cost() raises {py['cost_raises']}"
    else:
        pk = "cost " + (py["cost"] if isinstance(py["cost"], str) else "finite" if isinstance(py["cost"], int) else "other")
    mk = f"from_dict raises {model['err']}" if "err" in model else \
        "cost " + ("inf" if model["cost"] == "inf" else "finite")
    res.dist[f"eval outside space ({why}): " + ("agree" if same else f"python {pk} / model {mk}")] += 1


def check_eval(ctx, res, harvested):
    rng = ctx.rng
    base = list(harvested)
    base += c06_dicts(ctx, rng, ctx.budget(60, 600))
    base += c11_dicts(ctx, rng, ctx.budget(500, 5000))
    items = []
    for origin, d, default_names in base:
        cls = "SO" if "syntenies" in d else "RO"
        items.append((eval_record(origin, cls, d, default_names), d))
        if cls == "SO" and rng.random() < 0.1:
            # the labelled dictionary read by the plain class (extra keys are ignored)
            items.append((eval_record(origin + "+as-RO", "RO", d, default_names), d))
        if rng.random() < 0.4:
            tags, dd = [], d
            for _ in range(rng.choice([1, 1, 2])):
                mu = mutate(rng, dd)
                if mu:
                    tags.append(mu[0])
                    dd = mu[1]
            if tags:
                items.append((eval_record(origin + "+" + "+".join(tags), cls, dd, default_names), dd))
    items = [(rec, d) for rec, d in items if encodable(rec["dict"]) or res.dist.update(
        {"eval: cost value outside the driver's encoding (not compared)": 1})]
    reqs = [{"op": "c12b_eval", "cls": rec["cls"], "dict": rec["dict"]} for rec, _ in items]
    for (rec, d), model in zip(items, ctx.driver.parallel(reqs)):
        nt = d["input"]["object_tree"].count("(") >= 2
        res.case(rec, nontrivial=nt)
        judge_eval(res, rec, d, model)


# ---------------------------------------------------------------------------


def run_bridge(ctx, res):
    harvested = check_emb(ctx, res, ctx.budget(150, 1500))
    check_eval(ctx, res, harvested)
    inside = sum(v for k, v in res.dist.items() if k.startswith("eval inside space/"))
    differ = sum(v for k, v in res.dist.items() if k.startswith("eval outside space") and not k.endswith(": agree"))
    note_once(res, f"C12 bridge: {inside} dictionaries inside the property's input space evaluated by the real "
                   f"from_dict(d).cost() and by evalPlain/evalSuper; outside it (incomplete mappings, INVALID nodes "
                   f"under a labelling, invalid ordered labellings, infinite unit costs other than the transfer's) the "
                   f"model answers inf where Python raises or returns a meaningless number: {differ} such "
                   f"dictionaries counted in the distribution, never an alarm")


def replay_bridge(ctx, data):
    """Replays a recorded bridge case on the current code: (ok, message)."""
    from harness.common import Result

    rec = data["input"]
    res = Result()
    if rec["bridge"] == "emb":
        bad, outs, dicts = emb_property(rec)
        if bad:
            return False, "still fails: " + bad
        if isinstance(outs, str) or not outs:
            return True, f"ok: nothing written ({outs if isinstance(outs, str) else 'no solution'})"
        _, fidx = naming_functions(rec["naming"])
        case, naming = rec["case"], rec["naming"]
        req = {"op": "c12b_emb", "S": case["S"], "O": case["O"], "costs": case["costs"], "root": case.get("root"),
               "algo": rec["algo"], "with_syn": rec["with_syn"], "sols": [sr.canon_solution(x, fidx) for x in outs],
               "member": rec["policy"] == "all", "snames": naming["snames"], "onames": naming["onames"],
               "fnames": naming["fnames"], "scolours": naming.get("scolours", []),
               "ocolours": naming.get("ocolours", [])}
        compare_emb(res, rec, dicts, ctx.driver.batch([req])[0])
    else:
        d = from_form(rec["dict"])
        model = ctx.driver.batch([{"op": "c12b_eval", "cls": rec["cls"], "dict": rec["dict"]}])[0]
        judge_eval(res, rec, d, model)
    if res.concrete:
        return False, "still fails: " + res.concrete[0]["what"]
    if res.mismatch:
        return False, "tie still broken: " + res.mismatch[0]["relation"]
    return True, "ok: every written dictionary reads back with the printed cost and agrees with the model"
