"""C04 — Every returned solution is a valid, complete (super-)reconciliation."""
import contextlib
import io

from .. import gen, solvers
from ..common import Result
from ..solvers import MODE, execute, judge_valid, tie
from ..sr import (algorithms, build_input, canon_solution, derive_case, enc_cost, leaf_data_by_name)

ID = "C04"
ALGOS = ["lca", "thl", "exh", "ext_spfs", "base_spfs", "superdtl", "base_uspfs"]
RULE = (
    "inputs as in C01-C03 (plain, ordered, unordered; segmental-loss cost 0 over-sampled; cost vectors NOT "
    "restricted to the coherent region since validity does not depend on it; ordered inputs also with a prescribed "
    "root order, possibly a strict supersequence of the leaf families) for all seven algorithms and both "
    "policies, plus multifurcating inputs (up to two polytomies) for the extended solvers, whose solutions are "
    "validated against the binary input they refer to and must keep the original leaf data.  Validity is "
    "evaluated by the Lean specification Spec.validSol on every returned solution.  Non-trivial = at least 3 "
    "object leaves and 2 species."
)
TRUSTED = ["models: lean/SRVerif/Model/*.lean; specification: Spec.validSol in lean/SRVerif/Spec/Opt.lean"]
ASSUMPTIONS = ["leaf syntenies non-empty with distinct families"]
OPEN = []  # C04_unord proved in Properties/C04Un.lean (all inputs, no guard)

CORPUS = [
    # fixed: F-SPFS-SLOSS0, F-USPFS-ALIAS, F-THL-UNREACHABLE
    {"S": [[[], []], []], "O": [{"s": "1", "f": [1, 3]}, [{"s": "00", "f": [1]}, {"s": "01", "f": [0, 1, 2, 3]}]],
     "costs": {"spe": 0, "dup": 1, "hgt": 0, "floss": 1, "sloss": 0}},
    {"S": [[[], []], []],
     "O": [[{"s": "1", "f": [1, 2, 3]}, {"s": "01", "f": [1, 3]}],
           [{"s": "1", "f": [1, 3]}, [{"s": "00", "f": [0, 1]}, {"s": "00", "f": [0, 1, 2]}]]],
     "costs": {"spe": 0, "dup": 1, "hgt": 0, "floss": 1, "sloss": 1}},
    {"S": [[], [[[], []], []]], "O": [{"s": "101"}, {"s": "100"}]},
]


def algos_for(case):
    has = any("f" in l for _, l in solvers._leaves(case["O"]))
    out = [a for a in ALGOS if has or MODE[a] == "plain"]
    if case.get("only") == "unordered":
        out = [a for a in out if MODE[a] == "unordered"]
    if case.get("root") is not None:
        # a prescribed root order only has a documented meaning for the ordered solvers
        out = [a for a in out if MODE[a] == "ordered"]
    return out


def judge(ctx, res, runs):
    for r in runs:
        res.case({"case": r.case, "algo": r.algo}, solvers.nontrivial(r.case))
        solvers.describe(res, r.case, r.algo)
        judge_valid(res, r)
        tie(res, r)


def any_costs(rng):
    c = gen.rand_costs(rng, coherent_only=False)
    if rng.random() < 0.3:
        c["sloss"] = 0
    return c


def polytomise(rng, tree, k):
    """Collapse up to k random internal edges of a nested-list tree."""
    def internal_edges(t, path=()):
        if isinstance(t, dict) or not t:
            return []
        out = []
        for i, c in enumerate(t):
            if isinstance(c, list) and c:
                out.append(path + (i,))
            out += internal_edges(c, path + (i,))
        return out

    for _ in range(k):
        edges = internal_edges(tree)
        if not edges:
            break
        e = rng.choice(edges)
        node = tree
        for i in e[:-1]:
            node = node[i]
        child = node[e[-1]]
        node[e[-1] : e[-1] + 1] = child
    return tree


def multi_cases(ctx, res, n):
    """Extended solvers on non-binary inputs: solutions refer to binary refinements."""
    import copy
    from superrec2.utils.dynamic_programming import RetentionPolicy
    from superrec2.utils.trees import is_binary

    rng = ctx.rng
    pending = []
    for _ in range(n):
        unordered = rng.random() < 0.5
        case = gen.rand_case(rng, 4, 4, rng.randint(1, 3), plain=False, unordered=unordered,
                             costs=any_costs(rng))
        case = copy.deepcopy(case)
        which = rng.choice(["O", "S", "both"])
        if which in ("O", "both") and isinstance(case["O"], list):
            case["O"] = polytomise(rng, case["O"], 1)
        if which in ("S", "both") and case["S"]:
            case["S"] = polytomise(rng, case["S"], 1)
            # leaf species paths changed: re-draw them
            lv = gen.leaf_paths(case["S"])
            for _, leaf in solvers._leaves(case["O"]):
                leaf["s"] = rng.choice(lv)
        algo = "superdtl" if unordered else "ext_spfs"
        for policy in ("all", "any"):
            inp = build_input(case)
            orig = leaf_data_by_name(inp)
            try:
                with contextlib.redirect_stderr(io.StringIO()):
                    outs = list(algorithms()[algo](inp, getattr(RetentionPolicy, policy.upper())))
            except Exception as e:
                res.violation(f"{algo} ({policy}) fails on a multifurcating input: {type(e).__name__}: {e}",
                              {"case": case, "algo": algo, "policy": policy})
                continue
            res.case({"case": case, "algo": algo, "policy": policy, "multi": True}, True)
            res.dist[f"multifurcating:{algo}"] += 1
            for o in outs:
                info = {"case": case, "algo": algo, "policy": policy}
                if not (is_binary(o.input.object_tree) and is_binary(o.input.species_lca.tree)):
                    res.violation(f"{algo}: solution refers to a non-binary tree", info)
                    break
                if leaf_data_by_name(o.input) != orig:
                    res.violation(f"{algo}: refinement changed the leaf data", info)
                    break
                try:
                    cost = enc_cost(o.cost())
                    sol = canon_solution(o)
                except Exception as e:
                    res.violation(f"{algo}: incomplete solution ({type(e).__name__})", info)
                    break
                if cost == "inf":
                    res.violation(f"{algo}: solution of infinite cost", info)
                    break
                pending.append((info, derive_case(o.input), sol, MODE[algo]))
    reqs = [{"op": "valid", "mode": m, "O": dc["O"], "sol": sol} for _, dc, sol, m in pending]
    for (info, dc, sol, m), ok in zip(pending, ctx.driver.parallel(reqs)):
        if not ok:
            res.violation(f"{info['algo']}: invalid solution on a refinement of a multifurcating input",
                          info, observed=sol)


def corpus(ctx, res):
    judge(ctx, res, execute(ctx, [(c, a) for c in CORPUS for a in algos_for(c)], want_spec=False))


def gen_cases(ctx):
    rng = ctx.rng
    n = ctx.budget(700, 5000)
    out = []
    for _ in range(n):
        k = rng.random()
        if k < 0.15:
            c = gen.rand_case(rng, 5, 5, 0, costs=any_costs(rng))
        elif k < 0.27:
            c = gen.rand_case(rng, 4, 4, rng.randint(1, 3), plain=False, costs=any_costs(rng))
        elif k < 0.35:
            # ordered inputs WITH a prescribed root order (a permutation of the families or a strict common
            # supersequence holding families that no leaf carries): "the root holds every family once" is then
            # judged against the prescribed order (Spec.validSolPre); any cost vector
            for _try in range(8):
                c = solvers.ordered_case(ctx, rng, 4, 4, 3)
                if c.get("root") is not None:
                    break
            c["costs"] = any_costs(rng)
        elif k < 0.5:
            c = gen.rand_case(rng, 5, 4, rng.randint(1, 4), plain=False, unordered=True, costs=any_costs(rng))
        elif k < 0.6:
            # two internal INHERIT siblings, a private gain on one side, tie-prone costs (decoder sharing bugs)
            c = gen.sibling_inherit_case(rng)
        elif k < 0.8:
            # the unordered generator of C03/C05 (deeper trees, label-driven costs, clade-confined families): the
            # decoder's sharing bugs need two internal INHERIT siblings at depth >= 2 and a tie
            c = solvers.unordered_case(ctx, rng, 5, 4, 4)
            if rng.random() < 0.3:
                c["costs"] = dict(solvers.full_costs(c), sloss=0)
        else:
            # larger balanced trees with clade-structured families (sibling INHERIT chains), tie-prone costs
            # (unordered only: the ordered solvers enumerate every root order and are far too slow here)
            costs = solvers.label_costs(rng) if rng.random() < 0.4 else {"spe": 0, "dup": 1, "hgt": 1, "floss": 1, "sloss": 1}
            c = gen.clade_case(rng, 6, 7, 2, rng.randint(3, 4), True, costs)
        out.append(c)
    return out


def run(ctx, res):
    items = [(c, a) for c in gen_cases(ctx) for a in algos_for(c)]
    for i in range(0, len(items), 2000):
        judge(ctx, res, execute(ctx, items[i : i + 2000], want_spec=False))
    multi_cases(ctx, res, ctx.budget(25, 300))
    # histories on ONE input object: costs changed in place between calls; each call must answer like a fresh input
    rng = ctx.rng
    pool = [(c, a) for c, a in items if solvers.nontrivial(c)]
    for c, a in rng.sample(pool, min(len(pool), ctx.budget(30, 300))):
        other = dict(solvers.full_costs(c), **solvers.label_costs(rng))
        if not solvers.inplace_history(res, c, other, a, what_prefix="unordered solver reused on one input object: "):
            break


def shrink(ctx, violation):
    if violation["input"].get("policy") and "multi" in str(violation.get("what", "")):
        return violation

    def f(case):
        r = Result()
        for a in algos_for(case):
            judge(ctx, r, execute(ctx, [(case, a)], want_spec=False))
        return r.concrete[0] if r.concrete else None

    return solvers.shrink(ctx, violation, f)


def replay(ctx, data):
    inp = data["input"]
    r = Result()
    if "history" in inp:
        return solvers.replay_inplace(inp)
    judge(ctx, r, execute(ctx, [(inp["case"], inp["algo"])], want_spec=False))
    ok = not r.concrete
    return ok, ("ok: property holds on this input" if ok else "still fails: " + r.concrete[0]["what"])
