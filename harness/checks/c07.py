"""C07 — LCA reconciliation is the unique optimum of the duplication-loss model."""

from .. import gen, solvers
from ..common import Result
from ..solvers import keys, lean_case
from ..sr import build_input, index_tree, run_algo, solution_key

ID = "C07"
RULE = (
    "binary object/species trees with every kind of leaf assignment (everything in one species, species hosting "
    "nothing, single-node trees); transfers forbidden (hgt = inf, the infinity package's inf and, on a share of the "
    "cases, float inf), spe = 0, dup and floss in {0..5} with floss = 0, dup = 0 and the defaults over-sampled.  "
    "reconcile_lca is run in-process and judged (a) directly: every internal node sits at the lowest common "
    "ancestor of the species of its leaves, found by walking parent chains of the real ete3 trees; (b) by the Lean "
    "specification: valid (Spec.validSol), cost = minimum over all valid mappings (Spec.optimum, plain), member of "
    "the optimal set, and for floss > 0 the optimal set is exactly {LCA solution}; (c) against reconcile_thl / "
    "reconcile_exhaustive run with the infinite transfer cost under policy all: same cost, LCA solution among "
    "theirs, the only one when floss > 0; (d) against the model lcaSol (same mapping, same cost).  Quick: every "
    "input up to 3x3 leaves and random inputs up to 5x5; thorough: every input up to 4x4 leaves, sampled 5x5, and "
    "random inputs up to 9 object leaves x 7 species against thl.  Non-trivial = at least 3 object leaves and 2 "
    "species; distinct = distinct (case incl. costs)."
)
TRUSTED = [
    "models: lcaSol in lean/SRVerif/Model/Solvers.lean, evaluator lean/SRVerif/Model/Rec.lean; specification: "
    "Spec.optimum / Spec.validSol in lean/SRVerif/Spec/Opt.lean",
    "species are modelled as root paths; that LowestCommonAncestor computes the path operations is C17",
    "the JSON bridge harness/sr.py (paths <-> ete3 nodes)",
]
ASSUMPTIONS = [
    "binary object tree (reconcile_lca unpacks exactly two children; other arities raise ValueError)",
    "transfer cost infinite; spe <= dup + 2*floss (checked with spe = 0, the property's setting)",
    "uniqueness is of the species mapping (plain reconciliations carry no synteny annotations)",
]
OPEN = []

CORPUS = [
    {"S": [[], []], "O": [[{"s": "0"}, {"s": "1"}], {"s": "0"}]},
    {"S": [[[], []], []], "O": [[{"s": "00"}, {"s": "01"}], {"s": "1"}]},
    {"S": [[[], []], []], "O": [{"s": "1"}, [{"s": "01"}, [{"s": "01"}, [{"s": "01"}, {"s": "00"}]]]]},
    {"S": [[[], []], [[], []]], "O": [[[{"s": "10"}, {"s": "01"}], [{"s": "01"}, {"s": "00"}]], {"s": "11"}]},
    {"S": [], "O": {"s": ""}},
    {"S": [[], []], "O": {"s": "1"}},
    {"S": [], "O": [{"s": ""}, {"s": ""}]},
    {"S": [[], [[[], []], []]], "O": [{"s": "101"}, {"s": "100"}]},
]
GRID = [(d, f) for d in range(6) for f in range(6)]


def costs(dup, floss):
    return {"spe": 0, "dup": dup, "hgt": "inf", "floss": floss, "sloss": 1}


def rand_grid_costs(rng):
    k = rng.random()
    if k < 0.2:
        return costs(rng.randint(0, 5), 0)
    if k < 0.3:
        return costs(0, rng.randint(0, 5))
    if k < 0.4:
        return costs(1, 1)
    return costs(*rng.choice(GRID))


# ---------------------------------------------------------------------------
# direct restatement: LCA of the leaf species by parent-chain walking


def chain(node):
    out = []
    while node is not None:
        out.append(node)
        node = node.up
    return out


def walk_lca(nodes):
    """Lowest common ancestor of ete3 nodes, by intersecting root chains."""
    common = None
    for n in nodes:
        ch = chain(n)
        common = ch if common is None else [x for x in common if any(x is y for y in ch)]
    # the deepest common ancestor is the first of the (bottom-up) chain
    return common[0] if common else None


def lca_mapping_defects(out):
    """Object nodes of a ReconciliationOutput that are not at the LCA of their leaves' species."""
    inp = out.input
    sfwd, _ = index_tree(inp.species_lca.tree)
    ofwd, _ = index_tree(inp.object_tree)
    bad = []
    for node in inp.object_tree.traverse():
        want = walk_lca([inp.leaf_object_species[l] for l in node.get_leaves()])
        got = out.object_species.get(node)
        if got is not want:
            bad.append({"object_node": ofwd[node], "expected": sfwd.get(want), "observed": sfwd.get(got)})
    return bad


def n_obj(case):
    return sum(1 for _ in solvers._leaves(case["O"]))


# ---------------------------------------------------------------------------


def judge(ctx, res, cases, oracle=True, others=("thl", "exh"), float_share=0.0):
    """cases: canonical cases whose costs forbid transfers."""
    runs = []
    reqs = []
    for case in cases:
        kw = {"float_inf": True} if ctx.rng.random() < float_share else {}
        r = {"case": case, "kw": kw, "lca": run_algo(case, "lca", present="auto", **kw)}
        r["defects"] = lca_mapping_defects(r["lca"]["outs"][0]) if "outs" in r["lca"] else None
        r["lca"].pop("outs", None)
        r["others"] = {}
        for a in others:
            o = run_algo(case, a, "all", present="auto", **kw)
            o.pop("outs", None)
            r["others"][a] = o
        lc = lean_case(case)
        reqs.append({"op": "solve", "algo": "lca", **lc})
        if oracle:
            reqs.append({"op": "spec_opt", "mode": "plain", "keep": True, "base": False, **lc})
        if "sols" in r["lca"]:
            for s in r["lca"]["sols"]:
                reqs.append({"op": "valid", "mode": "plain", "O": case["O"], "sol": s})
        runs.append(r)
    outs = iter(ctx.driver.parallel(reqs))
    for r in runs:
        r["model"] = next(outs)
        r["spec"] = next(outs) if oracle else None
        r["valid"] = [next(outs) for _ in r["lca"].get("sols", [])]
        verdict_one(res, r)


def verdict_one(res, r):
    case, lca = r["case"], r["lca"]
    c = solvers.full_costs(case)
    info = {"case": case}
    if r["kw"]:
        info["float_inf"] = True
    no, ns = n_obj(case), len(gen.leaf_paths(case["S"]))
    res.case(info, solvers.nontrivial(case))
    res.dist[f"o{no}s{ns}"] += 1
    res.dist["floss=0" if c["floss"] == 0 else "floss>0"] += 1
    if r["kw"]:
        res.dist["float inf"] += 1
    if "err" in lca:
        res.violation(f"reconcile_lca fails on a well-formed input: {lca['err']} {lca.get('msg', '')}", info)
        return
    sol = lca["sols"][0]
    # (a) the mapping is the LCA mapping
    if r["defects"]:
        d = r["defects"][0]
        res.violation(
            f"reconcile_lca maps object node '{d['object_node']}' to species '{d['observed']}', the lowest common "
            f"ancestor of the species of its leaves is '{d['expected']}'", info,
            expected=d["expected"], observed=d["observed"])
        return
    # (b) valid, optimal, unique according to the specification
    if not all(r["valid"]):
        res.violation("reconcile_lca returns an invalid reconciliation", info, observed=sol)
        return
    if lca["cost"] == "inf" or isinstance(lca["cost"], list):
        res.violation(f"the reconciliation returned by reconcile_lca has cost {lca['cost']} with transfers forbidden "
                      f"(the LCA reconciliation contains no transfer and has a finite cost)", info)
        return
    spec = r["spec"]
    if spec is not None:
        if lca["cost"] != spec["cost"]:
            res.violation(
                f"the LCA reconciliation costs {lca['cost']}, the minimum over all valid reconciliations without "
                f"transfers is {spec['cost']}", info, expected=spec["cost"], observed=lca["cost"])
            return
        sk = keys(spec["sols"])
        if solution_key(sol) not in sk:
            res.violation("the LCA reconciliation is not in the specification's optimal set", info, observed=sol)
            return
        if c["floss"] > 0 and len(sk) != 1:
            other = [s for s in spec["sols"] if solution_key(s) != solution_key(sol)][0]
            res.violation(
                f"floss = {c['floss']} > 0 but {len(sk)} reconciliations attain the minimum cost {spec['cost']}",
                info, expected=sol, observed=other)
            return
        if len(sk) > 1:
            res.dist["optimum not unique (floss=0)"] += 1
    # (c) the general solvers with an infinite transfer cost
    for a, o in r["others"].items():
        ainfo = {**info, "algo": a}
        if "err" in o:
            res.violation(f"{a} with an infinite transfer cost fails: {o['err']} {o.get('msg', '')}", ainfo)
            return
        ok = keys(o["sols"])
        if o["cost"] != lca["cost"]:
            res.violation(
                f"reconcile_lca costs {lca['cost']}, {a} with an infinite transfer cost finds {o['cost']}",
                ainfo, expected=o["cost"], observed=lca["cost"])
            return
        if solution_key(sol) not in ok:
            res.violation(f"the LCA reconciliation is not among the optimal solutions of {a} (policy all)", ainfo,
                          observed=sol)
            return
        if c["floss"] > 0 and len(ok) != 1:
            res.violation(
                f"floss = {c['floss']} > 0 but {a} returns {len(ok)} optimal reconciliations without transfers",
                ainfo, expected=sol, observed=[s for s in o["sols"] if solution_key(s) != solution_key(sol)][0])
            return
    # (d) model
    m = r["model"]
    if keys(m["sols"]) != [solution_key(sol)] or m["cost"] != lca["cost"]:
        res.tie_broken("reconcile_lca vs lcaSol (mapping, cost)", case,
                       {"cost": m["cost"], "sol": m["sols"][0]}, {"cost": lca["cost"], "sol": sol})


# ---------------------------------------------------------------------------
# malformed stream: non-binary object trees are rejected


def malformed(ctx, res):
    from superrec2.compute.reconciliation import reconcile_lca

    for O in ([{"s": "0"}, {"s": "1"}, {"s": "0"}], [[{"s": "0"}], {"s": "1"}],
              [[{"s": "0"}, {"s": "1"}, {"s": "1"}], {"s": "0"}]):
        case = {"S": [[], []], "O": O, "costs": costs(1, 1)}
        try:
            reconcile_lca(build_input(case, force_plain=True))
            got = "returns"
        except Exception as e:  # noqa
            got = type(e).__name__
        res.case({"case": case, "malformed": True}, False)
        res.dist[f"malformed:non-binary->{got}"] += 1
        if got != "ValueError":
            # the model's object trees are binary by type (the driver rejects other arities)
            res.tie_broken("non-binary object tree: model rejects (binary by type)", case, "rejected", got)


# ---------------------------------------------------------------------------


def with_costs(base, c):
    return {"S": base["S"], "O": base["O"], "costs": c}


def small_cases(ctx, max_o, max_s, per_case):
    rng = ctx.rng
    out = []
    for base in gen.exhaustive_plain_cases(max_o, max_s):
        picks = GRID if per_case >= len(GRID) else rng.sample(GRID, per_case)
        for d, f in picks:
            out.append(with_costs(base, costs(d, f)))
    return out


def random_cases(ctx, n, max_o, max_s):
    rng = ctx.rng
    out = []
    for _ in range(n):
        base = gen.rand_case(rng, max_o, max_s, 0, plain=True, costs=costs(1, 1))
        out.append(with_costs(base, rand_grid_costs(rng)))
    return out


def big_case(rng, max_o, max_s):
    ns = rng.randint(3, max_s)
    no = rng.randint(5, max_o)
    S = gen.rand_shape(rng, ns, rng.choice([None, "cat", "bal"]))
    sps = gen.rand_species_assignment(rng, S, no)
    O = gen.fill_object(gen.rand_shape(rng, no, rng.choice([None, None, "cat", "bal"])),
                        iter([{"s": s} for s in sps]))
    return {"S": S, "O": O, "costs": rand_grid_costs(rng)}


def corpus(ctx, res):
    cs = [with_costs(c, costs(d, f)) for c in CORPUS for d, f in ((1, 1), (0, 2), (3, 0), (0, 0), (5, 1))]
    judge(ctx, res, cs)
    malformed(ctx, res)


def inplace_sweep(ctx, res, n):
    """Histories on ONE input object (transfers forbidden): the unit costs are swept IN PLACE (as the package's own
    tests do) and at every step reconcile_lca / reconcile_thl on that same object must give what they give on a
    fresh input with the same costs.  Keeps the duplication-loss model's clauses honest against state kept on, or
    keyed by, the input object."""
    import contextlib
    import io

    from superrec2.utils.dynamic_programming import RetentionPolicy

    from ..sr import algorithms, canon_solution, costs_of, enc_cost

    rng = ctx.rng
    for _ in range(n):
        case = big_case(rng, 6, 5) if rng.random() < 0.5 else random_cases(ctx, 1, 5, 5)[0]
        steps = [solvers.full_costs(case)] + [
            dict(solvers.full_costs(case), dup=rng.randint(0, 3), floss=rng.choice([0, 0, 1, 2, 3]),
                 hgt=rng.choice(["inf", "inf", rng.randint(0, 3)]))
            for _ in range(3)]
        steps.append(dict(solvers.full_costs(case), hgt="inf", floss=max(1, solvers.full_costs(case)["floss"])))
        if not sweep_one(res, case, steps):
            return


def sweep_one(res, case, steps):
    """One history on one input object; False after a violation."""
    import contextlib
    import io

    from superrec2.utils.dynamic_programming import RetentionPolicy

    from ..sr import algorithms, canon_solution, costs_of, enc_cost

    if True:
        inp = build_input(case, force_plain=True)
        for st in steps:
            if st["spe"] > st["dup"] + 2 * st["floss"]:
                st["spe"] = 0
            v = {**case, "costs": st}
            inp.costs.clear()
            inp.costs.update(costs_of(v))
            for algo, pol in (("lca", "all"), ("thl", "all"), ("thl", "any")):
                try:
                    with contextlib.redirect_stderr(io.StringIO()):
                        outs = [algorithms()[algo](inp)] if algo == "lca" else \
                            list(algorithms()[algo](inp, getattr(RetentionPolicy, pol.upper())))
                    got = {"cost": sorted({enc_cost(o.cost()) for o in outs}, key=str),
                           "sols": sorted((canon_solution(o) for o in outs), key=solution_key)}
                except Exception as e:  # noqa
                    got = {"err": type(e).__name__}
                want = run_algo(v, algo, pol)
                want.pop("outs", None)
                res.case({"case": v, "algo": algo, "policy": pol, "inplace": True}, True)
                res.dist["in-place cost sweep on one input object"] += 1
                if "err" in got or "err" in want:
                    if ("err" in got) != ("err" in want):
                        res.violation(f"{algo} ({pol}) on a reused input object: {got.get('err')} vs fresh {want.get('err')}",
                                      {"case": v, "history": steps})
                        return False
                    continue
                wc = want["cost"] if isinstance(want["cost"], list) else [want["cost"]]
                if [str(x) for x in got["cost"]] != [str(x) for x in wc] or \
                        (pol == "all" and [solution_key(x) for x in got["sols"]] != [solution_key(x) for x in want["sols"]]):
                    res.violation(
                        f"{algo} ({pol}): after the costs of the input object were changed in place the result (cost "
                        f"{got['cost']}) differs from a fresh input with the same costs (cost {want['cost']})",
                        {"case": v, "history": steps})
                    return False
    return True


def run(ctx, res):
    inplace_sweep(ctx, res, ctx.budget(40, 300))
    if ctx.thorough or ctx.deep:
        judge(ctx, res, small_cases(ctx, 3, 3, len(GRID)), float_share=0.1)
        big = [b for b in gen.exhaustive_plain_cases(4, 4)
               if n_obj(b) == 4 or len(gen.leaf_paths(b["S"])) == 4]
        cs = [with_costs(b, rand_grid_costs(ctx.rng)) for b in big]
        cs += [with_costs(b, costs(ctx.rng.randint(0, 5), ctx.rng.randint(1, 5))) for b in big]
        for i in range(0, len(cs), 3000):
            judge(ctx, res, cs[i : i + 3000], float_share=0.1)
        # 5x5 sampled (oracle), forcing the extreme sizes
        five = []
        for _ in range(1200):
            S = gen.rand_shape(ctx.rng, ctx.rng.choice([4, 5, 5]))
            no = ctx.rng.choice([4, 5, 5])
            sps = gen.rand_species_assignment(ctx.rng, S, no)
            O = gen.fill_object(gen.rand_shape(ctx.rng, no), iter([{"s": s} for s in sps]))
            five.append({"S": S, "O": O, "costs": rand_grid_costs(ctx.rng)})
        judge(ctx, res, five, float_share=0.1)
        # larger inputs: thl with an infinite transfer cost is the reference
        judge(ctx, res, [big_case(ctx.rng, 9, 7) for _ in range(400)], oracle=False, others=("thl",),
              float_share=0.1)
    else:
        judge(ctx, res, small_cases(ctx, 3, 3, 4), float_share=0.1)
        judge(ctx, res, random_cases(ctx, 400, 5, 5), float_share=0.1)
        judge(ctx, res, [big_case(ctx.rng, 8, 6) for _ in range(40)], oracle=False, others=("thl",))


# ---------------------------------------------------------------------------


def fails_one(ctx):
    def f(case):
        c = solvers.full_costs(case)
        if c["hgt"] != "inf" or c["spe"] != 0:
            return None
        r = Result()
        big = n_obj(case) > 5 or len(gen.leaf_paths(case["S"])) > 5
        judge(ctx, r, [case], oracle=not big, others=("thl",) if big else ("thl", "exh"))
        return r.concrete[0] if r.concrete else None

    return f


def shrink(ctx, violation):
    return solvers.shrink(ctx, violation, fails_one(ctx))


def replay(ctx, data):
    if isinstance(data.get("input"), dict) and data["input"].get("history"):
        r = Result()
        sweep_one(r, data["input"]["case"], data["input"]["history"])
        ok = not r.concrete
        return ok, ("ok: property holds on this history" if ok else "still fails: " + r.concrete[0]["what"])
    inp = data["input"]
    case = inp["case"] if "case" in inp else inp
    r = Result()
    big = n_obj(case) > 5 or len(gen.leaf_paths(case["S"])) > 5
    judge(ctx, r, [case], oracle=not big, others=("thl",) if big else ("thl", "exh"),
          float_share=1.0 if inp.get("float_inf") else 0.0)
    ok = not r.concrete
    return ok, ("ok: property holds on this input" if ok else "still fails: " + r.concrete[0]["what"])
