"""C16, table API stream: OPERATION SEQUENCES on `Table` / `TableProxy` / `EntryProxy`.

A case is a table shape (1-3 axes mixing DictDimension and ListDimension, merge and retention policy)
and a list of operations, one per line of the replay; every operation is run on the real classes and
on the model `lean/SRVerif/Model/Table.lean` (driver op `c16t_run`), outputs canonicalised (tag sets
sorted, dictionary keys in iteration order, exceptions -> {"err": class name}).

* The PROPERTY (C16_table_read, restated here in Python independently of model and code): reading a
  cell gives the optimum / the tags of the optimal candidates of exactly the batches written to that
  cell (normalised address) that contained a finite candidate; an unwritten cell reads +-inf, no tags.
  A read that disagrees is reported with `res.violation`.
* Everything else the API returns (keys(), `in`, iteration, index errors, ==, combine) is compared
  with the model: a difference is `res.tie_broken`.

Operations (JSON arrays; a PATH is a list of keys `t[k1]...[kn]`, or {"slot": i, "ks": [...]}: the
chain continued from a proxy object kept earlier by `hold`):
  ["hold", i, ks]            p_i = t[ks...]                 ["index", path]        t[path...]
  ["set", path, cand]        t[path[:-1]...][path[-1]] = Candidate(*cand)
  ["update", path, cands]    t[path...].update(*cands)
  ["value"|"infos"|"info"|"isinf"|"len"|"iter"|"keys", path]
  ["contains", path, key]    key in t[path...]
  ["eq", path, v, tags]      t[path...] == Entry(v, tags)   ["eqcell", path, path2]
  ["combine", path, path2, comb]   e = t[path...].combine(t[path2...], comb); (e.value(), e.infos())
Keys are ints or strings "s<n>"; tags are positive ints or None; values ints, "inf", "-inf".
"""
import itertools

from infinity import inf

from superrec2.utils.dynamic_programming import (
    Candidate,
    DictDimension,
    Entry,
    EntryProxy,
    ListDimension,
    MergePolicy,
    RetentionPolicy,
)
from superrec2.utils.dynamic_programming import Table as RealTable

RULE_TABLE = (
    "table stream: operation sequences (write one candidate / a batch, read value/infos/info/len/"
    "is_infinite, iterate, keys, in, ==, combine with accepting and rejecting combinators, index errors, "
    "proxies kept across writes) over 1-3 axis tables mixing DictDimension and ListDimension(1..3), keys "
    "valid, negative, out of range and of the wrong type; bounded-exhaustive over a 12-operation alphabet "
    "per shape (all sequences up to length 3 quick / 4 thorough) then random sequences up to length 14.  "
    "Non-trivial: two or more cells addressed and some cell written at least twice.  Tables with (min, none) "
    "are built half the time as Table(dims) (default policies).  keys() / iteration of a table are compared "
    "as SETS (the docstrings promise 'the set of keys').  Under 'any' a tag-dependent output that differs from "
    "the model's is accepted when it is another legitimate choice (reads: judged by the property; combine "
    "with sum/untag: model's value and tag count, tags among those under 'all'; combine with a rejecting "
    "combinator and ==: not compared once they differ).  Standalone-entry stream: Entry(m, r), Entry(value, "
    "infos, m, r), Entry(value, infos) (default policies), Table.entry() / Table.entry(value, infos); combine "
    "of such entries, under 'any' also with several constructed tags per operand (result compared by "
    "membership in the 'all' combination of the implementation's own operands)."
)
TRUSTED_TABLE = [
    "model: lean/SRVerif/Model/Table.lean (flat state: instantiated cells by normalised address + the "
    "defaultdict keys created so far, in creation order); keys are ints or non-int hashables",
]
ASSUMPTIONS_TABLE = [
    "keys of type bool/float, slices and unhashable keys are out of scope; `__repr__` is the default one",
    "tags are comparable with one another (Entry.info() takes min)",
    "the ORDER of keys() / iteration of a table is not compared (creation order in the model, "
    "C16_table_keys_monotone, is a fact about the model only)",
    "an ANY entry CONSTRUCTED with several tags is observed and combined but not updated (outside the property)",
    "Table.entry(value, infos) with exactly one argument None (TypeError) and unknown Dimension subclasses "
    "(RuntimeError) are not modelled",
]

KINDS = ("table", "entry_api", "combine_api")
MERGES = {"min": MergePolicy.MIN, "max": MergePolicy.MAX}
RETAINS = {"none": RetentionPolicy.NONE, "any": RetentionPolicy.ANY, "all": RetentionPolicy.ALL}
READS = ("value", "infos", "info", "isinf", "len", "iter")


def enc(v):
    return "inf" if v == inf else "-inf" if v == -inf else v


def dec(v):
    return inf if v == "inf" else -inf if v == "-inf" else v


def cand(c):
    return Candidate(dec(c[0]), c[1])


class _ValueOnly:
    def value(self):
        return inf


class _InfosOnly:
    value = inf

    def infos(self):
        return set()


NON_ENTRIES = (None, 3, Candidate(1, 1), _ValueOnly(), _InfosOnly())


def err_of(e):
    """Exceptions -> the enum of the model, by `isinstance` (what an `except IndexError:` of a caller sees): a
    subclass of the exception the pinned code raises is the same answer."""
    for cls in (IndexError, TypeError, AttributeError):
        if isinstance(e, cls):
            return {"err": cls.__name__}
    return {"err": type(e).__name__}


# ---------------------------------------------------------------------------
# real code


def combinator(name, merge):
    def summ(x, y):
        return Candidate(x.value + y.value, x.info * 1000 + y.info)

    if name == "sum":
        return summ
    if name == "rej_none":
        return lambda x, y: None if x.info % 1000 == y.info % 1000 else summ(x, y)
    if name == "rej_inf":
        bad = inf if merge == "min" else -inf
        return lambda x, y: Candidate(bad, x.info * 1000 + y.info) if x.info % 1000 == y.info % 1000 else summ(x, y)
    if name == "untag":
        return lambda x, y: Candidate(x.value + y.value)
    raise ValueError(name)


def run_impl(case):
    """Replay the operations on the real classes.  Returns (outputs, compiled) where `compiled` is the
    same history with proxies kept in slots expanded to full key chains (what the model is given);
    an operation that uses a slot whose `hold` raised is dropped from both."""
    dims = [DictDimension() if d == "d" else ListDimension(d) for d in case["dims"]]
    if case.get("ctor") == "defaults":  # Table(dimensions): MIN / NONE are the documented defaults
        assert (case["merge"], case["retain"]) == ("min", "none")
        t = RealTable(dims)
    else:
        t = RealTable(dims, MERGES[case["merge"]], RETAINS[case["retain"]])
    slots = {}
    outs, compiled = [], []

    def full(path):
        if isinstance(path, dict):
            if path["slot"] not in slots:
                return None
            return slots[path["slot"]][1] + list(path["ks"])
        return list(path)

    def chain(path, drop_last=False):
        if isinstance(path, dict):
            obj, ks = slots[path["slot"]][0], list(path["ks"])
        else:
            obj, ks = t, list(path)
        if drop_last:
            ks = ks[:-1]
        for k in ks:
            obj = obj[k]
        return obj

    for op in case["ops"]:
        name = op[0]
        if name == "hold":
            compiled.append(["index", list(op[2])])
            try:
                obj = chain(op[2])
                slots[op[1]] = (obj, list(op[2]))
                outs.append("entry" if isinstance(obj, EntryProxy) else "proxy")
            except Exception as e:
                slots.pop(op[1], None)
                outs.append(err_of(e))
            continue
        paths = [full(op[1])] + ([full(op[2])] if name in ("eqcell", "combine") else [])
        if any(p is None for p in paths):
            continue
        if name == "set" and not (op[1]["ks"] if isinstance(op[1], dict) else op[1]):
            continue  # nothing to assign to
        cop = [name, paths[0]] + ([paths[1]] if len(paths) > 1 else []) + list(op[len(paths) + 1:])
        compiled.append(cop)
        try:
            if name == "index":
                obj = chain(op[1])
                out = "entry" if isinstance(obj, EntryProxy) else "proxy"
            elif name == "set":
                obj = chain(op[1], drop_last=True)
                obj[paths[0][-1]] = cand(op[2])
                out = None
            elif name == "update":
                chain(op[1]).update(*[cand(c) for c in op[2]])
                out = None
            elif name == "value":
                out = {"v": enc(chain(op[1]).value())}
            elif name == "infos":
                out = {"tags": sorted(chain(op[1]).infos())}
            elif name == "info":
                out = {"tag": chain(op[1]).info()}
            elif name == "isinf":
                out = {"b": bool(chain(op[1]).is_infinite())}
            elif name == "len":
                out = {"n": len(chain(op[1]))}
            elif name == "iter":
                obj = chain(op[1])
                items = list(iter(obj))
                if isinstance(obj, EntryProxy):
                    out = {"cands": sorted(([enc(c.value), c.info] for c in items), key=lambda c: c[1])}
                else:
                    out = {"keys": sorted(items, key=repr)}  # "the set of keys": order unspecified
            elif name == "keys":
                out = {"keys": sorted(chain(op[1]).keys(), key=repr)}
            elif name == "contains":
                out = {"b": op[2] in chain(op[1])}
            elif name == "eq":
                obj = chain(op[1])
                out = {"b": bool(obj == Entry(dec(op[2]), list(op[3])))}
                # "== other" for an `other` that is not an entry (no callable value() or no callable infos()) is
                # False (model: the `.entry, .proxy` case of eqCell); the comparison never looks at the table
                odd = [type(x).__name__ for x in NON_ENTRIES if obj == x or x == obj]
                if odd:
                    out["equal_to_non_entries"] = odd
            elif name == "eqcell":
                a = chain(op[1])
                b = chain(op[2])
                out = {"b": bool(a == b)}
                if a is b and a is not t and not isinstance(a, EntryProxy):
                    # default object identity of one kept TableProxy: not part of the module's behaviour
                    out = {"b": False}
            elif name == "combine":
                a = chain(op[1])
                meth = a.combine
                b = chain(op[2])
                e = meth(b, combinator(op[3], case["merge"]))
                out = {"entry": [enc(e.value()), sorted(e.infos())]}
            else:
                raise ValueError(name)
        except Exception as e:  # mapped to the enum of the model
            out = err_of(e)
        outs.append(out)
    return outs, compiled


def canon_model(out):
    if isinstance(out, dict):
        if "tags" in out:
            return {"tags": sorted(out["tags"])}
        if "cands" in out:
            return {"cands": sorted(out["cands"], key=lambda c: c[1])}
        if "entry" in out:
            return {"entry": [out["entry"][0], sorted(out["entry"][1])]}
        if "keys" in out:
            return {"keys": sorted(out["keys"], key=repr)}
    return out


def lean_req(case, compiled, retain=None):
    return {"op": "c16t_run", "dims": case["dims"], "merge": case["merge"],
            "retain": retain or case["retain"], "ops": compiled}


# ---------------------------------------------------------------------------
# the property, restated


def norm(dims, ks):
    """Normalised address of a full key chain, or None when it is not a valid address."""
    if len(ks) != len(dims) or not dims:  # a 0-axis table has no cell at all
        return None
    out = []
    for d, k in zip(dims, ks):
        if d == "d":
            out.append(k)
        else:
            if not isinstance(k, int) or isinstance(k, bool) or not -d <= k < d:
                return None
            out.append(k % d)
    return tuple(out)


def better(m, cur, v):
    return v < cur if m == "min" else v > cur


def expected_cell(case, hist):
    """(optimum, tags of the optimal candidates) of the batches written to a cell."""
    m = case["merge"]
    opt = inf if m == "min" else -inf
    cands = [c for b in hist for c in b]
    for c in cands:
        if better(m, opt, dec(c[0])):
            opt = dec(c[0])
    tags = sorted({c[1] for c in cands if dec(c[0]) == opt and c[1] is not None})
    return opt, tags


def tags_ok(retain, got, opt_tags):
    if retain == "all":
        return got == opt_tags
    if retain == "any":
        return len(got) <= 1 and set(got) <= set(opt_tags) and bool(got) == bool(opt_tags)
    return got == []


def spec_check(case, compiled, outs):
    """Returns None, or (index of the operation, description) of the first read that violates the
    property.  Only operations on VALID cell addresses are judged here."""
    dims, r = case["dims"], case["retain"]
    hist = {}
    for i, (op, out) in enumerate(zip(compiled, outs)):
        name = op[0]
        a = norm(dims, op[1])
        if a is None:
            continue
        if name in ("set", "update"):
            batch = [op[2]] if name == "set" else op[2]
            if out is not None:
                return i, f"writing to the valid cell {list(a)} raised {out}"
            if any(dec(c[0]) not in (inf, -inf) for c in batch):
                hist.setdefault(a, []).append(batch)
            continue
        if name not in READS and name != "eq" and name != "combine":
            continue
        if isinstance(out, dict) and "err" in out and name != "combine":
            return i, f"reading the valid cell {list(a)} raised {out}"
        opt, tags = expected_cell(case, hist.get(a, []))
        what = f"cell {list(a)} was offered {hist.get(a, [])}: optimum {enc(opt)}, optimal tags {tags}"
        if name == "value" and dec(out["v"]) != opt:
            return i, f"value() = {out['v']}; {what}"
        if name == "isinf" and out["b"] != (opt in (inf, -inf)):
            return i, f"is_infinite() = {out['b']}; {what}"
        if name == "infos" and not tags_ok(r, out["tags"], tags):
            return i, f"infos() = {out['tags']} under '{r}'; {what}"
        if name == "len" and out["n"] != (len(tags) if r == "all" else min(1, len(tags)) if r == "any" else 0):
            return i, f"len() = {out['n']} under '{r}'; {what}"
        if name == "info":
            # info(): "Get ANY info tag associated to the current value" (EntryProtocol): WHICH retained tag is
            # returned is the implementation's choice, also under 'all' (the pinned code takes the least)
            exp_ok = (
                (out["tag"] in tags if tags else out["tag"] is None) if r in ("all", "any")
                else out["tag"] is None
            )
            if not exp_ok:
                return i, f"info() = {out['tag']} under '{r}'; {what}"
        if name == "iter":
            got = out["cands"]
            if any(dec(c[0]) != opt for c in got) or not tags_ok(r, [c[1] for c in got], tags):
                return i, f"iter() = {got} under '{r}'; {what}"
        if name == "eq" and r != "any":
            want = dec(op[2]) == opt and sorted(set(op[3])) == (tags if r == "all" else [])
            if out["b"] != want:
                return i, f"== Entry({op[2]}, {op[3]}) is {out['b']}; {what}"
        if name == "combine" and r != "any" and "entry" in out:
            b = norm(dims, op[2])
            if b is None:
                continue
            opt2, tags2 = expected_cell(case, hist.get(b, []))
            if r == "none":
                tags, tags2 = [], []
            pairs = []
            for x in tags:
                for y in tags2:
                    rej = x % 1000 == y % 1000
                    if op[3] == "rej_none" and rej:
                        pairs = None
                        break
                    v = (inf if case["merge"] == "min" else -inf) if (op[3] == "rej_inf" and rej) else opt + opt2
                    pairs.append([enc(v), None if op[3] == "untag" else x * 1000 + y])
                if pairs is None:
                    break
            if pairs is None or a not in hist:
                continue
            eopt, etags = expected_cell(case, [pairs])
            if dec(out["entry"][0]) != eopt or not tags_ok(r, out["entry"][1], etags):
                return i, (f"combine = {out['entry']}; the pairs of retained tags give {pairs}: "
                           f"optimum {enc(eopt)}, optimal tags {etags}")
    return None


TAG_DEPENDENT = ("infos", "info", "len", "iter", "eq", "eqcell", "combine")


def norm_prefix(dims, ks):
    """Normalised address of a chain SHORTER than the table is deep, or None when a key is invalid."""
    if len(ks) >= len(dims):
        return None
    return norm(dims[: len(ks)], ks) if ks else ()


def written_below(case, compiled, upto, pre):
    """Keys of the axis below the (normalised) prefix `pre` under which some cell received a batch with a
    finite candidate before operation `upto`: these MUST be reported (C16_table_keys_written)."""
    out = set()
    for op in compiled[:upto]:
        if op[0] in ("set", "update"):
            a = norm(case["dims"], op[1])
            batch = [op[2]] if op[0] == "set" else op[2]
            if a is not None and a[: len(pre)] == pre and any(dec(c[0]) not in (inf, -inf) for c in batch):
                out.add(a[len(pre)])
    return out


def keys_free_choice(case, compiled, i, op, o, mo):
    """Which never-written dictionary keys exist (the pinned code creates a key whenever it walks through it, also
    on a read) is neither part of the property nor of the docstrings ("the set of keys defined in the next
    dimension").  Accepted: keys() / iteration / `in` of a dictionary axis anywhere between the WRITTEN keys
    (C16_table_keys_written) and the model's ADDRESSED keys (C16_table_keys_sound)."""
    dims = case["dims"]
    if op[0] in ("keys", "iter", "contains"):
        pre = norm_prefix(dims, op[1])
        if pre is None or dims[len(pre)] != "d" or not isinstance(o, dict) or not isinstance(mo, dict):
            return False
        must = written_below(case, compiled, i, pre)
        if "keys" in o and "keys" in mo:
            return must <= set(o["keys"]) <= set(mo["keys"])
        if "b" in o and "b" in mo:  # `k in ...`: free only for an addressed, never-written key
            return op[2] not in must and mo["b"] is True and o["b"] is False
    return False


def compare(case, compiled, outs, mouts, mouts_all=None):
    """Index of the first operation on which implementation and model differ, or None.  Under 'any'
    the implementation may keep ANY tag of an optimal candidate, so a tag-dependent output that
    differs from the model's is never an alarm by itself:
    * infos / info / iter: spec_check has judged the read against the property; accepted;
    * == / eqcell: the answer depends on the kept tag; accepted;
    * combine with a never-rejecting combinator (sum, untag): accepted iff it has the model's value,
      the model's number of tags and tags among those of the same history replayed under 'all'
      (`mouts_all`);
    * combine with a rejecting combinator (rej_none, rej_inf): value and outcome depend on the kept
      tag; accepted;
    * len is 0 or 1 whatever the choice and is compared by equality, as is everything that does not
      depend on tags (values, is_infinite, keys, errors of indexing)."""
    for i, (op, o, mo) in enumerate(zip(compiled, outs, mouts)):
        mo = canon_model(mo)
        if o == mo:
            continue
        if (op[0] == "info" and isinstance(o, dict) and isinstance(mo, dict) and "tag" in o and "tag" in mo
                and (o["tag"] is None) == (mo["tag"] is None)):
            continue  # another retained tag than the model's least one: judged by spec_check (membership)
        if keys_free_choice(case, compiled, i, op, o, mo):
            continue
        if case["retain"] == "any" and op[0] in TAG_DEPENDENT and op[0] != "len":
            o_err = isinstance(o, dict) and "err" in o
            mo_err = isinstance(mo, dict) and "err" in mo
            if op[0] == "combine":
                if op[3] in ("rej_none", "rej_inf"):
                    continue
                moa = canon_model(mouts_all[i]) if mouts_all is not None and i < len(mouts_all) else None
                if (not o_err and not mo_err and o["entry"][0] == mo["entry"][0]
                        and len(o["entry"][1]) == len(mo["entry"][1])
                        and (not isinstance(moa, dict) or "entry" not in moa
                             or set(o["entry"][1]) <= set(moa["entry"][1]))):
                    continue
            elif not (o_err or mo_err):
                continue
        return i
    if len(outs) != len(mouts):
        return min(len(outs), len(mouts))
    return None


# ---------------------------------------------------------------------------
# generators

CANDS = [[1, 1], [0, None], [1, 2], ["inf", 1], [2, 3], [0, 3], ["-inf", None], [1, None], [2, 1], [0, 2]]
SHAPES = [["d"], [2], ["d", 2], [2, "d"], ["d", "d"], [2, "d", 2], ["d", 1, "d"], [3], ["d", "d", "d"], [2, 2]]


def cell_keys(dims, which):
    """Two distinct valid cells A (which=0), B (which=1) of a shape and an alias of A."""
    if which == 0:
        return [("s0" if d == "d" else d - 1) for d in dims]
    if which == 1:
        return [("s1" if d == "d" else 0) for d in dims]
    # alias of A through negative list indices (same cell when the shape has a list axis)
    return [("s0" if d == "d" else -1) for d in dims]


def alphabet(dims):
    a, b, a2 = cell_keys(dims, 0), cell_keys(dims, 1), cell_keys(dims, 2)
    bad = list(a)
    bad[-1] = 7  # out of range on a list axis, a fresh key on a dict axis
    ops = [
        ["set", a, [1, 1]],
        ["set", a2, [1, 2]],
        ["set", a, [0, None]],
        ["update", a, [[2, 3], [1, None], [1, 2]]],
        ["set", b, [0, 3]],
        ["set", a, ["inf", 1]],
        ["set", bad, [0, 1]],
        ["set", a[:-1] if len(a) > 1 else a + [0], [0, 1]],
        ["infos", a],
        ["value", b],
        ["keys", []],
        ["keys", a[:-1]],
    ]
    return ops


def gen_exhaustive(ctx):
    maxlen = ctx.budget(3, 4)
    shapes = SHAPES[: ctx.budget(6, 10)]
    pols = [("min", "all"), ("min", "any"), ("min", "none"), ("max", "all"), ("max", "any"), ("max", "none")]
    for si, dims in enumerate(shapes):
        alpha = alphabet(dims)
        for n in range(1, maxlen + 1):
            for seq in itertools.product(range(len(alpha)), repeat=n):
                # every policy pair on the short sequences, a rotating one on the longest
                for pi, (m, r) in enumerate(pols):
                    if n == maxlen and pi != (sum(seq) + si) % len(pols):
                        continue
                    yield {"kind": "table", "dims": dims, "merge": m, "retain": r,
                           "ops": [alpha[i] for i in seq]}


def rand_key(rng, d, valid):
    if d == "d":
        if valid or rng.random() < 0.9:
            return rng.choice(["s0", "s1", "s2", 0, 1, -1])
        return rng.choice(["s3", 5])
    if valid and d > 0:
        return rng.randrange(-d, d)
    return rng.choice([d, -d - 1, d + 3, "s0"])  # ListDimension(0) has no valid index at all


def rand_path(rng, dims, p_bad=0.12):
    r = rng.random()
    if r < p_bad:
        # one invalid component, or too short / too long a chain
        kind = rng.choice(["key", "key", "short", "long"])
        if kind == "key":
            j = rng.randrange(len(dims))
            return [rand_key(rng, d, i != j) for i, d in enumerate(dims)]
        ks = [rand_key(rng, d, True) for d in dims]
        return ks[:-1] if kind == "short" else ks + [rng.choice([0, "s0"])]
    return [rand_key(rng, d, True) for d in dims]


def rand_cand(rng):
    if rng.random() < 0.6:
        return list(rng.choice(CANDS))
    return [rng.choice([0, 1, 2, 2, 1, "inf", "-inf", -1, 5]), rng.choice([None, 1, 2, 3])]


def rand_case(ctx):
    rng = ctx.rng
    nd = rng.choice([1, 2, 2, 3])
    dims = [rng.choice(["d", "d", 1, 2, 3]) for _ in range(nd)]
    if rng.random() < 0.03:
        dims[rng.randrange(nd)] = 0  # an empty list axis: every chain through it is an IndexError
    m = rng.choice(["min", "min", "max"])
    r = rng.choice(["all", "all", "any", "none"])
    ops = []
    nslots = 0
    # a small pool of cells so that writes meet
    pool = [rand_path(rng, dims, 0.0) for _ in range(rng.randint(1, 3))]
    def path():
        if nslots and rng.random() < 0.15:
            return {"slot": rng.randrange(nslots), "ks": [rand_key(rng, rng.choice(dims), True)
                                                         for _ in range(rng.choice([0, 0, 1]))]}
        if rng.random() < 0.7:
            return list(rng.choice(pool))
        return rand_path(rng, dims)
    for _ in range(rng.randint(2, 14)):
        x = rng.random()
        if x < 0.30:
            ops.append(["set", path(), rand_cand(rng)])
        elif x < 0.48:
            ops.append(["update", path(), [rand_cand(rng) for _ in range(rng.randint(0, 4))]])
        elif x < 0.75:
            ops.append([rng.choice(READS + ("value", "infos", "infos")), path()])
        elif x < 0.82:
            p = rand_path(rng, dims, 0.05)
            # (mostly a strict prefix; sometimes the complete chain -- `keys` of an EntryProxy -- or a longer one)
            ops.append([rng.choice(["keys", "iter"]), p[: rng.randrange(len(dims) + (2 if rng.random() < 0.2 else 0))]])
        elif x < 0.87:
            p = rand_path(rng, dims, 0.05)
            ops.append(["contains", p[: rng.randrange(len(dims) + 1)], rand_key(rng, rng.choice(dims), rng.random() < 0.8)])
        elif x < 0.91:
            p = rand_path(rng, dims, 0.05)
            ops.append(["hold", nslots, p[: rng.randint(0, len(dims))]])
            nslots += 1
        elif x < 0.94:
            ops.append(["eq", path(), rng.choice([0, 1, 2, "inf", "-inf", -1]), rng.sample([1, 2, 3], rng.randint(0, 2))])
        elif x < 0.96:
            ops.append(["eqcell", path(), path()])
        else:
            ops.append(["combine", path(), path(), rng.choice(["sum", "sum", "rej_none", "rej_inf", "untag"])])
    case = {"kind": "table", "dims": dims, "merge": m, "retain": r, "ops": ops}
    if (m, r) == ("min", "none") and rng.random() < 0.5:
        case["ctor"] = "defaults"
    return case


CORPUS_TABLE = [
    # the three confirmed seeds of C16, through the table API
    {"kind": "table", "dims": ["d", 2], "merge": "min", "retain": "all",
     "ops": [["set", ["s0", 1], [2, 1]], ["set", ["s0", -1], [1, None]], ["infos", ["s0", 1]]]},
    {"kind": "table", "dims": [2], "merge": "min", "retain": "none",
     "ops": [["set", [0], [1, 1]], ["set", [0], [1, 2]], ["infos", [0]], ["len", [0]]]},
    {"kind": "table", "dims": ["d"], "merge": "min", "retain": "any",
     "ops": [["set", ["s0"], [1, 1]], ["update", ["s0"], [[0, None], [0, 2]]], ["infos", ["s0"]], ["iter", ["s0"]]]},
    # reads create dictionary keys; erroring operations keep the keys they created on the way
    {"kind": "table", "dims": ["d", 2], "merge": "min", "retain": "all",
     "ops": [["value", ["s0", 1]], ["keys", []], ["set", ["s1", 7], [0, 1]], ["keys", []],
             ["set", ["s2", 7], ["inf", 1]], ["keys", []], ["contains", [], "s2"]]},
    # a proxy kept across writes is a live view
    {"kind": "table", "dims": ["d", "d"], "merge": "max", "retain": "all",
     "ops": [["hold", 0, ["s0", "s1"]], ["value", {"slot": 0, "ks": []}], ["set", ["s0", "s1"], [2, 1]],
             ["value", {"slot": 0, "ks": []}], ["hold", 1, ["s0"]], ["set", {"slot": 1, "ks": ["s1"]}, [2, 2]],
             ["infos", {"slot": 0, "ks": []}], ["combine", ["s0", "s1"], {"slot": 0, "ks": []}, "rej_none"],
             ["combine", ["s0", "s1"], ["s0", "s1"], "rej_inf"]]},
]


def nontrivial(case, compiled):
    cells, writes = set(), {}
    for op in compiled:
        a = norm(case["dims"], op[1])
        if a is None:
            continue
        cells.add(a)
        if op[0] in ("set", "update"):
            batch = [op[2]] if op[0] == "set" else op[2]
            if any(dec(c[0]) not in (inf, -inf) for c in batch):
                writes[a] = writes.get(a, 0) + 1
    return len(cells) >= 2 and any(n >= 2 for n in writes.values())


# ---------------------------------------------------------------------------
# checking, minimising


def judge(ctx, case):
    """('violation', i, text) | ('mismatch', i, (impl, model)) | None, for one case."""
    outs, compiled = run_impl(case)
    bad = spec_check(case, compiled, outs)
    if bad:
        return ("violation", bad[0], bad[1])
    mouts = ctx.driver.batch([lean_req(case, compiled)])[0]
    mall = ctx.driver.batch([lean_req(case, compiled, "all")])[0] if case["retain"] == "any" else None
    i = compare(case, compiled, outs, mouts, mall)
    if i is not None:
        return ("mismatch", i, (outs[i] if i < len(outs) else None, mouts[i] if i < len(mouts) else None))
    return None


def minimise(ctx, case, kind):
    """Greedy reduction of a failing case to a short operation sequence (same kind of failure)."""
    def fails(c):
        try:
            j = judge(ctx, c)
        except Exception:
            return False
        return j is not None and j[0] == kind

    cur = dict(case)
    j = judge(ctx, cur)
    if j is not None:
        cur["ops"] = cur["ops"][: _orig_index(cur, j[1]) + 1]
    changed = True
    while changed:
        changed = False
        i = 0
        while i < len(cur["ops"]):
            c = dict(cur, ops=cur["ops"][:i] + cur["ops"][i + 1:])
            if c["ops"] and fails(c):
                cur, changed = c, True
            else:
                i += 1
        for i, op in enumerate(cur["ops"]):
            if op[0] == "update":
                k = 0
                while k < len(cur["ops"][i][2]):
                    b = cur["ops"][i][2]
                    op2 = ["update", op[1], b[:k] + b[k + 1:]]
                    c = dict(cur, ops=cur["ops"][:i] + [op2] + cur["ops"][i + 1:])
                    if fails(c):
                        cur, changed = c, True
                    else:
                        k += 1
            # a kept proxy replaced by its chain
            if op[0] != "hold" and isinstance(op[1], dict):
                _, comp = run_impl(dict(cur, ops=cur["ops"][: i + 1]))
                if comp:
                    c = dict(cur, ops=cur["ops"][:i] + [[op[0], comp[-1][1]] + list(op[2:])] + cur["ops"][i + 1:])
                    if c != cur and fails(c):
                        cur, changed = c, True
    return cur


def _orig_index(case, ci):
    """Index in case['ops'] of the ci-th COMPILED operation (operations on unset slots are dropped)."""
    n = -1
    for i in range(len(case["ops"])):
        _, comp = run_impl(dict(case, ops=case["ops"][: i + 1]))
        if len(comp) - 1 >= ci:
            return i
    return len(case["ops"]) - 1


def render(case):
    """The case as Python source, one operation per line (for the replay / the report)."""
    def ch(path):
        if isinstance(path, dict):
            return f"p{path['slot']}" + "".join(f"[{k!r}]" for k in path["ks"])
        return "t" + "".join(f"[{k!r}]" for k in path)

    def cd(c):
        v = {"inf": "inf", "-inf": "-inf"}.get(c[0], c[0])
        return f"Candidate({v}, {c[1]})"

    dims = ", ".join("DictDimension()" if d == "d" else f"ListDimension({d})" for d in case["dims"])
    lines = [f"t = Table([{dims}], MergePolicy.{case['merge'].upper()}, RetentionPolicy.{case['retain'].upper()})"]
    for op in case["ops"]:
        n = op[0]
        if n == "hold":
            lines.append(f"p{op[1]} = {ch(op[2])}")
        elif n == "index":
            lines.append(ch(op[1]))
        elif n == "set":
            lines.append(f"{ch(op[1])} = {cd(op[2])}")
        elif n == "update":
            lines.append(f"{ch(op[1])}.update({', '.join(cd(c) for c in op[2])})")
        elif n in ("value", "infos", "info", "keys"):
            lines.append(f"{ch(op[1])}.{n}()")
        elif n == "isinf":
            lines.append(f"{ch(op[1])}.is_infinite()")
        elif n == "len":
            lines.append(f"len({ch(op[1])})")
        elif n == "iter":
            lines.append(f"list({ch(op[1])})")
        elif n == "contains":
            lines.append(f"{op[2]!r} in {ch(op[1])}")
        elif n == "eq":
            lines.append(f"{ch(op[1])} == Entry({op[2]}, {op[3]})")
        elif n == "eqcell":
            lines.append(f"{ch(op[1])} == {ch(op[2])}")
        elif n == "combine":
            lines.append(f"{ch(op[1])}.combine({ch(op[2])}, {op[3]})")
    return lines


def check_cases(ctx, res, cases):
    runs = [run_impl(c) for c in cases]
    mouts = ctx.driver.parallel([lean_req(c, comp) for c, (_, comp) in zip(cases, runs)])
    # 'any': the same history under 'all' gives the tags among which the implementation may choose
    anyi = [k for k, c in enumerate(cases) if c["retain"] == "any"]
    malls = dict(zip(anyi, ctx.driver.parallel([lean_req(cases[k], runs[k][1], "all") for k in anyi])))
    for k, (case, (outs, compiled), mo) in enumerate(zip(cases, runs, mouts)):
        res.case(case, nontrivial(case, compiled))
        res.dist[f"table/{len(case['dims'])}d/{case['merge']}/{case['retain']}"] += 1
        bad = spec_check(case, compiled, outs)
        if bad:
            # the first few are minimised to a short operation sequence, the rest only counted
            if len(res.concrete) < 3:
                small = minimise(ctx, case, "violation")
                souts, scomp = run_impl(small)
                sbad = spec_check(small, scomp, souts) or bad
                res.violation("table: " + sbad[1], small, observed={"outputs": souts, "program": render(small)})
            else:
                res.violation("table: " + bad[1], case, observed={"outputs": outs, "program": render(case)})
            continue
        i = compare(case, compiled, outs, mo, malls.get(k))
        if i is not None:
            if len(res.mismatch) < 3:
                small = minimise(ctx, case, "mismatch")
                souts, scomp = run_impl(small)
                smo = ctx.driver.batch([lean_req(small, scomp)])[0]
                res.tie_broken("Table model vs implementation (operation sequence, first differing output)",
                               dict(small, program=render(small)), [canon_model(o) for o in smo], souts)
            else:
                res.tie_broken("Table model vs implementation (operation sequence, first differing output)",
                               dict(case, program=render(case)), [canon_model(o) for o in mo], outs)


# ---------------------------------------------------------------------------
# standalone entries: Entry(value, infos, m, r), every observer, combine with rejecting combinators


def build_entry(spec):
    m, r = MERGES[spec["merge"]], RETAINS[spec["retain"]]
    ctor = spec.get("ctor")
    if ctor == "table":       # Table.entry() / Table.entry(value, infos): the table's policies
        t = RealTable([ListDimension(1)], m, r)
        e = t.entry(dec(spec["value"]), list(spec["infos"])) if "value" in spec else t.entry()
    elif ctor == "defaults":  # Entry(value, infos): MIN / NONE
        assert (spec["merge"], spec["retain"]) == ("min", "none") and "value" in spec
        e = Entry(dec(spec["value"]), list(spec["infos"]))
    else:
        e = Entry(dec(spec["value"]), list(spec["infos"]), m, r) if "value" in spec else Entry(m, r)
    for b in spec["batches"]:
        e.update(*[cand(c) for c in b])
    return e


def run_entry_api(case):
    try:
        if case["kind"] == "entry_api":
            e = build_entry(case)
            if any(e == x or x == e for x in NON_ENTRIES):
                return {"err": "EqualToNonEntry"}  # reported as a difference with the model
            return {"value": enc(e.value()), "infos": sorted(e.infos()), "info": e.info(), "len": len(e),
                    "inf": bool(e.is_infinite()),
                    "iter": sorted(([enc(c.value), c.info] for c in e), key=lambda c: c[1]),
                    "eq": bool(e == Entry(dec(case["eq"][0]), list(case["eq"][1])))}
        ea, eb = build_entry(case["a"]), build_entry(case["b"])
        e = ea.combine(eb, combinator(case["comb"], case["a"]["merge"]))
        return {"value": enc(e.value()), "infos": sorted(e.infos())}
    except Exception as e:
        return err_of(e)


def entry_api_bad(c, io):
    """The observers of a standalone entry are consistent with one another (iter / info / len / ==)."""
    if c["kind"] != "entry_api" or "err" in io:
        return False
    tags = io["infos"]
    want_eq = io["value"] == c["eq"][0] and tags == sorted(set(c["eq"][1]))
    return ((io["info"] not in tags if tags else io["info"] is not None) or io["len"] != len(tags)
            or io["iter"] != [[io["value"], t] for t in tags] or io["eq"] != want_eq
            or io["inf"] != (io["value"] in ("inf", "-inf")))


def rand_entry_spec(rng, m, r, finite_only=False):
    bad = "inf" if m == "min" else "-inf"
    vals = [0, 1, 2, bad] if finite_only else [0, 1, 2, "inf", "-inf"]
    spec = {"merge": m, "retain": r, "batches": [
        [[rng.choice(vals), rng.choice([None, 1, 2, 3])] for _ in range(rng.randint(0, 3))]
        for _ in range(rng.randint(0, 2))]}
    if rng.random() < 0.5:
        spec["value"] = rng.choice(vals)
        # (under 'any' the iteration order of a multi-tag set matters to combine: compared by membership)
        spec["infos"] = rng.sample([1, 2, 3, 1], rng.randint(0, 4))
        if r == "any" and len(set(spec["infos"])) > 1:
            # what `update` does to an ANY entry CONSTRUCTED with several tags is outside the property
            # (a conforming variant may shrink the set): such an entry is only observed / combined
            spec["batches"] = []
        if (m, r) == ("min", "none") and rng.random() < 0.4:
            spec["ctor"] = "defaults"
    if "ctor" not in spec and rng.random() < 0.3:
        spec["ctor"] = "table"
    return spec


def check_entry_api(ctx, res, n):
    rng = ctx.rng
    cases = []
    for _ in range(n):
        m, r = rng.choice(["min", "max"]), rng.choice(["all", "any", "none"])
        if rng.random() < 0.5:
            c = dict(rand_entry_spec(rng, m, r), kind="entry_api",
                     eq=[rng.choice([0, 1, 2, "inf"]), rng.sample([1, 2, 3], rng.randint(0, 2))])
        else:
            c = {"kind": "combine_api", "a": rand_entry_spec(rng, m, r, True), "b": rand_entry_spec(rng, m, r, True),
                 "comb": rng.choice(["sum", "rej_none", "rej_inf", "untag"])}
        cases.append(c)
    def is_any(c):
        return (c.get("a") or c)["retain"] == "any"

    def any_operands(c):
        # under 'any' the result may carry the tag of ANY optimal pair (set iteration order): the model
        # is given the implementation's own operands, under 'all', and the result compared by membership
        def spec(s):
            e = build_entry(s)
            return {"merge": s["merge"], "retain": "all", "value": enc(e.value()),
                    "infos": sorted(e.infos()), "batches": []}
        return dict(c, a=spec(c["a"]), b=spec(c["b"]))

    reqs = [dict(c, op="c16t_entry") if c["kind"] == "entry_api"
            else dict(any_operands(c) if is_any(c) else c, op="c16t_combine") for c in cases]
    mouts = ctx.driver.parallel(reqs)
    anyi = [k for k, c in enumerate(cases) if c["kind"] == "entry_api" and is_any(c)]
    malls = dict(zip(anyi, ctx.driver.parallel([dict(cases[k], op="c16t_entry", retain="all") for k in anyi])))
    for k, (c, mo) in enumerate(zip(cases, mouts)):
        io = run_entry_api(c)
        res.case(c, nontrivial=bool(c.get("infos") or c.get("a", {}).get("batches")))
        res.dist[f"{c['kind']}/{(c.get('a') or c)['retain']}"] += 1
        if "err" not in mo:
            mo = dict(mo, infos=sorted(mo["infos"]))
            if "iter" in mo:
                mo["iter"] = sorted(mo["iter"], key=lambda x: x[1])
        if entry_api_bad(c, io):
            res.violation("entry observers disagree with value()/infos()", c, observed=io)
            continue
        if c["kind"] == "combine_api" and is_any(c) and "err" not in io and "err" not in mo:
            # `mo` is the combination under 'all' of the implementation's own operands
            same = (io["value"] == mo["value"] and len(io["infos"]) == min(1, len(mo["infos"]))
                    and set(io["infos"]) <= set(mo["infos"]))
        elif k in malls and "err" not in io and "err" not in mo and "err" not in malls[k]:
            # 'any': same value / number of tags, the kept tag among the tags kept under 'all'
            # (info / iter / == are tied to infos() by entry_api_bad)
            same = (io["value"] == mo["value"] and io["len"] == mo["len"] and io["inf"] == mo["inf"]
                    and set(io["infos"]) <= set(malls[k]["infos"]))
        else:
            # WHICH retained tag info() returns is free (entry_api_bad has checked that it is one of infos())
            same = ({k: v for k, v in io.items() if k != "info"} == {k: v for k, v in mo.items() if k != "info"}
                    and (io.get("info") is None) == (mo.get("info") is None))
            if "info" in io and io.get("info") != mo.get("info"):
                res.dist["entry_api/info()-is-not-the-least-tag"] += 1
        if not same:
            res.tie_broken("Entry API model vs implementation", c, mo, io)


def corpus_table(ctx, res):
    check_cases(ctx, res, CORPUS_TABLE)


def run_table(ctx, res):
    """Entry point, to be called from c16.run(ctx, res)."""
    def flush(batch):
        # once the reports are full there is nothing to add
        if len(res.concrete) < 50 and len(res.mismatch) < 50:
            check_cases(ctx, res, batch)

    batch = []
    for case in gen_exhaustive(ctx):
        batch.append(case)
        if len(batch) >= 20000:
            flush(batch)
            batch = []
    for _ in range(ctx.budget(6000, 120000)):
        batch.append(rand_case(ctx))
        if len(batch) >= 20000:
            flush(batch)
            batch = []
    flush(batch)
    check_entry_api(ctx, res, ctx.budget(3000, 40000))


def replay_table(ctx, data):
    case = data["input"]
    if case.get("kind") in ("entry_api", "combine_api"):
        io = run_entry_api(case)
        bad = entry_api_bad(case, io)
        return (not bad, f"impl={io} verdict={'observers disagree' if bad else 'ok'}")
    outs, compiled = run_impl(case)
    bad = spec_check(case, compiled, outs)
    return (bad is None, "\n".join(render(case)) + f"\nimpl={outs}\nverdict={'ok' if bad is None else bad[1]}")
