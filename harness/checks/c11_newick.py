"""C11 (Newick codec) — correspondence of lean/SRVerif/Model/Newick.lean with ete3 as superrec2 calls it.

`run_newick(ctx, res)` is called by c11.run; `replay_newick(ctx, data)` by c11.replay for the cases whose
`origin` starts with "newick".

Writer: the string is taken from `ReconciliationInput.to_dict()["object_tree"]` (so the package's own
`tree.write(format=8, format_root_node=True, features=["color"])` is what runs) and compared byte for byte
with `Newick.write`.  Reader: `ReconciliationInput.from_dict({...})` (the package's `Tree(s, format=1)`) is
compared with `Newick.read`: topology, child order, names, branch lengths, every NHX feature; exceptions are
mapped to their class name.
"""
import contextlib
import io
import os
import re

from ete3 import Tree

from superrec2.model.reconciliation import ReconciliationInput
from superrec2.utils.trees import LowestCommonAncestor

# Generators ---------------------------------------------------------------

WORD = "abcxyzABXY0123_"
TRICKY = ["NoName", "inf", "nan", "O0", "S1", "0", "12", "1e5", "_", "__", "a_1", "None", "NHX", "color",
          "e", "E5", "007", "x_"]
# names at (and beyond) the boundary of what reads back (U+0085, U+2028, U+2029 are left to check_tables: the
# driver's answers are cut with str.splitlines)
ODD_NAMES = ["", " ", "a b", " a", "a ", "a  b", "a&b", "&&NHX", "a'b", '"q"', "a.b", "a-b", "+1", "1.5", "-2e3",
             "a:b", "a;b", "a(b", "a)b", "a,b", "a[b", "a]b", "a=b", "a\tb", "a\nb", "a\rb", "\ta", "[&&NHX:x=y]",
             "a\x0bb", "\x0ba", "a\x0c", "a\x1cb", "a\x1f", "\u00e9t\u00e9", "a\u00a0b", "\u00a0a", "a\u00a0",
             "\u3000", "a\u2003b", "a\u2003", "#", "a/b", "a\\b", "%s", "{}", "a\x00b", "\x7f", "NoName "]
ODD_COLOURS = ["", " ", "a b", " red", "red ", "#ff0000", "rgb(1,2,3)", "a:b", "a=b", "a;b", "[x]", "a,b", "a]b",
               "\u00e9", "a\tb", "a\nb", "[&&NHX:", "&&", "0.5", "\u00a0", "a\x0bb"]
COLOURS = ["red", "0000FF", "blue", "12", "0", "1e3", "c_1", "Dark_Green", "ff8800", "_"]
KEYS = ["color", "c", "x", "k1", "S", "B", "colour", "color "]
READ_ALPHABET = "(),:;[]&=NHX ab1_.+-eE5\t\n"

SAFE_WORD = re.compile(r"[A-Za-z0-9_.\-]+\Z")
ILLEGAL = set(":;(),[]\t\n\r=")


def safe_name(n):
    """Python restatement of `SR.Newick.safeName` (Model/Newick.lean), compared with it on every tree."""
    return n != "" and not (set(n) & ILLEGAL) and not n[0].isspace() and not n[-1].isspace()


def safe_value(v):
    return not (set(v) & ILLEGAL)


def nodes_of(nt):
    yield nt
    for k in nt["k"]:
        yield from nodes_of(k)


def safe_tree(nt):
    return all(safe_name(x["n"]) and (x["c"] is None or safe_value(x["c"])) for x in nodes_of(nt))


def word_tree(nt):
    return all(SAFE_WORD.match(x["n"]) and (x["c"] is None or SAFE_WORD.match(x["c"])) for x in nodes_of(nt))


_TREES = {}


def ordered_trees(n):
    """All ordered rooted trees with exactly n nodes (a tree is the list of its children)."""
    if n not in _TREES:
        _TREES[n] = list(_forests(n - 1))
    return _TREES[n]


def _forests(m):
    if m == 0:
        yield []
        return
    for k in range(1, m + 1):
        for first in ordered_trees(k):
            for rest in _forests(m - k):
                yield [first] + rest


_MULTI = {}


def multi_shapes(leaves):
    """All ordered trees with the given number of leaves and no unary node."""
    if leaves not in _MULTI:
        if leaves == 1:
            _MULTI[leaves] = [[]]
        else:
            _MULTI[leaves] = [[first] + rest for k in range(1, leaves) for first in multi_shapes(k)
                              for rest in _multi_forests(leaves - k)]
    return _MULTI[leaves]


def _multi_forests(leaves):
    """Non-empty sequences of such trees with the given total number of leaves."""
    out = []
    for k in range(1, leaves + 1):
        for first in multi_shapes(k):
            if k == leaves:
                out.append([first])
            else:
                out += [[first] + rest for rest in _multi_forests(leaves - k)]
    return out


def rand_tree_shape(rng, nodes):
    """Random ordered tree with the given number of nodes (unary and multifurcating nodes included)."""
    if nodes == 1:
        return []
    rest = nodes - 1
    kids = []
    while rest > 0:
        k = rng.randint(1, rest) if rng.random() < 0.6 else 1
        kids.append(rand_tree_shape(rng, k))
        rest -= k
    return kids


def unique_word(rng, used):
    while True:
        nm = rng.choice(TRICKY) if rng.random() < 0.2 else "".join(
            rng.choice(WORD) for _ in range(rng.randint(1, 6)))
        if nm not in used:
            used.add(nm)
            return nm


def label(rng, shape, used, p_col, odd=0.0):
    if odd and rng.random() < odd:
        nm = rng.choice(ODD_NAMES)
    else:
        nm = unique_word(rng, used)
    col = None
    if rng.random() < p_col:
        col = rng.choice(ODD_COLOURS) if odd and rng.random() < 0.5 else rng.choice(COLOURS)
    return {"n": nm, "c": col, "k": [label(rng, s, used, p_col, odd) for s in shape]}


# Real code ------------------------------------------------------------------


def build_tree(nt):
    node = Tree()
    node.name = nt["n"]
    if nt.get("c") is not None:
        node.add_feature("color", nt["c"])
    for k in nt["k"]:
        node.add_child(build_tree(k))
    return node


def real_write(nt):
    """The object-tree string of the package's own to_dict()."""
    t = build_tree(nt)
    x = ReconciliationInput(object_tree=t, species_lca=LowestCommonAncestor(Tree(name="s")),
                            leaf_object_species={}, costs={})
    return x.to_dict()["object_tree"]


def real_read(s):
    """The object tree of the package's own from_dict()."""
    with contextlib.redirect_stderr(io.StringIO()):
        x = ReconciliationInput.from_dict(
            {"object_tree": s, "species_tree": "s;", "leaf_object_species": {}, "costs": {}})
    return x.object_tree


BASIC = {"name", "dist", "support"}


def describe_read(node):
    return {"n": node.name, "d": float(node.dist),
            "f": sorted([k, getattr(node, k)] for k in node.features - BASIC),
            "k": [describe_read(c) for c in node.children]}


def describe_nt(node):
    return {"n": node.name, "c": getattr(node, "color", None), "k": [describe_nt(c) for c in node.children]}


def model_read_view(rt, root=True):
    """The model's tree in the rendering of describe_read (default branch lengths are ete3's)."""
    d = float(rt["d"]) if rt["d"] is not None else (0.0 if root else 1.0)
    return {"n": rt["n"], "d": d, "f": sorted(rt["f"]), "k": [model_read_view(k, False) for k in rt["k"]]}


def real_read_species(s):
    """The species tree of the package's own from_dict() (a separate `Tree(s, format=1)` call in the source)."""
    with contextlib.redirect_stderr(io.StringIO()):
        x = ReconciliationInput.from_dict(
            {"object_tree": "o;", "species_tree": s, "leaf_object_species": {}, "costs": {}})
    return x.species_lca.tree


def guarded_read(s):
    """Outcome of reading `s` as the object tree; when reading it as the SPECIES tree gives another outcome (the two
    trees are parsed by two calls), the pair is returned, which equals no model answer."""
    outs = []
    for reader in (real_read, real_read_species):
        try:
            outs.append({"ok": describe_read(reader(s))})
        except Exception as e:  # noqa
            outs.append({"err": type(e).__name__})
    return outs[0] if outs[0] == outs[1] else {"object_tree": outs[0], "species_tree": outs[1]}


def names_a_file(s):
    try:
        return os.path.exists(s) or os.path.exists(s.strip())
    except ValueError:
        return False


# Reader inputs ---------------------------------------------------------------

READ_CORPUS = [
    "a;", ";", "(a,b);", "(a,b)c;", "((a)b)c;", "(a),(b);", "(a));(b;", "(a),;", "()a;", "(a,,b);", "(a b, c)d;",
    "( a , b ) c ;", "(a:1,b:2e5)c:3[&&NHX:color=red];", "(a[&&NHX:color=x:y=z],b);", "(a[&&NHX:],b);",
    "(a[&&NHX:k=[&&NHX:v],b);", "(a[b],c);", "(a[&&NHX:x=1] ,b);", "(a:1e,b);", "(a: 1 ,b);", "a[&&NHX:color=];",
    "[&&NHX:color=r];", ":3;", "(a,b):3;", "(a,b)[&&NHX:c=d];", "a(b);", "(a,b)", "x", "", " ", "(a;,b);", "(a,b);;",
    "(a,b)c;;", "(a,b);x;", "(a,(b,c)d;)e;", "((a,b)c;,d)e;", "(a,b)c d;", "(a&b,c'd\")e;", "(a,b) ;",
    "(a\tb,c\nd);", "(a=b,c);", "(a,b)c[&&NHX:color=a b];", "(a,b)c[&&NHX:color= a];", "(a,(b);", "(a))(b;",
    "(a)x)(b;", "(a);)(b;", "((a),b));(c;", "(a:.5,b);", "(a:+1.,b:-2.5E-3);", "(a:1[&&NHX:x=y]z,b);",
    "(a[&&NHX:x=y][&&NHX:u=v],b);", "(a[&&NHX:x=y=z],b);", "(a]b,c);", "(a,b)c:1;", "(a,b)c: 1 [&&NHX:x=y] ;",
    "(a,b[&&NHX:x=(y)]);", "(a,b[&&NHX:x=y,z]);", "(a\x0bb,c);", "(\x0ba,c);", "(a\x1c,c);", "a;;", " (a,b)c; \n",
    "\n(a,b);", "(a,b)c ; ", "((a,b)c,(d)e,f)g[&&NHX:color=1];", "(a[&&NHX:color=x:color=y],b);", "(a,b));", "((a,b);",
    "(a)b)c;(", "(;);", "(a,b);)(", "(a,b)c;)d(;", "(a) b ;  ,c);", "(a)b; ,(c);", "(a):1:2;", "(a:1:2,b);",
    "(a: 1e+05 [&&NHX:x=y],b :2);", "(a :1,b);", "(a b:1,b);", "(a[&&NHX:x=y]:1,b);", "(a[&&NHX:x=y,b);",
    "(a[&&NHX:x;y=1],b);", "(a[&&NHX:x=y] z,b);", "(a[&&nhx:x=y],b);", "(a[&NHX:x=y],b);", "a[&&NHX:color=red];",
    "NoName;", "(NoName,NoName)NoName;", "(a,b)c[&&NHX:color=];", "(a,b)[&&NHX:=v];", "(a , (b , c) d , e) f;",
    "((((a)b)c)d)e;", "(((((a)))));", "(a,b,c,d,e,f,g)h;", "(a)(b);", "(a)b(c)d;", "(a,)b;", "(,a)b;", "(a,b),c;",
    "(a:1.5.2,b);", "(a:1e5e5,b);", "(a:--1,b);", "(a:1 2,b);", "(a:,b);", "(a,b)c[&&NHX:k=v]  ;  ",
]


def rand_atom(rng, wild):
    """Name, optional branch length, optional comment; `wild` allows ill-formed parts."""
    nm = rng.choice(["a", "b", "c1", "x_y", "NoName", "a b", "e", "1", "k", "zz"] + (["", ""] if wild else []))
    out = nm
    if rng.random() < 0.3:
        good = ["1", "0.5", "2e5", "1.", "-3", "+1e-2", " 7 ", "1E+3", "0", "12.25"]
        out += rng.choice(["", "", " "]) + ":" + rng.choice(good + ([("1e"), ".5", "x", "", "1 2"] if wild else []))
    if rng.random() < 0.35:
        fields = []
        for _ in range(rng.randint(1, 3) if not wild else rng.randint(0, 3)):
            eq = rng.choice(["=", "=", "=", "=", "", "=="]) if wild else "="
            fields.append(rng.choice(KEYS) + eq + rng.choice(COLOURS + ["", "a b", " v", "[&&NHX:w"]))
        out += rng.choice(["", "", " "]) + "[&&NHX:" + ":".join(fields) + "]"
    return out


def rand_newick(rng, wild, depth=0):
    """A string of the dialect the reader accepts (names, lengths, comments, spaces, nameless nodes)."""
    if depth > 3 or rng.random() < 0.35:
        return rand_atom(rng, wild) or "a"
    sp = lambda: rng.choice(["", "", "", " "])  # noqa
    kids = [rand_newick(rng, wild, depth + 1) for _ in range(rng.randint(1, 4))]
    tail = rand_atom(rng, wild) if rng.random() < 0.8 else ""
    return "(" + sp() + ("," + sp()).join(kids) + sp() + ")" + tail


def rand_parens(rng):
    """Starts with "(", ends with ";", as many "(" as ")": passes the reader's preliminary tests, so that the
    chunk test, the empty-leaf test and the None-parent AttributeErrors are all reached."""
    body = [rng.choice(["(", ")", ")", ",", "a", "b", ";", "a", ""]) for _ in range(rng.randint(0, 9))]
    s = "(" + "".join(body)
    diff = s.count("(") - s.count(")")
    for _ in range(abs(diff)):
        pos = rng.randint(1, len(s))
        s = s[:pos] + (")" if diff > 0 else "(") + s[pos:]
    return s + ";"


def mutate(rng, s):
    s = list(s)
    for _ in range(rng.choice([1, 1, 1, 2, 3])):
        op = rng.random()
        pos = rng.randint(0, len(s))
        if op < 0.4 and s:
            del s[min(pos, len(s) - 1)]
        elif op < 0.8:
            s.insert(pos, rng.choice(READ_ALPHABET))
        elif s:
            s[min(pos, len(s) - 1)] = rng.choice(READ_ALPHABET)
    return "".join(s)


# The checks ------------------------------------------------------------------


def check_trees(ctx, res, trees):
    """trees: list of (origin, nt).  Writer byte for byte, reader on the written string, round trip."""
    reqs = [{"op": "c11n_write", "tree": nt} for _, nt in trees]
    outs = ctx.driver.parallel(reqs)
    reads = []
    for (origin, nt), out in zip(trees, outs):
        case = {"origin": "newick:" + origin, "tree": nt}
        n_nodes = sum(1 for _ in nodes_of(nt))
        res.case(case, nontrivial=n_nodes >= 3 or any(x["c"] is not None for x in nodes_of(nt)))
        res.dist[f"newick/{origin}/{'safe' if safe_tree(nt) else 'unsafe'}"] += 1
        if out["safe"] != safe_tree(nt):
            res.tie_broken("Newick.safeTree vs its restatement safe_tree", case, out["safe"], safe_tree(nt))
        s = real_write(nt)
        back = guarded_read(s)
        same = "ok" in back and describe_nt_from_read(back["ok"]) == nt
        if word_tree(nt) and not same:
            # the property itself, on the name domain it quantifies over
            res.violation("Newick round trip: the tree written by to_dict() does not read back", case,
                          expected=nt, observed={"written": s, "read": back})
            continue
        if s != out["s"]:
            res.tie_broken("c11n_write: Newick.write vs to_dict()['object_tree']", case, out["s"], s)
            continue
        if safe_tree(nt) and not out["same"]:
            res.tie_broken("C11_newick_roundtrip evaluated by the model on a tree with safe names", case,
                           out["back"], nt)
        if same != out["same"]:
            res.tie_broken("round trip outcome (same tree or not): model vs ete3", case, out["same"], same)
        if word_tree(nt) and not out["legacy"]:
            res.tie_broken("Newick.write vs Serialize.writeNewick on word names", case, out["s"], None)
        reads.append((case, s, back))
    compare_reads(ctx, res, reads)


def describe_nt_from_read(d):
    col = dict(map(tuple, d["f"])).get("color")
    return {"n": d["n"], "c": col, "k": [describe_nt_from_read(k) for k in d["k"]]}


def compare_reads(ctx, res, reads):
    """reads: list of (case, string, real outcome)."""
    outs = ctx.driver.parallel([{"op": "c11n_read", "s": s} for _, s, _ in reads])
    for (case, s, impl), model in zip(reads, outs):
        view = {"ok": model_read_view(model["ok"])} if "ok" in model else model
        if view != impl:
            res.tie_broken("c11n_read: Newick.read vs Tree(s, format=1) (from_dict)", {"s": s, **case}, view, impl)


def check_strings(ctx, res, strings):
    reads = []
    for origin, s in strings:
        if names_a_file(s):
            res.dist["newick/read/skipped-names-a-file"] += 1
            continue
        impl = guarded_read(s)
        case = {"origin": "newick:" + origin, "s": s}
        res.case(case, nontrivial="ok" in impl and bool(impl["ok"]["k"]))
        res.dist[f"newick/{origin}/" + ("ok" if "ok" in impl else impl.get("err", "object and species tree differ"))] += 1
        reads.append((case, s, impl))
    compare_reads(ctx, res, reads)


def check_tables(ctx, res):
    """White space and the branch-length expression."""
    hi = 0x110000
    model = ctx.driver.batch([{"op": "c11n_spaces", "hi": hi}])[0]
    ws = re.compile(r"\s")
    impl = [c for c in range(hi) if chr(c).isspace()]
    impl_re = [c for c in range(hi) if ws.match(chr(c))]
    res.evaluations += 1
    if model != impl or model != impl_re:
        res.tie_broken("isSpace vs str.isspace / regex \\s", {"op": "c11n_spaces"},
                       sorted(set(model) ^ set(impl))[:20], sorted(set(impl) ^ set(impl_re))[:20])
    rng = ctx.rng
    fl = re.compile(r"[+-]?\d+\.?\d*(?:[eE][-+]?\d+)?")
    texts = ["", "1", "+", "1.", ".1", "1.5", "1e5", "1e", "1e+", "1E-5", "--1", "+1.5e+10", "1.5.5", "e5", "1ee5",
             "1.e5", "1 ", " 1", "12345678901234567890", "-0", "+.", "1e5.", "1e5e", "0x10", "1_0"]
    for _ in range(ctx.budget(400, 4000)):
        texts.append("".join(rng.choice("0123456789+-.eE") for _ in range(rng.randint(0, 6))))
    model = ctx.driver.batch([{"op": "c11n_float", "l": texts}])[0]
    impl = [bool(fl.fullmatch(t)) for t in texts]
    res.evaluations += len(texts)
    if model != impl:
        bad = [t for t, a, b in zip(texts, model, impl) if a != b]
        res.tie_broken("isFloat vs the branch-length regular expression", {"op": "c11n_float"}, bad[:10], None)


def run_newick(ctx, res):
    rng = ctx.rng
    check_tables(ctx, res)
    trees = []
    # bounded exhaustive: every ordered tree with <= 7 (thorough 9) nodes -- unary nodes included, hence every
    # shape with <= 6 leaves on that many nodes -- and every multifurcating shape without unary node, <= 6 leaves
    for n in range(1, ctx.budget(7, 9) + 1):
        for shape in ordered_trees(n):
            trees.append((f"all-{n}-nodes", label(rng, shape, set(), 0.3)))
    for leaves in range(1, 7):
        for shape in multi_shapes(leaves):
            trees.append((f"multi-{leaves}-leaves", label(rng, shape, set(), 0.3)))
    for _ in range(ctx.budget(1500, 15000)):
        shape = rand_tree_shape(rng, rng.randint(1, 30))
        trees.append(("random", label(rng, shape, set(), rng.choice([0.0, 0.2, 0.6, 1.0]))))
    # names and colours at the boundary (escaped by the writer, white space, non-ASCII, empty)
    for nm in ODD_NAMES:
        trees.append(("odd", {"n": nm, "c": None, "k": []}))
        trees.append(("odd", {"n": "r", "c": None, "k": [{"n": nm, "c": None, "k": []}, {"n": "z", "c": None, "k": []}]}))
        trees.append(("odd", {"n": nm, "c": "red", "k": [{"n": "y", "c": None, "k": []}]}))
    for col in ODD_COLOURS:
        trees.append(("odd", {"n": "r", "c": col, "k": [{"n": "a", "c": col, "k": []}]}))
    for _ in range(ctx.budget(800, 8000)):
        shape = rand_tree_shape(rng, rng.randint(1, 10))
        trees.append(("odd", label(rng, shape, set(), 0.3, odd=0.3)))
    for i in range(0, len(trees), 4000):
        check_trees(ctx, res, trees[i: i + 4000])
    # the reader on its own: hand-made strings, grammar-generated strings, mutated strings
    strings = [("read-corpus", s) for s in READ_CORPUS]
    for _ in range(ctx.budget(1500, 15000)):
        wild = rng.random() < 0.3
        strings.append(("read-grammar", rand_newick(rng, wild) + rng.choice([";", ";", ";", ";", ";;", " ;"] + ([""] if wild else []))))
    for _ in range(ctx.budget(2500, 25000)):
        base = rand_newick(rng, False) + ";" if rng.random() < 0.5 else real_write(
            label(rng, rand_tree_shape(rng, rng.randint(1, 8)), set(), 0.3))
        strings.append(("read-mutated", mutate(rng, base)))
    for _ in range(ctx.budget(500, 5000)):
        strings.append(("read-noise", "".join(rng.choice("(),;ab:[]") for _ in range(rng.randint(0, 9)))))
    for _ in range(ctx.budget(1500, 15000)):
        strings.append(("read-parens", rand_parens(rng)))
    for i in range(0, len(strings), 5000):
        check_strings(ctx, res, strings[i: i + 5000])


def replay_newick(ctx, data):
    case = data["input"]
    if "tree" in case:
        nt = case["tree"]
        s = real_write(nt)
        back = guarded_read(s)
        ok = "ok" in back and describe_nt_from_read(back["ok"]) == nt
        return ok, f"Newick round trip of {nt!r}: written {s!r}, read back {'the same' if ok else back}"
    return True, "reader-only case: nothing to replay"
