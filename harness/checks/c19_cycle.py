"""C19 (extension) — `find_cycle` (utils/toposort.py:116-150): correspondence with the model
lean/SRVerif/Model/FindCycle.lean and a census of what the routine returns.

`find_cycle` is OUTSIDE the listed property C19 (whose anchors stop at toposort_all).  The natural claim
"None iff acyclic, otherwise a directed cycle" is false for the code (kernel-checked witnesses:
C19_find_cycle_not_sound / _not_complete / _not_a_cycle in Properties/C19Cycle.lean), so this helper
never calls res.violation, and a difference between code and model is a NOTE (find_cycle may be corrected or
rewritten without touching C19): it compares the code to the model by EXACT equality (the routine is deterministic
once the iteration order of each successor collection is fixed: the model is given exactly the order in
which Python iterates the collection that is passed), checks the proved statements on the real output
(shape, meaning of None, genuine-cycle criterion) and records in res.dist how often the routine flags a
DAG, misses a cycle, or returns a list that is no closed walk.

Use from c19.py:   from . import c19_cycle   …   c19_cycle.run_cycle(ctx, res)   at the end of run().
"""
import itertools

from superrec2.utils.toposort import find_cycle

RULE_CYCLE = (
    "find_cycle: every digraph on <= 3 vertices with self-loops (both dict insertion orders), a sample "
    "(quick) or all 65536 (thorough) digraphs on 4 vertices, random digraphs on 2-8 vertices (density "
    "0.05-0.7, a third forced acyclic, a third out-trees plus few extra edges), successors as lists or "
    "sets, int or str nodes, random labels and insertion order; malformed stream: empty graph, "
    "successors that are not keys, repeated successors in a list.  Compared: exact equality with the "
    "model; the proved statements (C19_find_cycle_shape / _none_iff / _genuine) re-evaluated in Python "
    "on the real output; the Lean specification IsCycle (op c19_is_cycle) against the Python restatement."
)
TRUSTED_CYCLE = [
    "model: lean/SRVerif/Model/FindCycle.lean (parents dict as association list, stack as list; the "
    "iteration order of each successor collection is an input of the model)",
    "spec: lean/SRVerif/Spec/FindCycle.lean (Arc, Chain, IsCycle, Acyclic, WalkTo, UniqueWalks); the "
    "Python restatements below (closed walk, acyclicity by transitive closure, unique walks by "
    "walk counting up to length 2n)",
]
OPEN_CYCLE = [
    "find_cycle is NOT a correct cycle finder (observation, outside the property): "
    "C19_find_cycle_not_sound, C19_find_cycle_not_complete, C19_find_cycle_not_a_cycle are theorems; "
    "the statement `find_cycle g = None <-> acyclic` is refuted (C19_find_cycle_none_iff_acyclic_false), "
    "the proved replacement is C19_find_cycle_none_iff (None <-> walks from the first key are unique)",
]


# ---------------------------------------------------------------------------
# case representation: {"kind": "cycle", "graph": [[v, [succ, ...]], ...], "nodes": "int"|"str",
#                       "succs": "list"|"set"}     (list order = dict insertion order)


def enc_node(v, nodes):
    return v if nodes == "int" else f"f{v}"


def dec_node(x):
    return x if isinstance(x, int) else int(x[1:])


def build_graph(case):
    nodes = case.get("nodes", "int")
    mk = set if case.get("succs", "list") == "set" else list
    return {enc_node(v, nodes): mk(enc_node(s, nodes) for s in ss) for v, ss in case["graph"]}


def iteration_view(g):
    """The graph as the code sees it: keys in dict order, successors in the order in which Python
    iterates the very collection objects that are passed to find_cycle."""
    return [[dec_node(k), [dec_node(s) for s in ss]] for k, ss in g.items()]


def run_impl(g):
    try:
        r = find_cycle(g)
    except Exception as e:  # noqa
        return {"err": type(e).__name__}
    return {"ok": None if r is None else [dec_node(x) for x in r]}


def well_formed(view):
    ks = [v for v, _ in view]
    kset = set(ks)
    return len(kset) == len(ks) and all(len(set(ss)) == len(ss) and set(ss) <= kset for _, ss in view)


# --- independent restatements of the specification -------------------------


def edges_of(view):
    return {(u, v) for u, ss in view for v in ss}


def is_cyclic(view):
    """Some vertex reaches itself (transitive closure)."""
    verts = [v for v, _ in view]
    reach = {v: set(ss) for v, ss in view}
    changed = True
    while changed:
        changed = False
        for v in verts:
            new = set()
            for w in reach[v]:
                new |= reach[w]
            if not new <= reach[v]:
                reach[v] |= new
                changed = True
    return any(v in reach[v] for v in verts)


def closed_walk(view, walk):
    """walk[0] -> walk[1] -> ... -> walk[-1] -> walk[0] are all edges."""
    e = edges_of(view)
    return len(walk) > 0 and all((walk[k], walk[(k + 1) % len(walk)]) in e for k in range(len(walk)))


def reachable_from_first(view):
    succ = dict((v, ss) for v, ss in view)
    seen, todo = {view[0][0]}, [view[0][0]]
    while todo:
        u = todo.pop()
        for w in succ[u]:
            if w not in seen:
                seen.add(w)
                todo.append(w)
    return seen


def unique_walks(view):
    """Every vertex is the end of at most one walk starting at the first key (walks of length <= 2n
    decide this: a second walk, if any, exists within that length)."""
    succ = dict((v, ss) for v, ss in view)
    n = len(view)
    cur = {view[0][0]: 1}
    total = dict(cur)
    for _ in range(2 * n):
        nxt = {}
        for u, c in cur.items():
            for w in succ[u]:
                nxt[w] = nxt.get(w, 0) + c
        for w, c in nxt.items():
            total[w] = total.get(w, 0) + c
        cur = nxt
        if any(c > 1 for c in total.values()):
            return False
    return True


def proved_statements(view, out):
    """The theorems of Properties/C19Cycle.lean, evaluated on the real output (well-formed, non-empty
    graph).  Returns None or a description of the first statement that fails."""
    if "err" in out:
        return f"raises {out['err']} on a well-formed non-empty graph (C19_find_cycle_total)"
    cyc = out["ok"]
    uw = unique_walks(view)
    if (cyc is None) != uw:
        return f"None-ness {cyc is None} but unique-walks-from-first-key is {uw} (C19_find_cycle_none_iff)"
    if cyc is None:
        return None
    e = edges_of(view)
    if not cyc:
        return "empty list returned (C19_find_cycle_shape)"
    if len(set(cyc)) != len(cyc):
        return "repeated vertex in the returned list (C19_find_cycle_shape)"
    if not all((b, a) in e for a, b in zip(cyc, cyc[1:])):
        return "consecutive elements a, b without edge b -> a (C19_find_cycle_shape)"
    if not set(cyc) <= reachable_from_first(view):
        return "vertex not reachable from the first key (C19_find_cycle_shape)"
    genuine = closed_walk(view, cyc[::-1])
    if genuine != ((cyc[0], cyc[-1]) in e):
        return "closed-walk test differs from the closing-edge test (C19_find_cycle_genuine)"
    if genuine and not is_cyclic(view):
        return "a closed walk in an acyclic graph (restatement inconsistent)"
    return None


# ---------------------------------------------------------------------------
# generators


def digraph(n, bits, labels=None, order=None):
    labels = labels or list(range(n))
    adj = {labels[i]: [labels[j] for j in range(n) if bits >> (i * n + j) & 1] for i in range(n)}
    order = order or labels
    return [[v, adj[v]] for v in order]


HAND = [
    [[0, [1, 2]], [1, [3]], [2, [3]], [3, []]],          # DAG flagged
    [[0, []], [1, [1]]],                                  # cycle missed
    [[0, [1, 2]], [1, []], [2, [1, 0]]],                  # list that is no closed walk
    [[0, [0]]], [[0, [1]], [1, [0]]], [[0, [1]], [1, [2]], [2, [0]]], [[0, [1]], [1, [2]], [2, [1]]],
    [[0, [1, 2]], [1, [3]], [2, []], [3, []]],           # out-tree
    [[0, []], [1, []], [2, [3]], [3, [1]], [4, [0, 1]], [5, [0, 2]]],
]


def gen_cases(ctx):
    rng = ctx.rng
    for g in HAND:
        for succs in ("list", "set"):
            yield {"kind": "cycle", "graph": g, "nodes": "int", "succs": succs}
    for n in range(1, 4):
        for bits in range(1 << (n * n)):
            yield {"kind": "cycle", "graph": digraph(n, bits), "nodes": "int", "succs": "list"}
            if n >= 2:
                yield {"kind": "cycle", "graph": digraph(n, bits, order=list(range(n))[::-1]),
                       "nodes": rng.choice(["int", "str"]), "succs": rng.choice(["set", "list"])}
    if ctx.thorough or ctx.deep:
        four = range(1 << 16)
    else:
        four = sorted(rng.sample(range(1 << 16), 2500))
    for bits in four:
        yield {"kind": "cycle", "graph": digraph(4, bits), "nodes": "int",
               "succs": "list" if bits % 2 else "set"}
    for _ in range(ctx.budget(2000, 15000)):
        n = rng.choice([2, 3, 4, 5, 5, 6, 6, 7, 7, 8, 8])
        labels = rng.sample(range(41), n)
        adj = {v: [] for v in labels}
        shape = rng.choice(["any", "acyclic", "tree"])
        if shape == "tree":
            # an out-tree rooted at labels[0] (so that None is frequent), then 0-2 extra edges
            for k in range(1, n):
                adj[labels[rng.randrange(k)]].append(labels[k])
            for _ in range(rng.choice([0, 0, 1, 1, 2])):
                a, b = rng.choice(labels), rng.choice(labels)
                if b not in adj[a]:
                    adj[a].append(b)
            order = labels[:]
            if rng.random() < 0.3:
                rng.shuffle(order)
        else:
            dens = rng.choice([0.05, 0.1, 0.2, 0.3, 0.5, 0.7])
            rank = list(range(n))
            rng.shuffle(rank)
            for i in range(n):
                for j in range(n):
                    if rng.random() < dens and (shape != "acyclic" or rank[i] < rank[j]):
                        adj[labels[i]].append(labels[j])
            order = labels[:]
            rng.shuffle(order)
        for v in adj:
            rng.shuffle(adj[v])
        yield {"kind": "cycle", "graph": [[v, adj[v]] for v in order],
               "nodes": rng.choice(["int", "int", "str"]), "succs": rng.choice(["list", "list", "set"])}


def gen_malformed(ctx):
    rng = ctx.rng
    yield {"kind": "cycle", "graph": [], "nodes": "int", "succs": "list"}
    yield {"kind": "cycle", "graph": [[0, [1]]], "nodes": "int", "succs": "set"}
    yield {"kind": "cycle", "graph": [[0, [1, 1]], [1, []]], "nodes": "int", "succs": "list"}
    yield {"kind": "cycle", "graph": [[0, [1]], [1, [2]]], "nodes": "str", "succs": "list"}
    for _ in range(ctx.budget(150, 1500)):
        n = rng.randint(1, 5)
        labels = rng.sample(range(20), n)
        g = [[v, [w for w in labels if rng.random() < 0.3]] for v in labels]
        i = rng.randrange(n)
        if rng.random() < 0.7:
            g[i][1].insert(rng.randint(0, len(g[i][1])), rng.choice([50, 51]))
            succs = rng.choice(["set", "list"])
        else:
            if g[i][1]:
                g[i][1].insert(rng.randint(0, len(g[i][1])), rng.choice(g[i][1]))
            succs = "list"
        yield {"kind": "cycle", "graph": g, "nodes": rng.choice(["int", "str"]), "succs": succs}


# ---------------------------------------------------------------------------
# checking


def check_cases(ctx, res, cases):
    graphs = [build_graph(c) for c in cases]
    views = [iteration_view(g) for g in graphs]
    outs = [run_impl(g) for g in graphs]
    models = ctx.driver.parallel([{"op": "c19_find_cycle", "graph": v} for v in views])
    spec_reqs, spec_idx = [], []
    for i, (v, o) in enumerate(zip(views, outs)):
        if isinstance(o.get("ok"), list):
            spec_reqs.append({"op": "c19_is_cycle", "graph": v, "walk": o["ok"]})
            spec_idx.append(i)
    spec_out = dict(zip(spec_idx, ctx.driver.parallel(spec_reqs)))
    for i, (c, v, o, m) in enumerate(zip(cases, views, outs, models)):
        n = len(v)
        ne = sum(len(ss) for _, ss in v)
        res.case(c, nontrivial=(n >= 2 and ne >= 1))
        # correspondence: exact equality (the model gets the iteration order Python used).  find_cycle is
        # OUTSIDE C19's statement (toposort / toposort_all): a difference is recorded, it never breaks C19's
        # tie — a corrected cycle finder, another visiting order, another way to refuse {} are all correct
        # code as far as C19 is concerned.
        if m != o:
            res.dist["find_cycle/DIFFERS from the model (note; outside C19)"] += 1
            if not any(x.startswith("C19: find_cycle differs") for x in res.notes):
                res.notes.append(
                    "C19: find_cycle differs from the model Model/FindCycle.lean on some graph (first: "
                    f"{v} -> code {o}, model {m}); find_cycle is outside C19's statement, so this is a note; "
                    "the theorems of Properties/C19Cycle.lean describe the PINNED find_cycle only")
            continue
        if n == 0 or not well_formed(v):
            res.dist["find_cycle/malformed:" + (o.get("err") or "returns")] += 1
            continue
        bad = proved_statements(v, o)
        if bad:
            # the model satisfies these statements by theorem: the tie (or a restatement) is broken
            res.tie_broken("find_cycle: " + bad, dict(c, view=v), m, o)
            continue
        cyc = o["ok"]
        cyclic = is_cyclic(v)
        if i in spec_out:
            so = spec_out[i]
            if so["rev"] != closed_walk(v, cyc[::-1]) or so["fwd"] != closed_walk(v, cyc) or not so["wf"]:
                res.tie_broken("find_cycle: Lean IsCycle vs Python closed-walk restatement", dict(c, view=v),
                               so, {"rev": closed_walk(v, cyc[::-1]), "fwd": closed_walk(v, cyc)})
                continue
        # census (what the natural specification would say)
        if cyc is None:
            res.dist["find_cycle/None on acyclic graph (right)" if not cyclic
                     else "find_cycle/cyclic graph MISSED (None)"] += 1
        elif not cyclic:
            res.dist["find_cycle/DAG FLAGGED (list returned on acyclic graph)"] += 1
        elif closed_walk(v, cyc[::-1]):
            res.dist["find_cycle/genuine cycle (right)"] += 1
        else:
            res.dist["find_cycle/cyclic graph, NON-CLOSED walk returned"] += 1


def chunks(it, size):
    buf = []
    for x in it:
        buf.append(x)
        if len(buf) >= size:
            yield buf
            buf = []
    if buf:
        yield buf


def run_cycle(ctx, res):
    for batch in chunks(itertools.chain(gen_cases(ctx), gen_malformed(ctx)), 20000):
        check_cases(ctx, res, batch)
