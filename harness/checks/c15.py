"""C15 — Generated TikZ is well-formed and labels are faithful."""
import itertools
import re
import textwrap

from harness import gen, sr, stubtex
from harness import translate

ID = "C15"
RULE = (
    "five streams.  (1) render: random valid reconciliations (plain: thl/lca solutions; ordered and unordered "
    "super-reconciliations: ext_spfs/superdtl solutions) over <=5 species / <=6 object leaves, node and species "
    "names random over letters, digits, `_`, `\\` (with and without underscore), family names over letters, "
    "digits, `_` (<=12 families), random possibly nested colour features, both orientations, label widths "
    "None/1-30; the real layout.compute + tikz.render text is checked against the property and re-assembled by "
    "the Lean model from the generated templates.  (2) escape: exhaustive strings over {a,_,\\} then random.  "
    "(3) wrap: exhaustive word lists over a small word set for widths 1-30, then random words over letters, "
    "digits, commas, `\\_`, `\\\\`.  (4) format/sort synteny: random family lists, list and set.  (5) malformed: "
    "width 0.  Non-trivial: a render case with a colour annotation, an escaped character or a wrapped label; a "
    "wrap case with at least two lines; an escape input containing `_` or `\\`."
)
TRUSTED = [
    "model: lean/SRVerif/Model/Tikz.lean (escape, wrap, bwLoop, natKey/sortSynteny, CTree.propagate, intern, render)",
    "translator: harness/translate.py (ast extraction of the f-strings of render/tikz.py into Generated/TikzTemplates.lean); "
    "tied to the real output by re-assembling every rendered text from the generated templates",
    "textwrap.wrap(text, width, break_long_words=False) on single-space separated hyphen-free words is modelled "
    "by greedy filling (`wrap`), compared on every wrap case but not verified",
    "stub TeX measurer (harness/stubtex.py): sizes do not influence the text except through coordinates",
]
ASSUMPTIONS = [
    "names and families contain no braces, whitespace, hyphens or `%`; family names contain no backslash "
    "(an escaped backslash `\\\\` is textually identical to the TeX line break used between wrapped lines)",
    "string fields of DrawParams (TeX lengths) are brace-free",
    "for unordered super-reconciliations whose syntenies are Python sets the displayed order is the set's "
    "iteration order; the check then compares labels as multisets",
    "`\\\\` is what tex.escape produces for a backslash: a left-invertible encoding, although TeX reads it as a "
    "line break (not judged by this property)",
]
OPEN = [
    "fmtCoord models round(x, 4) / float repr for exactly representable (dyadic) coordinates only; the drawing code "
    "itself (_tikz_draw_fork / _tikz_draw_branches / render's species loop) is modelled (Model/TikzDraw.lean), proved "
    "(C15_draw_valid_all) and tied byte for byte; `one picture environment` is a theorem on the ASSEMBLED TEXT for "
    "labels computed from brace-free names and families (C15_delims_once, C15_structure_text, "
    "C15_draw_valid_delims_labels; delimFree of the regenerated templates is a kernel-decided obligation)",
]

ALPHA_NAME = "abcXYZ019__\\\\"  # letters, digits, underscores, backslashes (the latter two over-sampled)
ALPHA_FAM = "abcxyzAB0123456789_"
PALETTE = ["ff0000", "00ff00", "0000ff", "000000", "abcdef", "123456"]


# --------------------------------------------------------------------------
# independent restatements


def esc_spec(s):
    return "".join({"\\": "\\\\", "_": "\\_"}.get(c, c) for c in s)


TOKEN = re.compile(r"\\\\|\\_|[^\\_]", re.S)


def unescape_spec(t):
    """None when t is not a sequence of `\\\\`, `\\_` and plain characters."""
    out, i = [], 0
    while i < len(t):
        m = TOKEN.match(t, i)
        if not m:
            return None
        tok = m.group(0)
        out.append(tok[1] if len(tok) == 2 else tok)
        i = m.end()
    return "".join(out)


def raw_balanced(text):
    d = 0
    for c in text:
        if c == "{":
            d += 1
        elif c == "}":
            d -= 1
            if d < 0:
                return False
    return d == 0


def tex_balanced(text):
    """Brace balance as TeX sees it: a backslash takes the next character with it."""
    d, i = 0, 0
    while i < len(text):
        c = text[i]
        if c == "\\":
            i += 2
            continue
        if c == "{":
            d += 1
        elif c == "}":
            d -= 1
            if d < 0:
                return False
        i += 1
    return d == 0



def strip_tex_comments(text):
    """Remove `%` comments (an unescaped `%` up to the end of its line), as TeX does before TikZ sees the text."""
    out = []
    for line in text.split("\n"):
        i, cut = 0, None
        while i < len(line):
            if line[i] == "\\":
                i += 2
                continue
            if line[i] == "%":
                cut = i
                break
            i += 1
        out.append(line if cut is None else line[:cut])
    return "\n".join(out)


def picture_statements(body):
    """The body of a tikzpicture as TikZ reads it: comments removed, an optional `[options]` argument of the
    environment skipped, statements ended by a `;` at brace depth 0 (a backslash takes the next character
    with it).  Returns (statements, unterminated rest)."""
    src = strip_tex_comments(body)
    # grouping environments are not statements
    src = re.sub(r"\\(begin|end)\{(scope|pgfonlayer)\}(\{[^{}]*\})?(\[[^\]]*\])?", " ", src).lstrip()
    if src.startswith("["):
        d, i = 0, 0
        while i < len(src):
            c = src[i]
            if c == "\\":
                i += 2
                continue
            d += c == "{"
            d -= c == "}"
            if c == "]" and d == 0:
                break
            i += 1
        src = src[i + 1:]
    stmts, cur, d, i = [], "", 0, 0
    while i < len(src):
        c = src[i]
        if c == "\\":
            cur += src[i:i + 2]
            i += 2
            continue
        d += c == "{"
        d -= c == "}"
        cur += c
        i += 1
        if c == ";" and d == 0:
            stmts.append(cur.strip())
            cur = ""
    return stmts, cur.strip()


PATH_CMD = re.compile(r"\\(path|node|coordinate|draw|fill|filldraw|clip|shade|shadedraw|matrix|pic|graph)(?![A-Za-z])")


def statement_defect(stmt):
    """None, or why `stmt` (one `;`-terminated piece of a picture) is not ONE TikZ statement: it must begin with a
    path command and contain no other one at brace depth 0 (that is what a forgotten `;` looks like)."""
    d, i, found = 0, 0, []
    while i < len(stmt):
        c = stmt[i]
        if c == "\\":
            m = PATH_CMD.match(stmt, i) if d == 0 else None
            if m:
                found.append(i)
            i += 2
            continue
        d += c == "{"
        d -= c == "}"
        i += 1
    if not found or found[0] != 0:
        return "does not begin with a path command"
    if len(found) > 1:
        return "runs into the next path command: `;` missing"
    return None


def greedy_spec(words, width):
    lines, cur = [], []
    for w in words:
        if cur and len(" ".join(cur + [w])) <= width:
            cur.append(w)
        else:
            if cur:
                lines.append(cur)
            cur = [w]
    if cur:
        lines.append(cur)
    return [" ".join(l) for l in lines]


def natural_key_spec(s):
    return [(0, int(p)) if p[0] in "0123456789" else (1, p) for p in re.findall(r"[0-9]+|[^0-9]+", s)]


def check_wrapped(text, width, out, sep="\n"):
    """The wrap clause of the property on one output; returns None or a message."""
    if text == "":
        return None if out == "" else "empty text wrapped to something"
    lines = out.split(sep)
    if " ".join(lines) != text:
        return "words not preserved"
    for l in lines:
        if len(l) > width and " " in l:
            return f"line {l!r} longer than {width} with several words"
    if len(lines) > len(greedy_spec(text.split(" "), width)):
        return "more lines than greedy wrapping"
    return None


# --------------------------------------------------------------------------
# escape


def rand_name(rng, lo=1, hi=8, alpha=ALPHA_NAME):
    return "".join(rng.choice(alpha) for _ in range(rng.randint(lo, hi)))


def run_escape(ctx, res):
    from superrec2.utils import tex

    n_ex = ctx.budget(5, 7)
    cases = ["".join(t) for n in range(n_ex + 1) for t in itertools.product("a_\\", repeat=n)]
    cases += [rand_name(ctx.rng, 0, 14) for _ in range(ctx.budget(300, 3000))]
    outs = ctx.driver.parallel([{"op": "c15_escape", "s": s} for s in cases])
    for s, m in zip(cases, outs):
        case = {"kind": "escape", "s": s}
        res.case(case, nontrivial=("_" in s or "\\" in s))
        res.dist["escape"] += 1
        e = tex.escape(s)
        back = unescape_spec(e)
        if back != s:
            res.violation("escape is not invertible / leaves a bare `_` or `\\`", case, expected=s,
                          observed={"escaped": e, "read_back": back})
        if m["out"] != e or m["unescaped"] != s or not m["well"]:
            res.tie_broken("escape", case, m, e)
    res.dist["escape stream exhaustive over its alphabet and length"] += 1  # (only this stream is exhaustive, not the property)


# --------------------------------------------------------------------------
# wrapping

WORDS_SMALL = ["a", "bc", "d,", "\\_ef", "abcdefg"]


def wrap_cases(ctx):
    nmax = ctx.budget(4, 6)
    words = WORDS_SMALL[: ctx.budget(4, 5)] if not ctx.thorough else WORDS_SMALL
    for n in range(0, nmax + 1):
        for ws in itertools.product(words, repeat=n):
            total = len(" ".join(ws))
            for width in range(1, 31):
                if width > total + 1:
                    break  # every larger width behaves like total+1
                yield " ".join(ws), width
    rng = ctx.rng
    atoms = list("abcXYZ019,") + ["\\_", "\\\\"]
    for _ in range(ctx.budget(1500, 20000)):
        n = rng.randint(1, 12)
        ws = ["".join(rng.choice(atoms) for _ in range(rng.choice([1, 1, 2, 3, 5, 9, 14]))) for _ in range(n)]
        yield " ".join(ws), rng.randint(1, 30)


def run_wrap(ctx, res):
    from superrec2.utils.text import balanced_wrap

    cases = list(wrap_cases(ctx))
    reqs = []
    for text, width in cases:
        reqs.append({"op": "c15_balanced_wrap", "text": text, "width": width})
        reqs.append({"op": "c15_wrap", "text": text, "width": width})
    outs = ctx.driver.parallel(reqs)
    for i, (text, width) in enumerate(cases):
        case = {"kind": "wrap", "text": text, "width": width}
        out = balanced_wrap(text, width)
        res.case(case, nontrivial="\n" in out)
        res.dist["wrap:%s" % ("1line" if "\n" not in out else "multi")] += 1
        bad = check_wrapped(text, width, out)
        if bad:
            res.violation("balanced_wrap: " + bad, case, observed=out)
        if outs[2 * i] != out:
            res.tie_broken("balanced_wrap", case, outs[2 * i], out)
        greedy = textwrap.wrap(text, width, break_long_words=False)
        if outs[2 * i + 1] != greedy:
            res.tie_broken("textwrap.wrap vs greedy model", case, outs[2 * i + 1], greedy)
    # outside the input space: where textwrap departs from greedy filling (recorded, not judged)
    for text, width in [("ab-cd ef", 4), ("a  b", 3), ("ab\\cd ef", 4)]:
        g = textwrap.wrap(text, width, break_long_words=False)
        if g != greedy_spec(text.split(" "), width):
            res.notes.append(f"outside the input space: textwrap.wrap({text!r}, {width}) = {g}")


# --------------------------------------------------------------------------
# syntenies


def run_synteny(ctx, res):
    from superrec2.model.synteny import format_synteny, sort_synteny

    rng = ctx.rng
    cases = []
    for _ in range(ctx.budget(600, 6000)):
        n = rng.randint(1, 12)
        fams = []
        while len(fams) < n:
            f = rand_name(rng, 1, rng.choice([1, 2, 4, 7]), ALPHA_FAM)
            if f not in fams:
                fams.append(f)
        width = rng.choice([None, None] + list(range(1, 31)))
        cases.append({"kind": "synteny", "fams": fams, "width": width, "set": rng.random() < 0.4})
    reqs = []
    for c in cases:
        reqs.append({"op": "c15_format_synteny", "fams": c["fams"], "width": c["width"], "set": c["set"]})
        reqs.append({"op": "c15_sort_synteny", "fams": c["fams"]})
    outs = ctx.driver.parallel(reqs)
    for i, c in enumerate(cases):
        fams = c["fams"]
        res.case(c, nontrivial=len(fams) > 1)
        res.dist["synteny:%s" % ("set" if c["set"] else "list")] += 1
        srt = sort_synteny(list(fams))  # `sorted` is stable: ties keep the order of the argument
        keys = [natural_key_spec(f) for f in srt]
        if sorted(srt) != sorted(fams) or any(a > b for a, b in zip(keys, keys[1:])):
            res.violation("sort_synteny is not the natural order", c, observed=srt)
        if outs[2 * i + 1] != srt:
            res.tie_broken("sort_synteny", c, outs[2 * i + 1], srt)
        if c["set"] and len({str(k) for k in keys}) < len(keys):
            continue  # equal keys (leading zeros): the order of a set's ties is its hash order
        out = format_synteny(set(fams) if c["set"] else list(fams), c["width"])
        expect = srt if c["set"] else fams
        if out.split() != [f + "," for f in expect[:-1]] + [expect[-1]]:
            res.violation("format_synteny does not list the families in order", c, expected=expect, observed=out)
        if c["width"] is not None:
            bad = check_wrapped(", ".join(expect), c["width"], out)
            if bad:
                res.violation("format_synteny: " + bad, c, observed=out)
        if outs[2 * i] != out:
            res.tie_broken("format_synteny", c, outs[2 * i], out)


def run_malformed(ctx, res):
    from superrec2.utils.text import balanced_wrap

    for text in ["a", "a b", ""]:
        case = {"kind": "wrap0", "text": text, "width": 0}
        try:
            impl = balanced_wrap(text, 0)
        except Exception as e:  # noqa
            impl = {"err": type(e).__name__}
        m = ctx.driver.batch([{"op": "c15_balanced_wrap", "text": text, "width": 0}])[0]
        res.case(case, nontrivial=False)
        res.dist["malformed"] += 1
        if m != impl:
            res.tie_broken("balanced_wrap width 0", case, m, impl)


# --------------------------------------------------------------------------
# rendering

_TEMPLATES = None


def templates():
    global _TEMPLATES
    if _TEMPLATES is None:
        _TEMPLATES = translate.extract_tikz()
    return _TEMPLATES


HOLE_RE = {
    "coord": r"(-?[0-9.e+-]+,-?[0-9.e+-]+)",
    "num": r"(-?[0-9.e+-]+)",
    "unit": r"([^{}]*?)",
    "color": r"([A-Za-z]+[0-9]+)",
    "label": r"(.*?)",
    "index": r"([0-9]+)",
    "html": r"([0-9A-Za-z]*)",
}


def template_regex(t):
    out = ""
    for p in t["pieces"]:
        if isinstance(p, str):
            out += re.escape(p)
        elif p.kind == "kw":
            out += "(" + "|".join(re.escape(c) for c in p.choices) + ")"
        else:
            out += HOLE_RE.get(p.kind, r"(.*?)")
    return re.compile(out, re.S)


def instantiate(t, fills):
    out, it = "", iter(fills)
    for p in t["pieces"]:
        out += p if isinstance(p, str) else next(it)
    return out


def hole_kinds(t):
    return [p.kind for p in t["pieces"] if not isinstance(p, str)]


def make_params(p):
    from superrec2.render.model import DrawParams, Orientation

    return DrawParams(
        orientation=Orientation[p["orientation"]],
        event_label_width=p["event_label_width"],
        species_label_width=p["species_label_width"],
        **{k: v for k, v in p.items() if k not in ("orientation", "event_label_width", "species_label_width")},
    )


def own_color_expected(colors, path):
    """Nearest coloured ancestor-or-self of an object node (paths are strings of child indices)."""
    for k in range(len(path), -1, -1):
        if path[:k] in colors:
            return colors[path[:k]]
    return "000000"


def build_rec(case):
    """The real ReconciliationOutput of a render case, with names and colour features applied."""
    fnames = case["fnames"]
    out = sr.build_output(case["case"], case["sol"], ordered=case["ordered"], fname=lambda i: fnames[i])
    sfwd, sback = sr.index_tree(out.input.species_lca.tree)
    ofwd, oback = sr.index_tree(out.input.object_tree)
    for path, node in sback.items():
        node.name = case["snames"][path]
    for path, node in oback.items():
        node.name = case["onames"][path]
    for path, col in case["colors"].items():
        oback[path].add_feature("color", col)
    if case.get("synsets") and hasattr(out, "syntenies"):
        for k in list(out.syntenies):
            out.syntenies[k] = set(out.syntenies[k])
    return out, ofwd, oback, sfwd


def render_real(case):
    from superrec2.render import layout, tikz

    stubtex.install()
    rec, ofwd, oback, sfwd = build_rec(case)
    params = make_params(case["params"])
    lay = layout.compute(rec, params)
    text = tikz.render(rec, lay, params)
    return rec, lay, params, text, ofwd, oback


_COORD = re.compile(r"\((-?[0-9][0-9.e+-]*),(-?[0-9][0-9.e+-]*)\)")


def _by_value(tok):
    try:
        return repr(float(tok) + 0.0)
    except ValueError:
        return tok


def canon_layers(text):
    """What a rendered text says once the things TikZ does not care about are removed: the ORDER of the statements
    inside a layer (statements of one layer never overlap in this drawing: C14), the NUMBERING of the interned
    colours (each name is replaced by the HTML value it is defined as) and the spelling of a coordinate.
    Returns (definitions, sorted colour values defined, {layer comment: sorted statements}) or None."""
    if text.count("\\begin{tikzpicture}") != 1 or text.count("\\end{tikzpicture}") != 1:
        return None
    head, body = text.split("\\begin{tikzpicture}")
    body, tail = body.split("\\end{tikzpicture}")
    prefix = re.escape(templates()["color_prefix"])
    dre = re.compile(r"\\definecolor\{(" + prefix + r"[0-9]+)\}\{HTML\}\{([0-9A-Za-z]*)\}")
    table, defs = {}, []
    for line in head.split("\n"):
        m = dre.fullmatch(line)
        if m:
            if m.group(1) in table:
                return None
            table[m.group(1)] = m.group(2)
        else:
            defs.append(line)

    def canon(st):
        st = re.sub(prefix + r"[0-9]+", lambda m: "<#" + table.get(m.group(0), "?" + m.group(0)) + ">", st)
        return _COORD.sub(lambda m: f"({_by_value(m.group(1))},{_by_value(m.group(2))})", st)

    layers, name, chunk = {}, None, []

    def close():
        if name is None:
            return not "".join(chunk).strip()
        pieces, left = cut_statements("\n".join(chunk))
        if left.strip() or name in layers:
            return False
        layers[name] = sorted(canon(x) for x in pieces)
        return True

    for line in body.split("\n")[1:]:
        if line.startswith("% "):
            if not close():
                return None
            name, chunk = line, []
        else:
            chunk.append(line)
    if chunk and chunk[-1] == "":
        chunk.pop()
    if not close():
        return None
    return "\n".join(defs), sorted(table.values()), layers, tail


def cut_statements(src):
    """The exact texts of the `;`-terminated statements of a layer (joined by single newlines in the rendered text),
    and what is left after the last `;`.  A backslash takes the next character with it; braces are counted."""
    out, cur, d, i = [], "", 0, 0
    while i < len(src):
        c = src[i]
        if c == "\\":
            cur += src[i:i + 2]
            i += 2
            continue
        d += c == "{"
        d -= c == "}"
        cur += c
        i += 1
        if c == ";" and d == 0:
            out.append(cur)
            cur = ""
            if i < len(src) and src[i] == "\n":
                i += 1
    return out, cur


def parse_text(text, params):
    """Cut a rendered text along the generated templates.
    Returns (structure dict, None) or (None, reason)."""
    data = templates()
    by = {t["name"]: t for t in data["templates"]}
    dt = by["defs_" + params.orientation.name.lower()]
    dfills = [format(eval(p.src, {"params": params}), "") for p in dt["pieces"] if not isinstance(p, str)]
    defs = instantiate(dt, dfills)
    if not text.startswith(defs + "\n"):
        return None, "definitions differ from the generated template"
    rest = text[len(defs) + 1 :].split("\n")
    table, i = [], 0
    dre = template_regex(by["definecolor"])
    while i < len(rest) and dre.fullmatch(rest[i]):
        idx, html = dre.fullmatch(rest[i]).groups()
        if int(idx) != len(table):
            return None, "colour definitions are not numbered consecutively"
        table.append(html)
        i += 1
    if i >= len(rest) or rest[i] != "\\begin{tikzpicture}":
        return None, "no \\begin{tikzpicture} after the colour definitions"
    i += 1
    stmts = [t for t in data["templates"] if t["role"] == "statement"]
    regs = [template_regex(t) for t in stmts]
    layers = {}
    for name in data["layers"]:
        if i >= len(rest) or rest[i] != "% " + name:
            return None, f"layer comment `% {name}` missing"
        i += 1
        layers[name] = []
        chunk = []
        while i < len(rest) and not rest[i].startswith("% ") and rest[i] != "\\end{tikzpicture}":
            chunk.append(rest[i])
            i += 1
        # statements, not lines: a statement ends at a `;` at brace depth 0 and may be written over several lines
        pieces, left = cut_statements("\n".join(chunk))
        if left:
            return None, f"unterminated text in layer {name}: {left[:120]}"
        for line in pieces:
            for k, (t, rx) in enumerate(zip(stmts, regs)):
                m = rx.fullmatch(line) if t["layer"] == name else None
                if m:
                    layers[name].append((k, list(m.groups()), line))
                    break
            else:
                return None, f"statement matches no generated template of layer {name}: {line[:120]}"
    if rest[i:] != ["\\end{tikzpicture}", ""]:
        return None, "text does not end with \\end{tikzpicture} and a newline"
    return {"defs": dt["name"], "defs_fills": dfills, "table": table, "layers": layers, "stmts": stmts}, None


def call_order(rec, lay, parsed):
    """Re-thread the per-layer statement lists into the order of the drawing calls, attributing each
    statement to its branch.  Returns (calls, None) or (None, reason)."""
    from superrec2.model.reconciliation import EdgeEvent, NodeEvent

    pattern = {
        NodeEvent.LEAF: ["events"],
        EdgeEvent.FULL_LOSS: ["gene branches", "events", "gene branches"],
        NodeEvent.SPECIATION: ["gene branches", "events"],
        NodeEvent.DUPLICATION: ["gene branches", "events"],
        NodeEvent.HORIZONTAL_TRANSFER: ["gene branches", "gene transfers", "events"],
    }
    queues = {k: list(v) for k, v in parsed["layers"].items()}
    calls = []

    def pop(layer, owner):
        if not queues[layer]:
            raise LookupError(layer)
        k, fills, line = queues[layer].pop(0)
        calls.append({"t": k, "fills": fills, "layer": layer, "owner": owner, "line": line})

    try:
        for sp in rec.input.species_lca.tree.traverse("preorder"):
            pop("background", None)
            sl = lay[sp]
            for gene, br in sl.branches.items():
                if gene in sl.anchors:
                    pop("gene branches", (gene, br))
                for layer in pattern[br.kind]:
                    pop(layer, (gene, br))
    except LookupError as e:
        return None, f"fewer statements than drawing calls in layer {e}"
    if any(queues.values()):
        return None, "more statements than drawing calls"
    return calls, None


def lineage_gene(lay_all, gene, br):
    """The real object node whose lineage a (pseudo-)gene belongs to."""
    from superrec2.render.model import PseudoGene

    index = {}
    for sl in lay_all.values():
        index.update(sl.branches)
    while isinstance(gene, PseudoGene):
        b = index[gene]
        gene = b.left if b.left is not None else b.right
    return gene


def check_render(ctx, res, case):
    """One render case: the property on the real text, then the tie with the model."""
    try:
        rec, lay, params, text, ofwd, oback = render_real(case)
    except Exception as e:  # noqa
        res.violation(f"rendering a valid reconciliation raised {type(e).__name__}: {str(e)[:200]}", case)
        return
    colors = case["colors"]
    syn = getattr(rec, "syntenies", None) or {}
    interesting = bool(colors) or any("_" in n or "\\" in n for n in case["snames"].values()) or (
        "\\\\" in text.split("\\begin{tikzpicture}")[-1]
    )
    res.case(case, nontrivial=interesting)
    res.dist["render:%s:%s" % (case["algo"], case["params"]["orientation"][0])] += 1
    res.dist["render:colours=%d" % min(3, len(colors))] += 1

    # ---- the property, on the text alone
    if not raw_balanced(text):
        res.violation("unbalanced braces in the generated code", case, observed=text[-400:])
    if not tex_balanced(text):
        res.violation("braces unbalanced once TeX escapes are taken into account", case, observed=text[-400:])
    if text.count("\\begin{tikzpicture}") != 1 or text.count("\\end{tikzpicture}") != 1:
        res.violation("not exactly one tikzpicture environment", case)
        return
    head, body = text.split("\\begin{tikzpicture}")
    body, tail = body.split("\\end{tikzpicture}")
    if tail.strip():
        res.violation("text after \\end{tikzpicture}", case, observed=tail)
    pstmts, unterminated = picture_statements(body)
    if unterminated:
        res.violation("a statement of the picture is not terminated", case, observed=unterminated[:300])
    for st in pstmts:
        why = statement_defect(st)
        if why:
            res.violation("a statement of the picture is not terminated", case, observed=why + ": " + st[:300])
            break
    prefix = re.escape(templates()["color_prefix"])
    defined = re.findall(r"\\definecolor\{(" + prefix + r"[0-9]+)\}\{HTML\}\{([0-9A-Za-z]*)\}", head)
    names = [n for n, _ in defined]
    if len(set(names)) != len(names):
        res.violation("a colour is defined twice", case, observed=names)
    table = dict(defined)
    used = set(re.findall(prefix + r"[0-9]+", strip_tex_comments(body)))
    if not used <= set(table):
        res.violation("a colour is used but not defined before the picture", case,
                      expected=sorted(table), observed=sorted(used))
    if re.search(r"\\definecolor", body):
        res.violation("a colour is defined inside the picture", case)

    # ---- colours and labels of the branches (layout objects), expected from the annotations
    from superrec2.model.reconciliation import EdgeEvent, NodeEvent
    from superrec2.render.model import PseudoGene

    width = params.event_label_width
    expected_event_colors = []
    for sp, sl in lay.items():
        for gene, br in sl.branches.items():
            real = lineage_gene(lay, gene, br)
            exp_col = own_color_expected(colors, ofwd[real])
            expected_event_colors.append(exp_col)
            if br.color != exp_col:
                what = ("a pseudo-gene (loss) is not drawn in the colour of its lineage"
                        if isinstance(gene, PseudoGene) else
                        "a node is not drawn in the colour of its nearest coloured ancestor-or-self")
                res.violation(what, case, expected={"node": ofwd[real], "color": exp_col}, observed=br.color)
            if isinstance(gene, PseudoGene):
                continue
            fams = syn.get(gene)
            par = syn.get(gene.up)
            name = br.name
            if fams:
                is_set = isinstance(fams, (set, frozenset))
                omitted = (not gene.is_leaf()) and fams == par
                if omitted:
                    if name != "":
                        res.violation("an ancestral label equal to its parent's is displayed", case, observed=name)
                    continue
                words = [w for w in re.split(r" |\\\\", name) if w != ""]
                want = [esc_spec(f) for f in fams]
                got = [w[:-1] if i + 1 < len(words) else w for i, w in enumerate(words)]
                commas = all(w.endswith(",") for w in words[:-1])
                if not commas or (sorted(got) != sorted(want) if is_set else got != want):
                    res.violation("a displayed synteny label does not list the node's families in order",
                                  case, expected=want, observed=name)
                if name == "" and not omitted:
                    res.violation("a synteny label is omitted although it differs from the parent's", case,
                                  expected=want)
                if width is not None and not is_set:
                    bad = check_wrapped(", ".join(want), width, name, sep="\\\\")
                    if bad:
                        res.violation("event label: " + bad, case, observed=name)
            elif gene.is_leaf():
                n = gene.name
                if "_" in n:
                    a, b = n.rsplit("_", 1)
                    want = esc_spec(a) + "\\textsubscript{" + esc_spec(b) + "}"
                else:
                    want = esc_spec(n)
                if name != want:
                    res.violation("a leaf name is not displayed escaped", case, expected=want, observed=name)
            elif name != "":
                res.violation("an internal node without synteny carries a label", case, observed=name)

    # The statements of a layer may be emitted in any order (and the colours interned in any order): when the
    # positional attribution below finds something, and the text consists of exactly the statements of the model's
    # text for this very layout (per layer, colours resolved, coordinates by value), the attribution is redone on the
    # model's ordering of the same statements.
    def tie(text, res, table):
        # ---- tie: cut the text along the generated templates and let the model re-assemble it
        parsed, why = parse_text(text, params)
        if parsed is None:
            res.tie_broken("generated templates vs rendered text", case, why, text[-300:])
            return
        calls, why = call_order(rec, lay, parsed)
        if calls is None:
            res.tie_broken("statement census", case, why, None)
            return
        table_list = parsed["table"]
        reqs, ev_colors = [], []
        lean_calls = []
        for c in calls:
            t = parsed["stmts"][c["t"]]
            kinds = hole_kinds(t)
            fills = []
            for kind, f in zip(kinds, c["fills"]):
                if kind == "color":
                    html = table.get(f)
                    fills.append({"c": html if html is not None else "?"})
                    if c["owner"] is not None:
                        gene, br = c["owner"]
                        if html != br.color:
                            res.violation("a statement is not drawn in its branch's colour", case,
                                          expected=br.color, observed={"line": c["line"], "html": html})
                        if c["layer"] == "events":
                            ev_colors.append(html if html is not None else "undefined:" + f)
                else:
                    fills.append(f)
                if kind == "label" and c["owner"] is not None and c["layer"] == "events":
                    gene, br = c["owner"]
                    want = br.name or ("\\phantom{-}" if br.kind == NodeEvent.HORIZONTAL_TRANSFER else "")
                    if f != want:
                        res.violation("the label in the text is not the branch's label", case, expected=want,
                                      observed=c["line"])
            lean_calls.append({"t": c["t"], "fills": fills})
            reqs.append({"op": "c15_instantiate", "tmpl": t["name"], "fills": c["fills"]})
        if sorted(ev_colors) != sorted(expected_event_colors):
            res.violation("the colours of the event nodes are not those expected from the annotations", case,
                          expected=sorted(expected_event_colors), observed=sorted(ev_colors))
        # species labels
        for c in calls:
            t = parsed["stmts"][c["t"]]
            for kind, f in zip(hole_kinds(t), c["fills"]):
                if kind == "label" and c["owner"] is None:
                    back = unescape_spec(f.replace("\\\\\n", ""))
                    if back is None or back not in case["snames"].values():
                        res.violation("a species label is not an escaped species name", case, observed=f)
        reqs.append({"op": "c15_render", "defs": parsed["defs"], "defs_fills": parsed["defs_fills"],
                     "calls": lean_calls})
        # model side of colours and labels
        def ctree(path):
            node = oback[path]
            d = {"c": colors.get(path)}
            if node.children:
                d["ch"] = [ctree(path + str(i)) for i in range(len(node.children))]
            return d

        reqs.append({"op": "c15_colors", "tree": ctree("")})
        label_nodes = []
        for sp, sl in lay.items():
            for gene, br in sl.branches.items():
                if isinstance(gene, PseudoGene):
                    continue
                f, p = syn.get(gene), syn.get(gene.up)
                if isinstance(f, (set, frozenset)) or isinstance(p, (set, frozenset)):
                    continue
                label_nodes.append((gene, br))
                reqs.append({"op": "c15_label", "leaf": gene.is_leaf(), "width": width,
                             "syn": None if f is None else list(f), "parent": None if p is None else list(p),
                             "name": gene.name})
        outs = ctx.driver.batch(reqs)
        n = len(calls)
        for c, o in zip(calls, outs[:n]):
            if o["text"] != c["line"]:
                res.tie_broken("template instantiation", case, o["text"], c["line"])
            if not o["fills_ok"]:
                res.tie_broken("a real hole filling lies outside the model's filling space", case, c["fills"], c["line"])
        if outs[n] != text:
            res.tie_broken("model render vs tikz.render", case, _first_diff(outs[n], text), None)
        pre = []

        def walk(path):
            pre.append(path)
            for i in range(len(oback[path].children)):
                walk(path + str(i))

        walk("")
        br_of = {}
        for sp, sl in lay.items():
            for gene, br in sl.branches.items():
                if not isinstance(gene, PseudoGene):
                    br_of[ofwd[gene]] = br
        impl_cols = [br_of[p].color for p in pre]
        if outs[n + 1] != impl_cols:
            res.tie_broken("colour propagation", case, outs[n + 1], impl_cols)
        for (gene, br), o in zip(label_nodes, outs[n + 2 :]):
            if o != br.name:
                res.tie_broken("node label", case, o, br.name)

    first = _Deferred()
    tie(text, first, table)
    if first.items:
        alt = same_statements_text(ctx, case, rec, lay, params, text)
        if alt is not None:
            res.dist["render:same statements per layer in another order"] += 1
            first = _Deferred()
            ahead = alt.split("\\begin{tikzpicture}")[0]
            tie(alt, first, dict(re.findall(r"\\definecolor\{(" + prefix + r"[0-9]+)\}\{HTML\}\{([0-9A-Za-z]*)\}", ahead)))
    first.flush(res)


class _Deferred:
    """Collects what a pass of the tie would report."""

    def __init__(self):
        self.items = []

    def violation(self, *a, **kw):
        self.items.append(("violation", a, kw))

    def tie_broken(self, *a, **kw):
        self.items.append(("tie_broken", a, kw))

    def flush(self, res):
        for kind, a, kw in self.items:
            getattr(res, kind)(*a, **kw)


def same_statements_text(ctx, case, rec, lay, params, text):
    """The model's text for this layout when the real text consists of the same statements, else None."""
    from harness.checks import c15_draw

    try:
        m = ctx.driver.batch([c15_draw.request(case["case"]["S"], rec, lay, params)])[0]
    except Exception:  # noqa
        return None
    if "ok" not in m:
        return None
    a, b = canon_layers(m["ok"]["text"]), canon_layers(text)
    return m["ok"]["text"] if a is not None and a == b else None


def _first_diff(a, b):
    if not isinstance(a, str):
        return a
    for i, (x, y) in enumerate(zip(a, b)):
        if x != y:
            return {"at": i, "model": a[max(0, i - 60) : i + 60], "impl": b[max(0, i - 60) : i + 60]}
    return {"len_model": len(a), "len_impl": len(b)}


def paths_of(O, path=""):
    out = [path]
    if not isinstance(O, dict):
        for i, c in enumerate(O):
            out += paths_of(c, path + str(i))
    return out


def unique_names(rng, keys, maker):
    out, seen = {}, set()
    for k in keys:
        while True:
            n = maker()
            if n not in seen:
                seen.add(n)
                out[k] = n
                break
    return out


def rand_render_case(ctx):
    rng = ctx.rng
    mode = rng.random()
    if mode < 0.4:
        algo, nfam = rng.choice(["thl", "thl", "lca"]), 0
    elif mode < 0.8:
        algo, nfam = "ext_spfs", rng.choice([2, 3, 5, 8, 12])
    else:
        algo, nfam = "superdtl", rng.choice([2, 3, 5, 8, 12])
    big = nfam <= 5
    base = gen.rand_case(rng, max_o=6 if big else 3, max_s=5 if big else 3, nfam=nfam,
                         plain=(nfam == 0), unordered=(algo == "superdtl"))
    r = sr.run_algo(base, algo, "any" if nfam > 5 else "all")
    if "err" in r or not r["sols"]:
        return None
    sol = rng.choice(r["sols"])
    fnames = []
    while len(fnames) < max(nfam, 1):
        f = rand_name(rng, 1, rng.choice([1, 2, 3, 6]), ALPHA_FAM)
        if f not in fnames:
            fnames.append(f)
    spaths = gen.all_paths(base["S"])
    opaths = paths_of(base["O"])
    snames = unique_names(rng, spaths, lambda: rand_name(rng, 1, 9))
    plain_leaf = rng.random() < 0.3
    onames = unique_names(
        rng, opaths,
        lambda: rand_name(rng, 1, 7, "abcXYZ019\\") if plain_leaf and rng.random() < 0.6 else rand_name(rng, 1, 8),
    )
    colors = {}
    if rng.random() < 0.75:
        p = rng.choice([0.15, 0.3, 0.6])
        colors = {q: rng.choice(PALETTE) for q in opaths if rng.random() < p}
    params = {
        "orientation": rng.choice(["VERTICAL", "HORIZONTAL"]),
        "event_label_width": rng.choice([None, 18] + list(range(1, 31))),
        "species_label_width": rng.choice([None, 21] + list(range(1, 31))),
    }
    if rng.random() < 0.2:
        params["species_border_rounding"] = rng.choice(["2pt", "0.5em", "1mm"])
        params["x_unit"] = rng.choice(["1pt", "2pt", "0.1mm"])
    return {"kind": "render", "algo": algo, "case": base, "sol": sol, "ordered": algo != "superdtl",
            "synsets": algo == "superdtl" and rng.random() < 0.5,
            "fnames": fnames, "snames": snames, "onames": onames, "colors": colors, "params": params}


CORPUS = [
    # F-COLOR-NESTED: ((a,b)N[blue],c)M[red] -- c must be red
    {"kind": "render", "algo": "corpus", "case": {"S": [[], []], "O": [[{"s": "0"}, {"s": "0"}], {"s": "1"}]},
     "sol": {"s": "", "c": [{"s": "0", "c": [{"s": "0"}, {"s": "0"}]}, {"s": "1"}]}, "ordered": True,
     "fnames": ["a"], "snames": {"": "R", "0": "A", "1": "B"},
     "onames": {"": "M", "0": "N", "00": "A_a", "01": "A_b", "1": "B_c"},
     "colors": {"": "ff0000", "0": "0000ff"},
     "params": {"orientation": "VERTICAL", "event_label_width": 18, "species_label_width": 21}},
    # F-LEAFNAME: leaf names without underscore, no synteny
    {"kind": "render", "algo": "corpus", "case": {"S": [[], []], "O": [{"s": "0"}, {"s": "1"}]},
     "sol": {"s": "", "c": [{"s": "0"}, {"s": "1"}]}, "ordered": True,
     "fnames": ["a"], "snames": {"": "R", "0": "A", "1": "B"}, "onames": {"": "r", "0": "x", "1": "y\\z"},
     "colors": {}, "params": {"orientation": "HORIZONTAL", "event_label_width": None, "species_label_width": None}},
]


def corpus(ctx, res):
    for case in CORPUS:
        check_render(ctx, res, case)


def run_render(ctx, res):
    n = ctx.budget(120, 1000)
    done = 0
    tries = 0
    while done < n and tries < 3 * n:
        tries += 1
        case = rand_render_case(ctx)
        if case is None:
            continue
        check_render(ctx, res, case)
        done += 1


def run(ctx, res):
    from harness.common import setup_repo_path

    setup_repo_path()
    run_escape(ctx, res)
    run_wrap(ctx, res)
    run_synteny(ctx, res)
    run_malformed(ctx, res)
    run_render(ctx, res)
    # the drawing model (Model/TikzDraw.lean: _tikz_draw_fork / _tikz_draw_branches / render's species loop):
    # real layout -> model call sequence and text, compared byte for byte (lazy import: c15_draw imports c13-c15)
    from harness.checks import c15_draw

    c15_draw.run_draw(ctx, res)


def replay(ctx, data):
    from harness.common import Result

    case = data.get("input") or {}
    res = Result()
    kind = case.get("kind")
    if kind == "render":
        check_render(ctx, res, case)
    elif kind == "escape":
        from superrec2.utils import tex

        e = tex.escape(case["s"])
        if unescape_spec(e) != case["s"]:
            res.violation("escape", case, observed=e)
    elif kind == "wrap":
        from superrec2.utils.text import balanced_wrap

        out = balanced_wrap(case["text"], case["width"])
        bad = check_wrapped(case["text"], case["width"], out)
        if bad:
            res.violation(bad, case, observed=out)
    elif kind == "synteny":
        from superrec2.model.synteny import format_synteny, sort_synteny

        fams = case["fams"]
        expect = sort_synteny(set(fams)) if case["set"] else fams
        out = format_synteny(set(fams) if case["set"] else list(fams), case["width"])
        if out.split() != [f + "," for f in expect[:-1]] + [expect[-1]]:
            res.violation("format_synteny", case, observed=out)
    else:
        return True, f"nothing to replay ({data.get('kind')})"
    if res.concrete:
        v = res.concrete[0]
        return False, f"REPRODUCED property=C15: {v['what']} expected={v['expected']} observed={v['observed']}"
    return True, "not reproduced (the implementation now satisfies the property on this input)"
