"""C12 (extension) — the glue of cli/reconcile.py and cli/draw.py against lean/SRVerif/Model/CliGlue.lean.

Use from c12.py:   from . import c12_cli   …   c12_cli.run_cli(ctx, res)   at the end of run().

Streams (all through the REAL functions of /repo, in-process):
  * eval_cost        random expressions of the modelled language (integers, + - * //, unary signs, parentheses,
                     float('inf'), spaces), token soups and character mutations of them; compared: value
                     (int / inf / -inf / nan) or exception class.  When the model answers `outside` (string not in
                     the modelled language) nothing is compared.
  * cost options     argv lists of --cost-* options through the real argparse parser -> args.cost_*.
  * read_input       documented-format documents with missing / extra keys (incl. a `costs` key, which the tool
                     overwrites), unknown names, broken Newick; compared: class, names after label_internal
                     (pre-order), leaf assignment (paths), costs, leaf syntenies, or the exception class.
  * reconcile        call_algorithm + dump_results + reconcile with the registered algorithms replaced by stubs of
                     the SAME signature returning canned result lists (None / one output / a list): status, stderr
                     lines, output text.
  * draw             output(): kind of output from TYPE / file name, status (XeLaTeX stubbed); generate_tikz():
                     class chosen on `syntenies`, orientation.
"""
import argparse
import contextlib
import functools
import io
import json
import keyword
import builtins
import os
import tempfile
import types
import warnings

from superrec2.cli import draw as cli_draw
from superrec2.cli import reconcile as cli_reconcile
from superrec2.model.reconciliation import ReconciliationOutput
from superrec2.utils.tex import TeXError

RULE_CLI = __doc__.split("Streams", 1)[1]
TRUSTED_CLI = [
    "model: lean/SRVerif/Model/CliGlue.lean (eval_cost on a small expression language with an explicit `outside` "
    "answer; cost options; read_input from the parsed document; reconcile's messages, status and output text; "
    "draw's output-type and orientation logic); the Newick reader used by the driver op c12c_read_input is the "
    "model of Model/Newick.lean (tied by C11)",
    "Python's own parser/evaluator is the reference for eval_cost (the tool calls eval); argparse is Python's",
    "the stubs that replace the registered algorithms keep the real signatures (functools.wraps) — only "
    "call_algorithm / dump_results / reconcile are exercised by that stream",
]
OPEN_CLI = [
    "C12_cost_line / C12_all_superset_any: the interface hypotheses are discharged in Properties/C12Bridge.lean "
    "(embedding Sol -> RecOutput/SRecOutput in Model/SolOutput.lean; `evaluated cost of the embedded output = "
    "totalCost`, well-formedness under injective safe names, the evaluator's set-invariance and the Newick law are "
    "theorems: C12_cost_line_thl / _exh / _lca / _spfs / _uspfs, C12_all_superset_any_thl / _exh / _lca / _spfs / "
    "_uspfs). (i) the JSON text layer is modelled (Model/Json.lean: render = json.dumps with default options, parse = "
    "json.loads, tied byte for byte by harness/checks/c12_json.py) and `json.loads(json.dumps(v)) = v` is a THEOREM for "
    "every value without repeated keys, all string escapes included (C12_json_roundtrip; to_dict never repeats a key: "
    "C12_to_dict_ok_*), so the cost-line theorems hold on the written TEXT with no hypothesis on the encoder "
    "(Properties/C12Json.lean: C12_cost_line_text_* — one line per result, every line parses to a dictionary read back "
    "with the printed cost); floats other than +-Infinity, NaN and strings with lone surrogates are outside the JSON "
    "model (to_dict writes none). (ii) COLOURS: all of the above for every colouring of the two input trees by safe "
    "words (Model/SolOutputColour.lean, Properties/C12Colour.lean: C12_col_cost_line_* / _text_* / "
    "C12_col_all_superset_any_*; the evaluator ignores colours: C12_col_eval_ignores_colours; every named coloured tree "
    "is an embedded tree: C12_col_every_tree; the emb tie runs on coloured inputs). (iii) NAMES: Naming.Ok is derived "
    "from label_internal (Properties/C12Names.lean: C12_label_naming_ok, C12_label_is_embedding, "
    "C12_cli_cost_line_text_thl / _uspfs) for input trees whose given names are pairwise distinct words over ASCII "
    "[A-Za-z0-9_] and whose colours are such words. Left: names / colours outside that alphabet but inside the Newick "
    "codec's domain (`E.coli_1`, `sp-1`, non-ASCII letters, `#0000FF`: C12_names_alphabet_gap; needs C11's WF restated "
    "with Newick.safeName); the step from the input FILE's text to the trees (read_input + Newick reader) is covered by "
    "C11/C12Refine separately, not composed; `--solutions any` inside each family's coherent region only (outside, ANY "
    "in ALL fails: C05_any_incoherent_witness); binary species tree; CPython's 4300-digit int/str limit",
    "eval_cost: no theorem relates the shunting-yard parser to Python's grammar (tie only); proved: totality, "
    "no exception other than the three listed, the algebra of the values, and the print/parse round trip on "
    "fully-parenthesised token strings (clause 1 of C12_eval_cost)",
    "eval_cost beyond the generated cost space: Python raises OverflowError when an integer >= 2^1023 meets an "
    "infinite operand and SyntaxError on literals over 4300 digits, where the model returns a value (Review E2.5); "
    "the generators stop at 10^12 and the theorems' `three exceptions` claim is to be read inside that space",
]


# ---------------------------------------------------------------------------
# eval_cost


UNBOUND = ["inf", "infinity", "Infinity", "nan", "x", "y", "zz"]


def note_once(res, text):
    if text not in res.notes:
        res.notes.append(text)


def internal(res, mod, name):
    """A private helper of the CLI modules.  Only `add_args` and the function argparse dispatches to are the
    public surface: a renamed / inlined helper costs a stream of the glue tie, never an alarm."""
    f = getattr(mod, name, None)
    if f is None:
        note_once(res, f"C12 glue: {mod.__name__}.{name} not found (renamed or inlined helper): that stream of the "
                       "glue tie is skipped; the process-level relations of C12 keep deciding")
    return f


def check_unbound(res, model_names):
    """The names the model takes for unbound must raise NameError WHEN EVALUATED BY eval_cost (its own locals
    count: the parameter of `def eval_cost(cost)` is bound).  The model's list against the harness's is a
    model-side tie; what the code binds is a fact about the code, recorded as a note."""
    if sorted(model_names) != sorted(UNBOUND):
        res.tie_broken("c12c: names the model takes for unbound vs the harness's list", {"names": model_names},
                       model_names, UNBOUND)
    bound = [n for n in model_names if "err" not in py_eval_cost(n) or keyword.iskeyword(n)]
    if bound:
        note_once(res, f"C12 glue: names {bound} are bound where eval_cost evaluates (the model answers NameError "
                       "for them; expressions using them are not compared)")
    return set(bound)


_EVAL = [None]


def py_eval_cost(expr):
    with warnings.catch_warnings():
        warnings.simplefilter("ignore")
        try:
            v = _EVAL[0](expr)
        except Exception as e:  # noqa
            return {"err": type(e).__name__}
    if isinstance(v, bool) or not isinstance(v, (int, float)):
        return {"other": type(v).__name__}
    if isinstance(v, int):
        return {"val": v}
    if v != v:
        return {"val": "nan"}
    if v == float("inf"):
        return {"val": "inf"}
    if v == float("-inf"):
        return {"val": "-inf"}
    return {"other": "float"}


def rand_expr(rng, depth):
    """A random expression of the language as a string (precedence left to Python: parentheses are put at
    random, not where needed)."""
    r = rng.random()
    if depth <= 0 or r < 0.3:
        k = rng.random()
        if k < 0.12:
            return rng.choice(["float('inf')", 'float("inf")', "float( 'inf' )"])
        if k < 0.2:
            return rng.choice(["0", "00", "1"])
        return str(rng.choice([0, 1, 2, 3, 5, 7, 10, 12, 100, rng.randint(0, 10 ** rng.randint(1, 12))]))
    if r < 0.42:
        return rng.choice(["-", "+", "- ", "--"]) + rand_expr(rng, depth - 1)
    if r < 0.6:
        return "(" + rand_expr(rng, depth - 1) + ")"
    op = rng.choice(["+", "-", "*", "//", "//", "*", "+"])
    sp = rng.choice(["", " ", ""])
    return rand_expr(rng, depth - 1) + sp + op + sp + rand_expr(rng, depth - 1)


SOUP = ["0", "1", "2", "7", "01", "10", "+", "-", "*", "//", "(", ")", "float('inf')", " ", "zz", "inf", "x",
        "cost", "/", "**", "1.5", "abs", "json", "'a'", ",", "float", "float(", "'inf'", "nan", "1_0", "0x1", "\t", "=",
        "1e3", "None", "not", "float('nan')", "float('-inf')"]


def mutate(rng, s):
    if not s:
        return rng.choice(SOUP)
    i = rng.randrange(len(s) + 1)
    k = rng.random()
    if k < 0.35:
        return s[:i] + s[i + 1:]
    if k < 0.75:
        return s[:i] + rng.choice(SOUP) + s[i:]
    return s[:i] + rng.choice(SOUP) + s[i + 1:]


FIXED_EXPRS = [
    "1", "0", "00", "01", "", " ", "  1  ", "1+2*3", "(1+2)*3", "-7//2", "7//-2", "-7//-2", "7//2", "1//0",
    "0//0", "float('inf')", "float(\"inf\")", " float ( 'inf' ) ", "2*float('inf')", "0*float('inf')",
    "-float('inf')", "float('inf')-float('inf')", "float('inf')//2", "5//float('inf')", "-5//float('inf')",
    "float('inf')//0", "float('inf')*-1", "zz", "inf", "zz + 1//0", "1//0 + zz", "1 - 2//0 * zz", "()", "(1",
    "1)", "1 2", "1(2)", "*1", "1 +", "--1", "1---1", "1 * * 2", "2**3", "1/2", "1 / / 2", "json", "abs(1)",
    "float('nan')", "float('-inf')", "float('Inf')", "'a'", "1,2", "(1,)", "1 if 1 else 2", "not 1", "1_000",
    "0x10", "1e3", "1.5", "1 +\t2", "10 - 3 - 2", "100 // 7 // 2", "2 * (3 + 4) // 5 - -1", "- 2 // 3",
    "((1))", "1 + 01", "( )", "(())", "+", "-", "(-)", "1 // // 2", "float", "float()", "float('inf'",
    "x y", "1 zz", "zz 1", "(1) 2", "1 (", ") (", "0 * zz", "zz * (1//0)", "(1//0) * zz",
    "cost", "cost * 2", "y", "infinity", "nan", "Infinity",
]


def eval_stream(ctx):
    rng = ctx.rng
    for e in FIXED_EXPRS:
        yield e
    for _ in range(ctx.budget(2500, 25000)):
        e = rand_expr(rng, rng.randint(0, 5))
        k = rng.random()
        if k < 0.45:
            yield e
        elif k < 0.8:
            for _ in range(rng.randint(1, 3)):
                e = mutate(rng, e)
            yield e
        else:
            yield "".join(rng.choice(SOUP[:20]) for _ in range(rng.randint(1, 8)))


def soft_mismatch(res, what, m, py):
    """The model answers with an exception for an expression that is no cost at all.  C12 speaks of cost
    options that ARE costs; how an invalid expression is refused (which exception class, an argparse error
    and status 2, or a value because the name is bound after all) is not part of it: counted, never a tie."""
    res.dist[f"{what}/invalid expression refused differently (note): model {m.get('err')}, code "
             f"{py.get('err') or ('exit ' + str(py['exit']) if 'exit' in py else 'a value')}"] += 1
    note_once(res, f"C12 glue: {what}: some invalid cost expression is refused by the code in another way than by "
                   "the model (exception class / argparse error); see the distribution")


def check_eval(ctx, res):
    _EVAL[0] = internal(res, cli_reconcile, "eval_cost")
    if _EVAL[0] is None:
        return
    exprs = list(eval_stream(ctx))
    outs = ctx.driver.parallel([{"op": "c12c_eval_cost", "expr": e} for e in exprs])
    for e, m in zip(exprs, outs):
        case = {"kind": "eval_cost", "expr": e}
        res.case(case, nontrivial=("val" in m or "err" in m) and len(e) >= 3)
        if m.get("outside"):
            # not evaluated by Python either: a mutation such as 9**9**9**9 would never return
            res.dist["eval_cost/outside the modelled language (not compared)"] += 1
            continue
        py = py_eval_cost(e)
        if m != py:
            if "err" in m:
                soft_mismatch(res, "eval_cost", m, py)
            else:
                res.tie_broken("eval_cost: value of a cost expression", case, m, py)
            continue
        res.dist["eval_cost/" + (m["err"] if "err" in m else
                                 "int" if isinstance(m["val"], int) else m["val"])] += 1


# ---------------------------------------------------------------------------
# cost options through the real parser


_PARSER = None


def parser():
    global _PARSER
    if _PARSER is None:
        p = argparse.ArgumentParser()
        sub = p.add_subparsers(required=True)
        cli_reconcile.add_args(sub)
        cli_draw.add_args(sub)
        _PARSER = p
    return _PARSER


COST_EXPRS = ["0", "1", "2", "3", "1+1", "2*3", "7//2", "(1+2)*2", "float('inf')", "2 * float('inf')", "10",
              "00", "3 - 1", "-1", "1 - 2", "0*float('inf')", "1//0", "1 +", "zz", "inf", "01", "2**2", "1/2"]
SUFFIXES = ["spe", "dup", "hgt", "floss", "sloss"]


def rand_opts(rng, good_only=False):
    opts = []
    pool = COST_EXPRS[:13] if good_only else COST_EXPRS
    for _ in range(rng.choice([0, 1, 2, 2, 3, 5, 6])):
        opts.append([rng.choice(SUFFIXES), rng.choice(pool)])
    return opts


def parse_reconcile_args(opts, inp_path, algo="lca"):
    argv = ["reconcile", "--input", inp_path, algo]
    for k, e in opts:
        # the `=` form keeps argparse from reading "-1" / "-float(...)" as an option
        argv.append(f"--cost-{k}={e}")
    with contextlib.redirect_stderr(io.StringIO()):
        return parser().parse_args(argv)


def py_val(v):
    if isinstance(v, int) and not isinstance(v, bool):
        return v
    if isinstance(v, float):
        if v != v:
            return "nan"
        if v == float("inf"):
            return "inf"
        if v == float("-inf"):
            return "-inf"
    return {"other": repr(v)}


def py_cost_args(opts, inp_path):
    args = None
    try:
        with warnings.catch_warnings():
            warnings.simplefilter("ignore")
            args = parse_reconcile_args(opts, inp_path)
        out = [[[type(kind).__name__, kind.name], py_val(getattr(args, f"cost_{argname}"))]
               for kind, (argname, _) in cli_reconcile.cost_events.items()]
        return {"ok": out}
    except SystemExit as e:
        return {"exit": e.code}
    except Exception as e:  # noqa
        return {"err": type(e).__name__}
    finally:
        if args is not None:
            args.input.close()


def check_cost_args(ctx, res, tmp):
    rng = ctx.rng
    inp = os.path.join(tmp, "empty.json")
    with open(inp, "w") as f:
        f.write("{}")
    cases = [[]] + [[[k, "2"]] for k in SUFFIXES] + [[["dup", "1"], ["dup", "5"]], [["dup", "1//0"], ["spe", "zz"]],
                                                      [["spe", "zz"], ["dup", "1//0"]]]
    cases += [rand_opts(rng) for _ in range(ctx.budget(300, 3000))]
    outs = ctx.driver.parallel([{"op": "c12c_cost_args", "opts": o} for o in cases])
    checked = False
    for opts, m in zip(cases, outs):
        case = {"kind": "cost_args", "opts": opts}
        res.case(case, nontrivial=len(opts) >= 1)
        if "ok" in m and not checked:
            if _EVAL[0] is not None:
                check_unbound(res, m["unbound"])
            checked = True
        if m.get("outside"):
            res.dist["cost_args/outside (not compared)"] += 1
            continue
        py = py_cost_args(opts, inp)
        mm = {k: v for k, v in m.items() if k != "unbound"}
        if mm != py:
            if "err" in mm and "ok" not in py:
                soft_mismatch(res, "cost_args", mm, py)
            elif "ok" in mm and "ok" in py and sorted(map(json.dumps, mm["ok"])) == sorted(map(json.dumps, py["ok"])):
                res.dist["cost_args/ok (cost_events listed in another order: note)"] += 1
            else:
                res.tie_broken("cost options: args.cost_* per event", case, mm, py)
            continue
        res.dist["cost_args/" + ("ok" if "ok" in m else m["err"])] += 1


# ---------------------------------------------------------------------------
# read_input


def enc_doc(v):
    if isinstance(v, dict):
        return {"o": [[k, enc_doc(x)] for k, x in v.items()]}
    if isinstance(v, list):
        return {"a": [enc_doc(x) for x in v]}
    return v


def node_paths(tree):
    fwd = {}

    def rec(node, path):
        fwd[node] = path
        for i, ch in enumerate(node.children):
            rec(ch, path + [i])

    rec(tree, [])
    return fwd


_READ = [None]


def py_read_input(doc, opts, tmp):
    inp = os.path.join(tmp, "doc.json")
    with open(inp, "w") as f:
        json.dump(doc, f)
    args = None
    try:
        args = parse_reconcile_args(opts, inp)
        x = _READ[0](args)
    except (Exception, SystemExit) as e:  # noqa
        return {"err": type(e).__name__}
    finally:
        if args is not None:
            args.input.close()
    ot, st = x.object_tree, x.species_lca.tree
    of, sf = node_paths(ot), node_paths(st)
    out = {
        "kind": {"ReconciliationInput": "plain", "SuperReconciliationInput": "super"}[type(x).__name__],
        "onames": [n.name for n in ot.traverse("preorder")],
        "snames": [n.name for n in st.traverse("preorder")],
        "leaf": sorted([of[a], sf[b]] for a, b in x.leaf_object_species.items()),
        "costs": sorted(([[type(k).__name__, k.name], py_val(v)] for k, v in x.costs.items()), key=json.dumps),
        "syn": None,
    }
    if out["kind"] == "super":
        out["syn"] = sorted([of[a], list(s)] for a, s in x.leaf_syntenies.items())
    return {"ok": out}


ERR_NAMES = {"TreeError": "TreeError", "KeyError": "KeyError", "AttributeError": "AttributeError",
             "NewickError": "NewickError"}


def doc_variants(rng, base):
    """Documents derived from a documented-format input: as is, with keys missing, with extra keys."""
    data = base["data"]
    yield "as is", dict(data)
    d = dict(data)
    d["costs"] = rng.choice([{"SPECIATION": 7, "DUPLICATION": 9}, {"nonsense": 1}, 5, None])
    d["comment"] = ["ignored", {"a": 1}]
    yield "extra keys (costs is overwritten)", d
    for k in ("object_tree", "species_tree"):
        d = dict(data)
        del d[k]
        yield f"missing {k}", d
    if "leaf_object_species" in data:
        d = dict(data)
        del d["leaf_object_species"]
        yield "no leaf_object_species (names resolve through get_species_mapping)", d
        d = dict(data)
        los = dict(d["leaf_object_species"])
        k = rng.choice(list(los))
        if rng.random() < 0.5:
            los[k] = "nosuchspecies"
        else:
            los["nosuchleaf_1"] = los[k]
        d["leaf_object_species"] = los
        yield "unknown name in leaf_object_species", d
    if "leaf_syntenies" in data:
        d = dict(data)
        del d["leaf_syntenies"]
        yield "no leaf_syntenies (plain class)", d
        d = dict(data)
        ls = dict(d["leaf_syntenies"])
        ls["nosuchleaf_9"] = ["g1"]
        d["leaf_syntenies"] = ls
        yield "unknown leaf in leaf_syntenies", d
    else:
        d = dict(data)
        d["leaf_syntenies"] = {}
        yield "empty leaf_syntenies (super class)", d
    d = dict(data)
    d["object_tree"] = rng.choice(["((a_1,b_1);", "(a_1,b_1)", "a_1,b_1;", ""])
    if rng.random() < 0.5:
        del d["species_tree"]
    yield "broken Newick in object_tree (parsed before species_tree is looked up)", d
    d = {k: v for k, v in reversed(list(data.items()))}
    yield "keys in another order", d


def check_read_input(ctx, res, tmp):
    from . import c12 as base_mod  # generators of documented-format inputs

    rng = ctx.rng
    _READ[0] = internal(res, cli_reconcile, "read_input")
    if _READ[0] is None:
        return
    cases = []
    for _ in range(ctx.budget(120, 1200)):
        gi = base_mod.rand_input(rng)
        for what, doc in doc_variants(rng, gi):
            cases.append({"kind": "read_input", "what": what, "doc": doc,
                          "opts": rand_opts(rng, good_only=rng.random() < 0.85)})
    outs = ctx.driver.parallel([{"op": "c12c_read_input", "doc": enc_doc(c["doc"]), "opts": c["opts"]}
                                for c in cases])
    for c, m in zip(cases, outs):
        names_unnamed = "(," in c["doc"].get("object_tree", "") or ")," in c["doc"].get("object_tree", "")
        res.case(c, nontrivial=("ok" in m and names_unnamed) or "err" in m)
        if "cost_outside" in m or ("cost_error" in m and m["cost_error"].get("outside")):
            res.dist["read_input/cost options outside the cost domain (not compared)"] += 1
            continue
        py = py_read_input(c["doc"], c["opts"], tmp)
        if "cost_error" in m:
            if m["cost_error"] != py:
                if "err" in py:
                    soft_mismatch(res, "read_input", m["cost_error"], py)
                else:
                    res.tie_broken("read_input: an invalid cost option is accepted", c, m, py)
            else:
                res.dist["read_input/cost option raises " + py["err"]] += 1
            continue
        if "err" in m:
            if m.get("err") != "illTyped" and "err" in py and m != py:
                # both refuse the malformed document; WHICH exception comes first (two independent look-ups in
                # either order, an explicit validation) is not part of C12
                res.dist[f"read_input/{c['what']}: refused, model {m['err']} / code {py['err']} (note)"] += 1
                note_once(res, "C12 glue: read_input refuses some malformed document with another exception class "
                               "than the model's (see the distribution)")
            elif m.get("err") == "illTyped" or m != py:
                res.tie_broken("read_input: a malformed document is accepted / exception class", c, m, py)
            else:
                res.dist[f"read_input/{c['what']}: {m['err']}"] += 1
            continue
        mo = dict(m["ok"])
        mo["costs"] = sorted(mo["costs"], key=json.dumps)     # a dict: compared as a mapping
        mo["leaf"] = sorted(mo["leaf"])
        if mo["syn"] is not None:
            mo["syn"] = sorted(mo["syn"])
        if {"ok": mo} != py:
            res.tie_broken("read_input: class, names after label_internal, leaf assignment, costs, syntenies",
                           c, {"ok": mo}, py)
            continue
        res.dist[f"read_input/{c['what']}: {mo['kind']}"] += 1


# ---------------------------------------------------------------------------
# call_algorithm / dump_results / reconcile with stub algorithms of the real signatures


class FakeResult:
    def __init__(self, i, cost):
        self.i, self._cost = i, cost

    def cost(self):
        return self._cost

    def to_dict(self):
        return self.i


class FakeSingle(ReconciliationOutput):
    """A single ReconciliationOutput (what reconcile_lca returns)."""

    def cost(self):
        return self._cost

    def to_dict(self):
        return 0


def make_single(cost):
    o = object.__new__(FakeSingle)
    object.__setattr__(o, "_cost", cost)
    return o


def py_cost(c):
    return float("inf") if c == "inf" else c


def py_reconcile(tmp, doc, algo, solutions, costs, shape):
    """Run the real reconcile() with the registered algorithm replaced by a stub of the same signature."""
    real = cli_reconcile.algorithms[algo]
    seen = {"stub": False}

    @functools.wraps(real)
    def stub(*a, **k):
        seen["args"] = a
        seen["stub"] = True
        if shape == "none":
            return None
        if shape == "single":
            return make_single(py_cost(costs[0]))
        return [FakeResult(i, py_cost(c)) for i, c in enumerate(costs)]

    inp = os.path.join(tmp, "r.json")
    outp = os.path.join(tmp, "r.out")
    with open(inp, "w") as f:
        json.dump(doc, f)
    err = io.StringIO()
    args = None
    old = dict(cli_reconcile.algorithms)
    cli_reconcile.algorithms[algo] = stub
    try:
        with contextlib.redirect_stderr(err):
            args = parser().parse_args(["reconcile", "--input", inp, "--output", outp, algo,
                                        "--solutions", solutions])
            status = args.func(args)
    except SystemExit as e:
        status = ("exit", e.code)
    finally:
        cli_reconcile.algorithms.clear()
        cli_reconcile.algorithms.update(old)
        if args is not None:
            args.input.close()
            args.output.close()
    with open(outp) as f:
        text = f.read()
    policy = None
    if "args" in seen and len(seen["args"]) == 2:
        policy = seen["args"][1].name
    return {"status": 0 if status is None else status, "stderr": err.getvalue().splitlines(), "stdout": text,
            "called": "args" in seen, "policy": policy}


def split_stderr(lines):
    """(the printed minimum costs, every other line)."""
    mins = [ln[len("Minimum cost: "):] for ln in lines if ln.startswith("Minimum cost: ")]
    return mins, [ln for ln in lines if not ln.startswith("Minimum cost: ")]


def registry_patchable(tmp):
    """The stream replaces `cli_reconcile.algorithms[name]` by a stub.  If the tool does not look the function
    up there at call time (a table of signatures computed once, another registry), the stub is never called
    and the stream says nothing about the code."""
    try:
        if not isinstance(getattr(cli_reconcile, "algorithms", None), dict):
            return False
        py = py_reconcile(tmp, DOC_PLAIN, "thl", "any", [3], "list")
        return py["called"] and py["stdout"] == "0\n"
    except Exception:  # noqa
        return False


DOC_PLAIN = {"object_tree": "(x_1,y_1);", "species_tree": "(X,Y);"}
DOC_SUPER = dict(DOC_PLAIN, leaf_syntenies={"x_1": ["a"], "y_1": ["a"]})
ALGOS = ["exh", "lca", "thl", "base_spfs", "ext_spfs", "base_uspfs", "superdtl"]


def check_reconcile(ctx, res, tmp):
    rng = ctx.rng
    if not registry_patchable(tmp):
        note_once(res, "C12 glue: the registered algorithms cannot be replaced by stubs through "
                       "cli.reconcile.algorithms (internals differ): the reconcile stream of the glue tie is "
                       "skipped; status / output / printed cost are decided by the real runs of c12.py")
        return
    cases = []
    for algo in ALGOS:
        for sup in (False, True):
            for sol in ("any", "all"):
                for costs in ([], [3], [5, 5, 5], ["inf"], [0, 0], [3, 4], ["inf", 2]):
                    cases.append((algo, sup, sol, costs))
    for _ in range(ctx.budget(60, 600)):
        n = rng.choice([0, 1, 1, 2, 3, 6])
        c = rng.choice([rng.randint(0, 40), "inf"])
        cs = [c] * n if rng.random() < 0.7 else [rng.choice([rng.randint(0, 40), "inf"]) for _ in range(n)]
        cases.append((rng.choice(ALGOS), rng.random() < 0.5, rng.choice(["any", "all"]), cs))
    outs = ctx.driver.parallel([{"op": "c12c_reconcile", "algo": a, "syntenies": s, "solutions": so, "costs": c}
                                for a, s, so, c in cases])
    disp = ctx.driver.parallel([{"op": "c12_dispatch", "algo": a, "syntenies": s, "solutions": so,
                                 "results": len(c)} for a, s, so, c in cases])
    for (algo, sup, sol, costs), m, d in zip(cases, outs, disp):
        if algo == "lca":
            shape = "none" if not costs else "single"
            costs = costs[:1]
            m = ctx.driver.batch([{"op": "c12c_reconcile", "algo": algo, "syntenies": sup, "solutions": sol,
                                   "costs": costs}])[0]
        else:
            shape = "none" if (not costs and rng.random() < 0.5) else "list"
        case = {"kind": "reconcile", "algo": algo, "syntenies": sup, "solutions": sol, "costs": costs,
                "shape": shape}
        res.case(case, nontrivial=True)
        py = py_reconcile(tmp, DOC_SUPER if sup else DOC_PLAIN, algo, sol, costs, shape)
        called = d["call"]["r"] == "run"
        want_policy = d["call"].get("policy") if called else None
        got = {k: py[k] for k in ("status", "stderr", "stdout")}
        m_min, m_other = split_stderr(m["stderr"])
        g_min, g_other = split_stderr(got["stderr"])
        if len(set(map(str, costs))) > 1 and len(m_min) == len(g_min) == 1:
            # results of unequal cost: no algorithm returns such a list (C05); WHICH of them is printed as
            # "the" minimum (the first, the least) is free, it must be one of them
            if g_min[0] in [str(py_cost(c)) for c in costs]:
                g_min = m_min
        if (m["status"], m["stdout"], m_min) != (got["status"], got["stdout"], g_min):
            res.tie_broken("reconcile: status, output text, printed minimum cost", case, m, got)
        elif m_other != g_other and bool(m_other) == bool(g_other):
            res.dist["reconcile/wording of the warning or error message differs from the model's (note)"] += 1
        elif m_other != g_other:
            res.dist["reconcile/a warning or error message is printed on one side only (note)"] += 1
            note_once(res, "C12 glue: a warning / error message on stderr is printed by the code and not by the "
                           "model or conversely (C12 decides on status and output only)")
        elif py["called"] != called or py["policy"] != want_policy:
            res.tie_broken("call_algorithm: whether / with which policy the algorithm is called", case,
                           d["call"], {"called": py["called"], "policy": py["policy"]})
        else:
            res.dist[f"reconcile/status {m['status']}, {len(m['stderr'])} stderr line(s)"] += 1


# ---------------------------------------------------------------------------
# draw


class FakeOut:
    def __init__(self, name):
        self.name = name
        self.data = []

    def write(self, b):
        self.data.append(b)


def py_draw_output(output_fn, given, name, tex_ok):
    from superrec2.utils import tex as tex_mod

    out = FakeOut(name)
    args = types.SimpleNamespace(output_type=given, output=out)
    called = {}

    def fake_tex(source, dest):
        called["tex"] = True
        if not tex_ok:
            raise TeXError(1, "boom")

    # the compiler is stubbed wherever the module can reach it: its own name, and the attribute of utils.tex
    had = hasattr(cli_draw, "tex_compile")
    old, old_mod = getattr(cli_draw, "tex_compile", None), tex_mod.tex_compile
    if had:
        cli_draw.tex_compile = fake_tex
    tex_mod.tex_compile = fake_tex
    try:
        with contextlib.redirect_stderr(io.StringIO()), contextlib.redirect_stdout(io.StringIO()):
            status = output_fn(args, "TIKZ")
    finally:
        if had:
            cli_draw.tex_compile = old
        tex_mod.tex_compile = old_mod
    kind = "pdf" if called.get("tex") else "tikz" if out.data == [b"TIKZ"] else None
    return {"type": kind, "status": status}


def py_generate_tikz(doc, orientation, tmp):
    seen = {}

    class FakeCls:
        def __init__(self, name):
            self.name = name

        def from_dict(self, data):
            seen["cls"] = self.name
            return self.name

    fake_layout = types.SimpleNamespace(compute=lambda o, p: seen.setdefault("orientation", p.orientation.name))
    fake_tikz = types.SimpleNamespace(render=lambda o, l, p: "T")
    if not all(hasattr(cli_draw, a) for a in ("SuperReconciliationOutput", "ReconciliationOutput", "layout", "tikz",
                                              "generate_tikz")):
        return None
    olds = (cli_draw.SuperReconciliationOutput, cli_draw.ReconciliationOutput, cli_draw.layout, cli_draw.tikz)
    cli_draw.SuperReconciliationOutput = FakeCls("SuperReconciliationOutput")
    cli_draw.ReconciliationOutput = FakeCls("ReconciliationOutput")
    cli_draw.layout, cli_draw.tikz = fake_layout, fake_tikz
    inp = os.path.join(tmp, "g.json")
    with open(inp, "w") as f:
        json.dump(doc, f)
    args = None
    try:
        argv = ["draw", "--input", inp]
        if orientation is not None:
            argv += ["--orientation", orientation]
        with contextlib.redirect_stderr(io.StringIO()):
            args = parser().parse_args(argv)
        cli_draw.generate_tikz(args)
    except SystemExit:
        return {"cls": None, "orientation": None}
    except Exception:  # noqa   the fakes were not what the function used
        return None
    finally:
        (cli_draw.SuperReconciliationOutput, cli_draw.ReconciliationOutput, cli_draw.layout, cli_draw.tikz) = olds
        if args is not None:
            args.input.close()
    return seen


def check_draw(ctx, res, tmp):
    names = ["-", "a.tex", "a.pdf", "a.svg", "tex", ".tex", "x.pdf.tex", "pdf", "a.TEX", "", "a.tex.bak", "b.PDF"]
    cases = [(g, n, t) for g in (None, "tikz", "pdf") for n in names for t in (True, False)]
    outs = ctx.driver.parallel([{"op": "c12c_draw", "syntenies": False, "type": g, "name": n, "tex_ok": t}
                                for g, n, t in cases])
    output_fn = internal(res, cli_draw, "output")
    for (g, n, t), m in zip(cases, outs):
        if output_fn is None:
            break
        case = {"kind": "draw_output", "type": g, "name": n, "tex_ok": t}
        res.case(case, nontrivial=g is None)
        try:
            py = py_draw_output(output_fn, g, n, t)
        except Exception as e:  # noqa
            note_once(res, f"C12 glue: draw.output could not be driven with a fake file object ({type(e).__name__}): "
                           "stream skipped")
            break
        mm = {"type": m["type"], "status": m["status"]}
        if mm != py:
            res.tie_broken("draw: kind of output and status", case, mm, py)
        else:
            res.dist[f"draw/output {mm['type']} status {mm['status']}"] += 1
    docs = [({"input": {}, "object_species": {}}, False), ({"input": {}, "object_species": {}, "syntenies": {}}, True),
            ({"syntenies": None}, True), ({"ordered": True}, False)]
    for doc, syn in docs:
        for orient in (None, "vertical", "horizontal", "diagonal"):
            m = ctx.driver.batch([{"op": "c12c_draw", "syntenies": syn, "orientation": orient, "type": None,
                                   "name": "-", "tex_ok": True}])[0]
            case = {"kind": "draw_class", "doc": doc, "orientation": orient}
            res.case(case, nontrivial=True)
            py = py_generate_tikz(doc, orient, tmp)
            if py is None:
                note_once(res, "C12 glue: draw.generate_tikz could not be driven with fake classes / layout / tikz "
                               "(internals differ): stream skipped")
                return
            want = {"cls": m["cls"] if m["orientation"] is not None else None, "orientation": m["orientation"]}
            if want != {"cls": py.get("cls"), "orientation": py.get("orientation")}:
                res.tie_broken("draw: class chosen on `syntenies`, orientation", case, want, py)
            else:
                res.dist[f"draw/class {want['cls']} orientation {want['orientation']}"] += 1


def run_cli(ctx, res):
    with tempfile.TemporaryDirectory() as tmp:
        check_eval(ctx, res)
        check_cost_args(ctx, res, tmp)
        check_read_input(ctx, res, tmp)
        check_reconcile(ctx, res, tmp)
        check_draw(ctx, res, tmp)
