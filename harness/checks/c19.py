"""C19 — Topological orderings are enumerated completely and without repetition."""
import itertools

from superrec2.compute.super_reconciliation import _make_prec_graph
from superrec2.utils.toposort import toposort, toposort_all

from . import c19_cycle

ID = "C19"
RULE = (
    "digraphs as dict[node, set[node]] with self-loops allowed: every digraph on <= 3 vertices (both "
    "dict insertion orders), a sample (quick) or all 65536 (thorough) digraphs on 4 vertices, random "
    "digraphs on 2-7 vertices with edge density 0.05-0.7 (half of them forced acyclic so that several "
    "orderings exist), random vertex labels in 0..40, random dict insertion order, successors as sets or "
    "lists, int or str nodes (hash order variety); toposort_all is compared as a sorted list with the "
    "permutations of the vertices that respect every edge, must not repeat an ordering, and toposort "
    "must return a member of that list or None iff it is empty.  A separate stream feeds leaf syntenies "
    "to _make_prec_graph (+ toposort_all) and a malformed stream uses successors that are not keys / "
    "empty syntenies.  Non-trivial = at least 2 vertices and one edge; distinct = distinct (graph, "
    "insertion order, representation)."
)
TRUSTED = [
    "translator tie (theorems C19_code_* of Properties/C19Code.lean, only when translator_tie is ok): "
    "harness/translate_py.py translates toposort / _toposort_all_bt / toposort_all of utils/toposort.py on every run "
    "(dicts as association lists in insertion order with KeyError, sets as lists whose iteration order is an explicit "
    "parameter, deque as a list, state-passing for the mutated in-degree dict, declared fuels) into "
    "Generated/TopoPy.lean; generated toposort is proved equal to the model's, generated toposort_all is proved FOR "
    "EVERY SET ORDER to return exactly the topological orderings once each; preludes Model/PyRt.lean, PyRtColl.lean; "
    "for these theorems the hand-written Toposort model is not trusted",
    "model: lean/SRVerif/Model/Toposort.lean (deque/set/dict as lists; set iteration order of `starts` is the "
    "list order of the model, the code's is hash order: results are compared as sorted lists)",
    "spec: lean/SRVerif/Spec/Toposort.lean IsTopo (also evaluated by the driver op c19_is_topo on the "
    "orderings returned by the real code)",
    "the Python permutation filter used as oracle (itertools.permutations + index comparison)",
]
ASSUMPTIONS = [
    "translator tie: the keys of the dict handed in are pairwise different; hashing is not modelled; the iteration "
    "order of a set is a function of its elements in insertion order (every such function is covered; a dependence "
    "of CPython's order on entries deleted earlier is not)",
    "graphs are well-formed: distinct hashable nodes, successor collections without repetition, every "
    "successor is a key (otherwise the code raises KeyError: malformed stream)",
    "find_cycle is not part of this property",
    "toposort_all recurses once per vertex: beyond CPython's recursion limit (about 990 vertices) the code raises "
    "RecursionError where the model (C19_total) returns; such sizes are outside the check",
    "theorems are about nodes = natural numbers; str nodes are mapped to ints for the model",
]
OPEN = []


# ---------------------------------------------------------------------------
# case representation
#
# graph case:  {"kind": "graph", "graph": [[v, [succ, ...]], ...], "nodes": "int"|"str"|"mixed",
#               "succs": "set"|"list"}          (list order = dict insertion order)
# prec case:   {"kind": "prec", "syns": [[fam, ...], ...], "nodes": "int"|"str"}


def enc_node(v, nodes):
    if nodes == "mixed":
        # vertices are arbitrary hashables (`Node = TypeVar("Node")`): mutually UNORDERABLE kinds side by side
        return (v, f"f{v}", (v,), frozenset({v}))[v % 4]
    return v if nodes == "int" else f"f{v}"


def dec_node(x):
    if isinstance(x, tuple):
        return x[0]
    if isinstance(x, frozenset):
        return next(iter(x))
    return x if isinstance(x, int) else int(x[1:])


def build_graph(case):
    nodes = case.get("nodes", "int")
    mk = set if case.get("succs", "set") == "set" else list
    return {enc_node(v, nodes): mk(enc_node(s, nodes) for s in ss) for v, ss in case["graph"]}


def oracle_orders(pairs, verts):
    """All permutations of `verts` in which u precedes v for every (u, v)."""
    out = []
    for perm in itertools.permutations(verts):
        pos = {v: i for i, v in enumerate(perm)}
        if all(pos[u] < pos[v] for u, v in pairs):
            out.append(perm)
    return sorted(out)


def graph_edges(case):
    return [(v, s) for v, ss in case["graph"] for s in ss]


def well_formed(case):
    ks = [v for v, _ in case["graph"]]
    kset = set(ks)
    return len(kset) == len(ks) and all(
        len(set(ss)) == len(ss) and set(ss) <= kset for _, ss in case["graph"]
    )


def run_graph_impl(case):
    g = build_graph(case)
    out = {}
    try:
        r = toposort_all(g)
        out["all"] = [[dec_node(x) for x in o] for o in r]
    except Exception as e:  # noqa
        out["all"] = {"err": type(e).__name__}
    if g != build_graph(case) or list(g) != list(build_graph(case)):
        out["mutated"] = "toposort_all"
    g = build_graph(case)
    try:
        r = toposort(g)
        out["one"] = None if r is None else [dec_node(x) for x in r]
    except Exception as e:  # noqa
        out["one"] = {"err": type(e).__name__}
    if g != build_graph(case) or list(g) != list(build_graph(case)):
        out["mutated"] = "toposort"
    return out


def graph_spec(case, io):
    """The property on a well-formed graph, by permutation filtering."""
    verts = [v for v, _ in case["graph"]]
    want = oracle_orders(graph_edges(case), verts)
    got_all, got_one = io["all"], io["one"]
    if "mutated" in io:  # the model is pure: the caller's graph must be left as it was
        return f"{io['mutated']} modified the graph it was given", want
    if isinstance(got_all, dict):
        return f"toposort_all raised {got_all['err']}", want
    if isinstance(got_one, dict):
        return f"toposort raised {got_one['err']}", want
    tup = [tuple(o) for o in got_all]
    if len(set(tup)) != len(tup):
        return "toposort_all returned an ordering twice", want
    if sorted(tup) != want:
        missing = [o for o in want if o not in set(tup)]
        extra = [o for o in tup if o not in set(want)]
        return f"toposort_all: missing {missing[:3]} extra {extra[:3]}", want
    if got_one is None:
        if want:
            return "toposort returned None although an ordering exists", want
    elif tuple(got_one) not in set(want):
        return f"toposort returned {got_one}, not a topological ordering", want
    return None, want


def run_prec_impl(case):
    nodes = case.get("nodes", "int")
    leaf = {f"leaf{i}": [enc_node(v, nodes) for v in s] for i, s in enumerate(case["syns"])}
    try:
        prec = _make_prec_graph(leaf)
    except Exception as e:  # noqa
        return {"graph": {"err": type(e).__name__}, "all": None}
    graph = [[dec_node(k), sorted(dec_node(x) for x in ss)] for k, ss in prec.items()]
    try:
        r = toposort_all(prec)
        orders = [[dec_node(x) for x in o] for o in r]
    except Exception as e:  # noqa
        orders = {"err": type(e).__name__}
    return {"graph": graph, "all": orders}


def is_subseq(s, o):
    it = iter(o)
    return all(x in it for x in s)


def prec_spec(case, io):
    """Orders of the precedence graph = arrangements of the families having
    every leaf synteny as a subsequence (C19_prec)."""
    if isinstance(io["graph"], dict) or isinstance(io["all"], dict):
        return f"raised {io['graph'] if isinstance(io['graph'], dict) else io['all']}"
    fams = sorted({v for s in case["syns"] for v in s})
    want = sorted(p for p in itertools.permutations(fams) if all(is_subseq(s, p) for s in case["syns"]))
    tup = [tuple(o) for o in io["all"]]
    if len(set(tup)) != len(tup):
        return "root orderings repeat"
    if sorted(tup) != want:
        missing = [o for o in want if o not in set(tup)]
        extra = [o for o in tup if o not in set(want)]
        return f"root orderings differ from the subsequence-respecting arrangements: missing {missing[:3]} extra {extra[:3]}"
    return None


# ---------------------------------------------------------------------------
# generators


def digraph(n, bits, labels=None, order=None):
    labels = labels or list(range(n))
    adj = {labels[i]: [labels[j] for j in range(n) if bits >> (i * n + j) & 1] for i in range(n)}
    order = order or labels
    return [[v, adj[v]] for v in order]


def gen_graph_cases(ctx):
    rng = ctx.rng
    # all digraphs on <= 3 vertices, both insertion orders
    for n in range(0, 4):
        for bits in range(1 << (n * n)):
            yield {"kind": "graph", "graph": digraph(n, bits), "nodes": "int", "succs": "set"}
            if n >= 2:
                yield {"kind": "graph", "graph": digraph(n, bits, order=list(range(n))[::-1]),
                       "nodes": rng.choice(["int", "str", "mixed"]), "succs": rng.choice(["set", "list"])}
    # 4 vertices
    if ctx.thorough or ctx.deep:
        four = range(1 << 16)
    else:
        four = sorted(rng.sample(range(1 << 16), 2500))
    for bits in four:
        yield {"kind": "graph", "graph": digraph(4, bits), "nodes": "int", "succs": "set"}
    # random, up to 7 vertices
    for _ in range(ctx.budget(1500, 12000)):
        n = rng.choice([2, 3, 4, 5, 5, 6, 6, 7, 7])
        labels = rng.sample(range(41), n)
        dens = rng.choice([0.05, 0.1, 0.2, 0.3, 0.5, 0.7])
        acyclic = rng.random() < 0.5
        rank = list(range(n))
        rng.shuffle(rank)
        adj = {v: [] for v in labels}
        for i in range(n):
            for j in range(n):
                if rng.random() < dens and (not acyclic or rank[i] < rank[j]):
                    adj[labels[i]].append(labels[j])
        for v in adj:
            rng.shuffle(adj[v])
        order = labels[:]
        rng.shuffle(order)
        yield {"kind": "graph", "graph": [[v, adj[v]] for v in order],
               "nodes": rng.choice(["int", "int", "str", "mixed"]), "succs": rng.choice(["set", "set", "list"])}


def gen_malformed(ctx):
    rng = ctx.rng
    yield {"kind": "graph", "graph": [[0, [1]]], "nodes": "int", "succs": "set"}
    yield {"kind": "graph", "graph": [[0, []], [1, [2]]], "nodes": "str", "succs": "list"}
    for _ in range(ctx.budget(150, 1500)):
        n = rng.randint(1, 5)
        labels = rng.sample(range(20), n)
        g = [[v, [w for w in labels if rng.random() < 0.3]] for v in labels]
        i = rng.randrange(n)
        g[i][1].insert(rng.randint(0, len(g[i][1])), rng.choice([50, 51]))
        yield {"kind": "graph", "graph": g, "nodes": rng.choice(["int", "str"]),
               "succs": rng.choice(["set", "list"])}


def gen_prec_cases(ctx):
    rng = ctx.rng
    yield {"kind": "prec", "syns": [[1, 2, 3], [2, 4], [5]], "nodes": "int"}
    yield {"kind": "prec", "syns": [[1, 2], [2, 1]], "nodes": "str"}
    yield {"kind": "prec", "syns": [[1, 2, 1]], "nodes": "int"}
    yield {"kind": "prec", "syns": [[3, 3]], "nodes": "int"}
    yield {"kind": "prec", "syns": [], "nodes": "int"}
    yield {"kind": "prec", "syns": [[1, 2], []], "nodes": "int"}
    yield {"kind": "prec", "syns": [[]], "nodes": "str"}
    # all families of <= 2 syntenies over 3 families with length <= 3 (repetitions allowed)
    seqs = [list(s) for k in range(0, 4) for s in itertools.product([1, 2, 3], repeat=k)]
    for a in seqs:
        yield {"kind": "prec", "syns": [a], "nodes": "int"}
    for a in seqs:
        for b in seqs:
            if rng.random() < (1.0 if (ctx.thorough or ctx.deep) else 0.25):
                yield {"kind": "prec", "syns": [a, b], "nodes": "int"}
    for _ in range(ctx.budget(600, 6000)):
        nf = rng.randint(1, 6)
        fams = rng.sample(range(30), nf)
        base = fams[:]
        rng.shuffle(base)
        syns = []
        for _ in range(rng.randint(1, 4)):
            if rng.random() < 0.75:  # consistent with a common order: subsequence of base
                s = [f for f in base if rng.random() < 0.6] or [rng.choice(base)]
            else:
                s = [rng.choice(fams) for _ in range(rng.randint(1, 4))]
            syns.append(s)
        if rng.random() < 0.03:
            syns.insert(rng.randint(0, len(syns)), [])
        yield {"kind": "prec", "syns": syns, "nodes": rng.choice(["int", "str"])}


# ---------------------------------------------------------------------------
# checking


def lean_graph(case, op, **kw):
    return {"op": op, "graph": case["graph"], **kw}


def check_graphs(ctx, res, cases, malformed=False):
    m_all = ctx.driver.parallel([lean_graph(c, "c19_toposort_all") for c in cases])
    m_one = ctx.driver.parallel([lean_graph(c, "c19_toposort") for c in cases])
    spec_reqs, spec_idx = [], []
    ios = []
    for i, c in enumerate(cases):
        io = run_graph_impl(c)
        ios.append(io)
        if isinstance(io["one"], list):
            spec_reqs.append(lean_graph(c, "c19_is_topo", order=io["one"]))
            spec_idx.append(i)
    spec_out = dict(zip(spec_idx, ctx.driver.parallel(spec_reqs)))
    for i, (c, io, ma, mo) in enumerate(zip(cases, ios, m_all, m_one)):
        n = len(c["graph"])
        ne = sum(len(ss) for _, ss in c["graph"])
        wf = well_formed(c)
        res.case(c, nontrivial=(n >= 2 and ne >= 1))
        if not wf:
            # the code rejects these graphs; only the correspondence is checked
            res.dist["malformed"] += 1
            same = (
                isinstance(io["all"], dict) and io["all"] == ma
                and isinstance(io["one"], dict) and io["one"] == mo
            )
            if not same:
                res.tie_broken("malformed graph: exception class", c, {"all": ma, "one": mo}, io)
            continue
        bad, want = graph_spec(c, io)
        res.dist[f"n={n}/{'cyclic' if not want else 'orders=1' if len(want) == 1 else 'orders>1'}"] += 1
        if bad:
            res.violation(bad, c, expected=[list(o) for o in want[:20]], observed=io)
            continue
        # independent evaluation of the specification by the Lean side
        if i in spec_out and not (spec_out[i]["topo"] and spec_out[i]["wf"]):
            res.violation("toposort's ordering is rejected by the Lean specification IsTopo", c,
                          observed=io["one"])
            continue
        # correspondence with the model
        if "err" in ma or "err" in mo:
            res.tie_broken("model raises on a well-formed graph", c, {"all": ma, "one": mo}, io)
            continue
        if sorted(tuple(o) for o in ma["ok"]) != sorted(tuple(o) for o in io["all"]) or len(ma["ok"]) != len(io["all"]):
            res.tie_broken("toposort_all as sorted lists", c, ma, io["all"])
        one = mo["ok"]
        if (one is None) != (io["one"] is None) or (one is not None and tuple(one) not in set(want)):
            res.tie_broken("toposort: None-ness / validity", c, mo, io["one"])
        elif one is not None:
            res.dist["toposort same order as model" if one == io["one"] else "toposort other valid order than model"] += 1


def canon_graph(g):
    return [[k, sorted(ss)] for k, ss in g]


def check_prec(ctx, res, cases):
    outs = ctx.driver.parallel([{"op": "c19_prec_graph", "syns": c["syns"]} for c in cases])
    for c, mo in zip(cases, outs):
        io = run_prec_impl(c)
        empty = any(len(s) == 0 for s in c["syns"])
        res.case(c, nontrivial=(not empty and sum(len(s) for s in c["syns"]) >= 3))
        res.dist["prec/" + ("empty-synteny" if empty else f"{len(c['syns'])} syntenies")] += 1
        if empty:
            if not (isinstance(io["graph"], dict) and io["graph"] == mo):
                res.tie_broken("_make_prec_graph on an empty synteny", c, mo, io["graph"])
            continue
        bad = prec_spec(c, io)
        if bad:
            res.violation("_make_prec_graph + toposort_all: " + bad, c, observed=io)
            continue
        # a dict of successor SETS: the insertion order of the keys cannot be observed through toposort /
        # toposort_all (both start from set(graph) / in-degrees), so it is not compared
        if "err" in mo or sorted(canon_graph(mo["ok"])) != sorted(io["graph"]):
            res.tie_broken("_make_prec_graph (as a dict of successor sets)", c, mo, io["graph"])


CORPUS_GRAPHS = [
    # the repository's own test graphs
    {"kind": "graph", "graph": [[0, []], [1, []], [2, [3]], [3, [1]], [4, [0, 1]], [5, [0, 2]]],
     "nodes": "int", "succs": "list"},
    {"kind": "graph", "graph": [[0, [1]], [1, [2]], [2, [0]]], "nodes": "int", "succs": "list"},
    {"kind": "graph", "graph": [[0, [0]], [1, []], [2, [3]], [3, [1]], [4, [0, 1]], [5, [0, 2]]],
     "nodes": "int", "succs": "list"},
    {"kind": "graph", "graph": [[i, []] for i in range(6)], "nodes": "int", "succs": "set"},
    # a cycle reachable only after some removals; a cycle with a tail
    {"kind": "graph", "graph": [[0, [1]], [1, [2]], [2, [3]], [3, [1]]], "nodes": "str", "succs": "set"},
    {"kind": "graph", "graph": [[3, [1]], [1, [2]], [2, [1, 0]], [0, []]], "nodes": "int", "succs": "set"},
]


def history_stream(ctx, res, n):
    """Histories on ONE graph object: call, edit a successor set IN PLACE (add / remove an edge; the keys stay),
    call again ...  At every step both routines must answer for the graph AS IT IS NOW (permutation filtering).
    State kept across calls (a memo keyed by an object the caller can still edit) shows here and nowhere else."""
    rng = ctx.rng
    for _ in range(n):
        k = rng.randint(2, 5)
        g = {v: set() for v in range(k)}
        for _ in range(rng.randint(0, k)):
            g[rng.randrange(k)].add(rng.randrange(k))
        initial = [[v, sorted(ss)] for v, ss in g.items()]
        steps = []
        for step in range(rng.randint(3, 6)):
            case = {"kind": "graph", "graph": [[v, sorted(ss)] for v, ss in g.items()], "nodes": "int",
                    "history": list(steps), "initial": initial}
            io = {}
            try:
                io["all"] = [list(o) for o in toposort_all(g)]
            except Exception as e:  # noqa
                io["all"] = {"err": type(e).__name__}
            try:
                r = toposort(g)
                io["one"] = None if r is None else list(r)
            except Exception as e:  # noqa
                io["one"] = {"err": type(e).__name__}
            bad, _ = graph_spec(case, io)
            res.case(case, nontrivial=step > 0)
            res.dist["history on one graph object"] += 1
            if bad:
                res.violation(f"after {step} in-place edit(s) of the same graph object: {bad}", case, observed=io)
                return
            u, v = rng.randrange(k), rng.randrange(k)
            if v in g[u]:
                g[u].discard(v)
                steps.append(["remove", u, v])
            else:
                g[u].add(v)
                steps.append(["add", u, v])


def corpus(ctx, res):
    check_graphs(ctx, res, CORPUS_GRAPHS)


def chunks(it, size):
    buf = []
    for x in it:
        buf.append(x)
        if len(buf) >= size:
            yield buf
            buf = []
    if buf:
        yield buf


def run(ctx, res):
    for batch in chunks(gen_graph_cases(ctx), 20000):
        check_graphs(ctx, res, batch)
    for batch in chunks(gen_malformed(ctx), 20000):
        check_graphs(ctx, res, batch, malformed=True)
    for batch in chunks(gen_prec_cases(ctx), 20000):
        check_prec(ctx, res, batch)
    history_stream(ctx, res, ctx.budget(300, 3000))
    # find_cycle (outside the property's statement; modelled as is, tie by exact equality, counts in the distribution)
    c19_cycle.run_cycle(ctx, res)
    res.exhaustive = False  # all digraphs up to the stated size are enumerated (RULE); the property (all digraphs) is not enumerable


def _verdict(case):
    if case["kind"] == "prec":
        io = run_prec_impl(case)
        if any(len(s) == 0 for s in case["syns"]):
            return None, io
        return prec_spec(case, io), io
    io = run_graph_impl(case)
    if not well_formed(case):
        return None, io
    return graph_spec(case, io)[0], io


def shrink(ctx, violation):
    """Greedy: drop vertices, then edges, while the property still fails."""
    case = violation["input"]
    if case.get("kind") != "graph" or "initial" in case:  # histories are replayed as they are
        return violation
    cur = case
    changed = True
    while changed:
        changed = False
        verts = [v for v, _ in cur["graph"]]
        for v in verts:
            g = [[u, [s for s in ss if s != v]] for u, ss in cur["graph"] if u != v]
            cand = dict(cur, graph=g)
            if _verdict(cand)[0]:
                cur, changed = cand, True
                break
        if changed:
            continue
        for i, (u, ss) in enumerate(cur["graph"]):
            for s in ss:
                g = [[a, [b for b in bs if not (a == u and b == s)]] for a, bs in cur["graph"]]
                cand = dict(cur, graph=g)
                if _verdict(cand)[0]:
                    cur, changed = cand, True
                    break
            if changed:
                break
    bad, io = _verdict(cur)
    verts = [v for v, _ in cur["graph"]]
    return dict(violation, what=bad, input=cur, observed=io,
                expected=[list(o) for o in oracle_orders(graph_edges(cur), verts)[:20]])


def replay_history(case):
    """Re-run a call / edit-in-place / call history on one graph object; None or what fails at the last step."""
    g = {v: set(ss) for v, ss in case["initial"]}
    bad = None
    for step in [None] + list(case["history"]):
        if step is not None:
            op, u, v = step
            (g[u].add if op == "add" else g[u].discard)(v)
        cur = {"kind": "graph", "graph": [[v, sorted(ss)] for v, ss in g.items()], "nodes": "int"}
        io = {}
        try:
            io["all"] = [list(o) for o in toposort_all(g)]
        except Exception as e:  # noqa
            io["all"] = {"err": type(e).__name__}
        try:
            r = toposort(g)
            io["one"] = None if r is None else list(r)
        except Exception as e:  # noqa
            io["one"] = {"err": type(e).__name__}
        bad, _ = graph_spec(cur, io)
        if bad:
            return bad
    return None


def replay(ctx, data):
    if isinstance(data.get("input"), dict) and "initial" in data["input"]:
        bad = replay_history(data["input"])
        return bad is None, ("ok: property holds on this history" if bad is None else "still fails: " + bad)
    case = data["input"]
    bad, io = _verdict(case)
    return (bad is None, f"impl={io} verdict={'ok' if bad is None else bad}")
