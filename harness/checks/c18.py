"""C18 — Subsequence masks and segment distances are exact.

Two ties between the Lean theorems and the source:
1. correspondence (this module): the hand-written model lean/SRVerif/Model/Subseq.lean is compared with the
   running code on the bounded-exhaustive / random inputs described in RULE;
2. translator tie (harness/translate_py.py, run by harness/common.py:lean_build before this module): the four
   function bodies are translated mechanically into lean/SRVerif/Generated/SubseqPy.lean on every run and PROVED
   equal to the model (Generated/SubseqPyEquiv.lean); Properties/C18Code.lean restates the theorems for the
   generated functions.  Evidence: "translator_tie": "ok (sha256 ...)".
   * translator cannot parse / generated definitions ill-typed / proof script stale while Lean finds no input
     distinguishing generated function and model  ->  "unavailable: <reason>", NO alarm: C18Code is left out of
     this run and tie 1 runs with the thorough budget (ctx.deep);
   * Lean exhibits an input on which a generated function differs from the model  ->  gen_f_eq_model is a failed
     proof obligation: deep search, then VIOLATION (with the failing input, or no-failing-input-found).
"""
import itertools

from superrec2.utils.subsequences import (
    mask_from_subseq,
    subseq_complete,
    subseq_from_mask,
    subseq_segment_dist,
)

ID = "C18"
RULE = (
    "segment distance: every (child, parent) mask pair below 2^n (n = 7 quick, 10 thorough) in both end "
    "modes, plus random pairs up to 20 bits and a few up to 80 bits (contained children drawn as "
    "parent & random, sometimes with one stray bit); round trips: every duplicate-free sequence up to "
    "length 6 quick / 8 thorough (elements only matter up to equality, so 0..n-1 and random relabellings) "
    "with all of its 2^n subsequences, mask -> sequence -> mask for every mask below 2^n, sequences with "
    "repeated elements and non-subsequence children for the model tie only; bridge: child <+ parent <+ "
    "root triples; malformed: masks with a bit beyond the parent (IndexError).  A distance case is "
    "non-trivial when the child is non-empty and either not contained or some parent position is lost; "
    "a round-trip case when the subsequence is non-empty and proper."
)
TRUSTED = [
    "model: lean/SRVerif/Model/Subseq.lean (maskFromSubseq, subseqFromMask, subseqComplete, subseqSegmentDist; "
    "Python ints are Nat, IndexError is `none`)",
    "spec: lean/SRVerif/Spec/Subseq.lean (Contained via Nat.testBit, keptPattern, lostRuns counted by run ends) "
    "and its Python restatement here (itertools.groupby on the bit pattern)",
    "translator tie (theorems C18_code_* of Properties/C18Code.lean, only when translator_tie is ok): "
    "harness/translate_py.py (Python ast -> Lean normal form; int parameters as Nat, == on elements as "
    "DecidableEq, IndexError as Except.error) and the prelude lean/SRVerif/Model/PyRt.lean; for these theorems "
    "the hand-written model is NOT trusted (generated functions are proved equal to it)",
]
ASSUMPTIONS = [
    "masks are non-negative ints (a negative child mask makes subseq_from_mask loop forever; not modelled)",
    "sequence elements are compared with == only; modelled as natural numbers",
    "the property's distance clauses are for non-empty child masks; the behaviour at child = 0 is only "
    "recorded (C18_dist_zero) and tied to the model",
]
OPEN = []


# --------------------------------------------------------------------------
# Independent restatement of the property


def bits_of(mask):
    return [i for i in range(mask.bit_length()) if (mask >> i) & 1]


def spec_runs(pattern, edges):
    """Number of maximal runs of 0 in `pattern`; runs touching either end are
    dropped when `edges` is false."""
    groups = [k for k, _ in itertools.groupby(pattern)]
    if not edges:
        if groups and groups[0] == 0:
            groups = groups[1:]
        if groups and groups[-1] == 0:
            groups = groups[:-1]
    return sum(1 for k in groups if k == 0)


def spec_dist(child, parent, edges):
    """The property for child != 0."""
    if child & ~parent:
        return -1
    pattern = [(child >> i) & 1 for i in bits_of(parent)]
    return spec_runs(pattern, edges)


def recorded_zero(parent, edges):
    """Recorded behaviour at child = 0 (C18_dist_zero)."""
    if not edges:
        return -1
    return 0 if parent == 0 else 1


def call(fn, *args):
    try:
        return fn(*args)
    except Exception as e:  # mapped to a small enum
        return {"err": type(e).__name__}


# --------------------------------------------------------------------------
# Segment distance


def dist_case(child, parent, edges):
    return {"kind": "dist", "child": child, "parent": parent, "edges": edges}


def judge_dist(res, case, impl, model, lspec):
    """impl: real code; model: Lean model; lspec: Lean specification value."""
    child, parent, edges = case["child"], case["parent"], case["edges"]
    nontrivial = child != 0 and ((child & ~parent) != 0 or (parent & ~child) != 0)
    res.case(case, nontrivial)
    if child == 0:
        res.dist["dist/child=0"] += 1
        exp = recorded_zero(parent, edges)
        if impl != exp or model != exp:
            res.tie_broken("recorded behaviour at child = 0 (C18_dist_zero)", case, model, impl)
        return
    exp = spec_dist(child, parent, edges)
    res.dist["dist/" + ("not-contained" if exp < 0 else f"runs={min(exp, 3)}{'+' if exp > 3 else ''}")
             + ("/edges" if edges else "/inner")] += 1
    if impl != exp:
        res.violation("segment distance differs from the number of lost runs / containment",
                      case, expected=exp, observed=impl)
        return
    if lspec is not None and impl != lspec:
        res.violation("segment distance differs from the Lean specification (SubseqSpec.segmentDist)",
                      case, expected=lspec, observed=impl)
        return
    if impl != model:
        res.tie_broken("subseqSegmentDist model vs subseq_segment_dist", case, model, impl)


def run_grid(ctx, res, nbits):
    reqs = [
        {"op": "c18_dist_row", "parent": p, "nbits": nbits, "edges": e}
        for p in range(1 << nbits)
        for e in (False, True)
    ]
    outs = ctx.driver.parallel(reqs)
    for r, o in zip(reqs, outs):
        p, e = r["parent"], r["edges"]
        for c in range(1 << nbits):
            impl = call(subseq_segment_dist, c, p, e)
            judge_dist(res, dist_case(c, p, e), impl, o["model"][c], o["spec"][c])


def random_pairs(ctx, n):
    rng = ctx.rng
    for _ in range(n):
        width = rng.choice([8, 12, 16, 20, 20, 20, 33, 64, 80])
        parent = rng.getrandbits(width)
        if rng.random() < 0.3:  # long runs
            for _ in range(rng.randint(1, 3)):
                a = rng.randrange(width)
                b = rng.randrange(a, width)
                m = ((1 << (b - a + 1)) - 1) << a
                parent = parent | m if rng.random() < 0.5 else parent & ~m
        child = parent & rng.getrandbits(width)
        if rng.random() < 0.3:
            for _ in range(rng.randint(1, 2)):
                a = rng.randrange(width)
                b = rng.randrange(a, width)
                child &= ~(((1 << (b - a + 1)) - 1) << a)
        r = rng.random()
        if r < 0.15:
            child |= 1 << rng.randrange(width + 2)  # maybe a stray bit
        elif r < 0.2:
            child = rng.getrandbits(width)
        yield dist_case(child, parent, rng.random() < 0.5)


def check_dist_cases(ctx, res, cases):
    reqs = []
    for c in cases:
        reqs.append({"op": "seg_dist", "child": c["child"], "parent": c["parent"], "edges": c["edges"]})
        reqs.append({"op": "c18_spec", "child": c["child"], "parent": c["parent"], "edges": c["edges"]})
    outs = ctx.driver.parallel(reqs)
    for i, c in enumerate(cases):
        impl = call(subseq_segment_dist, c["child"], c["parent"], c["edges"])
        judge_dist(res, c, impl, outs[2 * i], outs[2 * i + 1]["dist"])


# --------------------------------------------------------------------------
# Round trips


def seq_case(parent, child):
    return {"kind": "seq", "parent": parent, "child": child}


def mask_case(parent, mask):
    return {"kind": "mask", "parent": parent, "mask": mask}


def lenclass(parent):
    n = len(parent)
    return "len<=2" if n <= 2 else "len3-8" if n <= 8 else "len>8"


def is_subseq(child, parent):
    it = iter(parent)
    return all(any(x == y for y in it) for x in child)


def fresh(seq):
    """Elements that are EQUAL to those of `seq` but are not the same objects (tuples built at run time), so
    that `is` in place of `==` shows: the property is about sequences of (distinct) elements compared by
    equality; small ints and interned strings are identical whenever they are equal."""
    return [(x,) for x in seq]


def mixed(seq):
    """Equal-by-position elements of mutually UNORDERABLE kinds (int / str / tuple / frozenset side by side): the
    property speaks of sequences of distinct elements, compared by equality only (nothing may sort or order them)."""
    return [(x, f"e{x}", (x,), frozenset({x}))[x % 4] if isinstance(x, int) else x for x in seq]


def check_seq_cases(ctx, res, cases):
    """child -> mask -> child (property when child is a subsequence of a
    duplicate-free parent); model tie on everything."""
    reqs = [{"op": "mask_from", "child": c["child"], "parent": c["parent"]} for c in cases]
    reqs += [{"op": "complete", "parent": c["parent"]} for c in cases]
    outs = ctx.driver.parallel(reqs)
    n = len(cases)
    back_reqs = []
    impl_masks = []
    for i, c in enumerate(cases):
        parent, child = c["parent"], c["child"]
        # two cases in three: child and parent hold equal but distinct objects, or elements of unorderable kinds
        m = (call(mask_from_subseq, child, parent) if i % 3 == 0 else
             call(mask_from_subseq, fresh(child), fresh(parent)) if i % 3 == 1 else
             call(mask_from_subseq, mixed(child), mixed(parent)))
        impl_masks.append(m)
        back_reqs.append({"op": "seq_from", "mask": m if isinstance(m, int) else 0, "parent": parent})
    backs = ctx.driver.parallel(back_reqs)
    for i, c in enumerate(cases):
        parent, child = c["parent"], c["child"]
        distinct = len(set(parent)) == len(parent)
        sub = is_subseq(child, parent)
        m = impl_masks[i]
        res.case(c, nontrivial=sub and 0 < len(child) < len(parent))
        res.dist[f"seq/{lenclass(parent)}/{'distinct' if distinct else 'repeats'}/"
                 f"{'subseq' if sub else 'other'}"] += 1
        comp = call(subseq_complete, parent)
        if sub:
            # the property (C18_roundtrip_seq holds even with repeats)
            back = call(subseq_from_mask, m, parent) if isinstance(m, int) else m
            if back != child:
                res.violation("subsequence -> mask -> subsequence is not the identity", c,
                              expected=child, observed={"mask": m, "back": back})
                continue
            if not (isinstance(m, int) and 0 <= m <= comp and m < (1 << len(parent))):
                res.violation("mask of a subsequence does not fit the parent", c,
                              expected=f"0 <= mask <= {comp}", observed=m)
                continue
            if child == parent and m != comp:
                res.violation("subseq_complete is not the mask of the whole sequence", c,
                              expected=m, observed=comp)
                continue
            if distinct:
                exp = sum(1 << parent.index(x) for x in child)
                if m != exp:
                    res.tie_broken("bit i of the mask <-> i-th parent element (C18_mask_bits)", c, exp, m)
        if m != outs[i]:
            res.tie_broken("maskFromSubseq model vs mask_from_subseq", c, outs[i], m)
        if comp != outs[n + i]:
            res.tie_broken("subseqComplete model vs subseq_complete", c, outs[n + i], comp)
        if isinstance(m, int):
            back = call(subseq_from_mask, m, parent)
            if back != backs[i]:
                res.tie_broken("subseqFromMask model vs subseq_from_mask", c, backs[i], back)


def check_mask_cases(ctx, res, cases):
    """mask -> child -> mask; masks beyond the parent are the malformed stream."""
    reqs = [{"op": "seq_from", "mask": c["mask"], "parent": c["parent"]} for c in cases]
    outs = ctx.driver.parallel(reqs)
    for c, mo in zip(cases, outs):
        parent, mask = c["parent"], c["mask"]
        distinct = len(set(parent)) == len(parent)
        fits = mask < (1 << len(parent))
        child = call(subseq_from_mask, mask, parent)
        res.case(c, nontrivial=fits and 0 < mask < (1 << len(parent)) - 1)
        res.dist[f"mask/{lenclass(parent)}/{'fits' if fits else 'malformed'}/"
                 f"{'distinct' if distinct else 'repeats'}"] += 1
        if child != mo:
            res.tie_broken("subseqFromMask model vs subseq_from_mask (IndexError = none)", c, mo, child)
            continue
        if not fits:
            if child != {"err": "IndexError"}:
                res.tie_broken("mask beyond the parent must raise IndexError", c, mo, child)
            continue
        if distinct:
            if isinstance(child, dict) or not is_subseq(child, parent):
                res.violation("mask -> subsequence does not give a subsequence of the parent", c,
                              observed=child)
                continue
            back = call(mask_from_subseq, child, parent)
            if back != mask:
                res.violation("mask -> subsequence -> mask is not the identity", c,
                              expected=mask, observed={"child": child, "back": back})
                continue
            if child != [parent[i] for i in bits_of(mask)]:
                res.tie_broken("bit i of the mask <-> i-th parent element (C18_mask_bits)", c,
                               [parent[i] for i in bits_of(mask)], child)


def relabel(rng, n):
    labels = rng.sample(range(0, 3 * n + 3), n)
    return labels


def gen_seq(ctx, maxlen):
    rng = ctx.rng
    seqs, masks = [], []
    for n in range(0, maxlen + 1):
        parents = [list(range(n))]
        if n >= 2:
            parents.append(relabel(rng, n))
            parents.append(list(range(n - 1, -1, -1)))
        for parent in parents:
            for m in range(1 << n):
                seqs.append(seq_case(parent, [parent[i] for i in bits_of(m)]))
                masks.append(mask_case(parent, m))
            # malformed: bits beyond the parent
            for extra in (n, n + 1, n + 3):
                masks.append(mask_case(parent, (1 << extra) | rng.getrandbits(n)))
    # tie only: repeated elements, children that are not subsequences
    for _ in range(ctx.budget(1500, 20000)):
        n = rng.randint(0, maxlen)
        parent = [rng.randint(0, 3) for _ in range(n)]
        child = [rng.randint(0, 4) for _ in range(rng.randint(0, n + 1))]
        if rng.random() < 0.5:
            child = [x for x in parent if rng.random() < 0.5]
        seqs.append(seq_case(parent, child))
        masks.append(mask_case(parent, rng.getrandbits(n + 1)))
    # longer duplicate-free sequences, sampled
    for _ in range(ctx.budget(500, 5000)):
        n = rng.randint(maxlen + 1, 24)
        parent = relabel(rng, n)
        m = rng.getrandbits(n)
        seqs.append(seq_case(parent, [parent[i] for i in bits_of(m)]))
        masks.append(mask_case(parent, m))
    return seqs, masks


# --------------------------------------------------------------------------
# Bridge: masks w.r.t. a root order vs runs counted on the sequences


def bridge_case(root, parent, child, edges):
    return {"kind": "bridge", "root": root, "parent": parent, "child": child, "edges": edges}


def check_bridge_cases(ctx, res, cases):
    reqs = [{"op": "c18_spec_seq", "child": c["child"], "parent": c["parent"], "edges": c["edges"]}
            for c in cases]
    outs = ctx.driver.parallel(reqs)
    for c, lspec in zip(cases, outs):
        root, parent, child, edges = c["root"], c["parent"], c["child"], c["edges"]
        cm = call(mask_from_subseq, fresh(child), fresh(root))
        pm = call(mask_from_subseq, parent, root)
        impl = call(subseq_segment_dist, cm, pm, edges) if isinstance(cm, int) and isinstance(pm, int) else cm
        pattern = [1 if x in child else 0 for x in parent]
        exp = spec_runs(pattern, edges)
        res.case(c, nontrivial=0 in pattern)
        res.dist[f"bridge/{'edges' if edges else 'inner'}"] += 1
        if impl != exp:
            res.violation("distance between masks w.r.t. a root order differs from the lost runs of the "
                          "sequences", c, expected=exp, observed=impl)
        elif lspec != exp:
            res.tie_broken("SubseqSpec.lostRunsSeq vs Python run count", c, lspec, exp)


def gen_bridge(ctx):
    rng = ctx.rng
    out = []
    n = ctx.budget(5, 6)
    for k in range(1, n + 1):  # exhaustive: root 0..k-1, all parent <+ root, all non-empty child <+ parent
        root = list(range(k))
        for pm in range(1, 1 << k):
            pbits = bits_of(pm)
            for sub in range(1, 1 << len(pbits)):
                child = [pbits[i] for i in bits_of(sub)]
                for e in (False, True):
                    out.append(bridge_case(root, pbits, child, e))
    for _ in range(ctx.budget(1000, 20000)):
        k = rng.randint(3, 18)
        root = relabel(rng, k)
        parent = [x for x in root if rng.random() < 0.7]
        child = [x for x in parent if rng.random() < 0.5]
        if not child:
            continue
        out.append(bridge_case(root, parent, child, rng.random() < 0.5))
    return out


# --------------------------------------------------------------------------

CORPUS = [
    # upstream unit tests
    dist_case(0b1111_0111, 0b1111_1111, True), dist_case(0b1111_0111, 0b1111_1111, False),
    dist_case(0b1100_0010, 0b1110_0011, True), dist_case(0b1100_0010, 0b1110_0011, False),
    dist_case(0b0100_0010, 0b1100_0010, True), dist_case(0b0100_0010, 0b1100_0010, False),
    dist_case(0b1010_1010, 0b0101_0101, True), dist_case(0b111, 0b110, False),
    dist_case(((1 << 64) - 1) & ~(3 << 52) & ~(1 << 63) & ~1, ((1 << 64) - 1) & ~(3 << 52), True),
    dist_case(((1 << 64) - 1) & ~(3 << 52) & ~(1 << 63) & ~1, ((1 << 64) - 1) & ~(3 << 52), False),
    # child = 0
    dist_case(0, 0, False), dist_case(0, 0, True), dist_case(0, 0b1011, False), dist_case(0, 0b1011, True),
]


def corpus(ctx, res):
    check_dist_cases(ctx, res, CORPUS)
    letters = list(range(12))
    check_seq_cases(ctx, res, [seq_case(letters, [1, 2, 5, 8, 9, 11]), seq_case(letters, []),
                               seq_case(letters, letters)])
    check_mask_cases(ctx, res, [mask_case(letters, 0b1011_0010_0110), mask_case(letters, 0),
                                mask_case(letters, 0b1111_1111_1111), mask_case([1, 2], 4)])


def run(ctx, res):
    run_grid(ctx, res, ctx.budget(7, 10))
    check_dist_cases(ctx, res, list(random_pairs(ctx, ctx.budget(6000, 150000))))
    seqs, masks = gen_seq(ctx, ctx.budget(6, 8))
    check_seq_cases(ctx, res, seqs)
    check_mask_cases(ctx, res, masks)
    check_bridge_cases(ctx, res, gen_bridge(ctx))
    # the bounded scope of the property's quantifier is covered completely by the thorough budget
    res.exhaustive = False  # bounded-exhaustive scopes are described in RULE; the property (unbounded masks) is not enumerable


def replay(ctx, data):
    case = data["input"]
    kind = case["kind"]
    if kind == "dist":
        impl = call(subseq_segment_dist, case["child"], case["parent"], case["edges"])
        exp = (spec_dist if case["child"] else recorded_zero_)(case["child"], case["parent"], case["edges"])
        return impl == exp, f"impl={impl} spec={exp}"
    if kind == "seq":
        m = call(mask_from_subseq, fresh(case["child"]), fresh(case["parent"]))  # equal, not identical, objects
        back = call(subseq_from_mask, m, case["parent"]) if isinstance(m, int) else m
        comp = call(subseq_complete, case["parent"])
        ok = back == case["child"] and isinstance(m, int) and 0 <= m <= comp
        if case["child"] == case["parent"]:
            ok = ok and m == comp
        return ok, f"mask={m} back={back} complete={comp}"
    if kind == "mask":
        child = call(subseq_from_mask, case["mask"], case["parent"])
        back = call(mask_from_subseq, child, case["parent"]) if isinstance(child, list) else child
        ok = isinstance(child, list) and is_subseq(child, case["parent"]) and back == case["mask"]
        return ok, f"child={child} back={back}"
    if kind == "bridge":
        cm = mask_from_subseq(fresh(case["child"]), fresh(case["root"]))
        pm = mask_from_subseq(case["parent"], case["root"])
        impl = call(subseq_segment_dist, cm, pm, case["edges"])
        exp = spec_runs([1 if x in case["child"] else 0 for x in case["parent"]], case["edges"])
        return impl == exp, f"impl={impl} spec={exp}"
    raise ValueError(kind)


def recorded_zero_(child, parent, edges):
    return recorded_zero(parent, edges)
