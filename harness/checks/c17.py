"""C17 — Ancestry queries on trees are exact (LowestCommonAncestor, RangeMinQuery).

Two ties between the Lean theorems and the source:
1. correspondence (this module): the hand-written model lean/SRVerif/Model/Lca.lean is compared with the
   running code on the bounded-exhaustive / random inputs described in RULE (trees AND arrays);
2. translator tie, for utils/range_min_query.py only (harness/translate_py.py, run by
   harness/common.py:lean_build before this module): `_ilog2`, `RangeMinQuery.__init__` and
   `RangeMinQuery.__call__` are translated mechanically into lean/SRVerif/Generated/RmqPy.lean on every run and
   PROVED equal to the model (Generated/RmqPyEquiv.lean, proofs Proofs/RmqPyEquiv.lean); Properties/C17Code.lean
   restates the range-minimum theorems for the generated functions.  Evidence: "translator_tie": "ok (sha256 ...)".
   * translator cannot parse / generated definitions ill-typed / proof script stale while Lean finds no input in
     the model's domain distinguishing generated functions and model  ->  "unavailable: <reason>", NO alarm:
     C17Code is left out of this run and tie 1 runs with the thorough budget (ctx.deep);
   * Lean exhibits an input on which they differ  ->  gen_*_eq_model is a failed proof obligation: deep search,
     then VIOLATION (with the failing input, or no-failing-input-found).
   utils/trees.py (`_euler_tour`, `LowestCommonAncestor`) is tied by 1 only.
"""
import itertools
from collections import deque

from ete3 import Tree

from superrec2.utils.range_min_query import RangeMinQuery
from superrec2.utils.trees import LowestCommonAncestor

ID = "C17"
RULE = (
    "trees: every ordered rooted shape up to 6 (quick) / 7 (thorough) nodes, built as ete3 trees whose nodes are "
    "named uniquely / all unnamed ('') / all alike / from {a, b} (a deterministic function of the shape: names are not "
    "part of the definitions), with lca() on every single node, ordered pair and ordered triple of nodes and the five "
    "derived queries on every ordered pair; random trees up to 40 nodes (random recursive, caterpillars, "
    "stars, chains, bushy) with sampled pairs, triples and larger node sets; arrays: every non-empty array "
    "up to length 6 / 9 over {0,1,2} with every (start, stop) in [0, n]^2 (empty ranges included), random "
    "arrays of (level, id) pairs; a small malformed stream (empty array, ranges reaching outside the "
    "array, lca() without argument or with a foreign node) compares exception classes only.  The oracle "
    "walks parent chains (node.up) and does a breadth-first search for distances; min(data[start:stop]) "
    "for arrays.  A tree case is non-trivial when the nodes are pairwise incomparable or the answer "
    "differs from every argument; a range case when its length is not a power of two (overlapping windows)."
)
TRUSTED = [
    "model: lean/SRVerif/Model/Lca.lean (RangeMinQuery table/query, _euler_tour, first-occurrence index, "
    "LowestCommonAncestor.__call__ and derived queries; exceptions as Except PyErr)",
    "a TreeNode is represented by its path of child indices; `==`/hash of TreeNode is object identity",
    "`_ilog2` (int.bit_length() - 1) is modelled by fuelled halving, proved to be the integral log2",
    "translator tie (theorems C17_code_* of Properties/C17Code.lean, only when translator_tie is ok): "
    "harness/translate_py.py (Python ast -> Lean normal form; a class as a structure of the attributes stored by "
    "__init__; Python ints as Int with wrap-around indexing; item assignment as checked List.set; `min` through an "
    "explicit, possibly raising `lt_` = Element.__lt__; lists with value semantics, programs that could alias a "
    "list are rejected) and the prelude lean/SRVerif/Model/PyRt.lean, lean/SRVerif/Model/RmqPyBridge.lean "
    "(translation of exception names); for these theorems the hand-written RangeMinQuery model is NOT trusted "
    "(the generated functions are proved equal to it)",
]
ASSUMPTIONS = [
    "the tree is not mutated after LowestCommonAncestor(tree); nodes passed belong to the tree",
    "array elements are totally ordered (theorem: any linear order; tie: ints and int pairs)",
    "negative start/stop (Python negative indexing) are outside the model (the GENERATED __call__ does describe "
    "them, wrapping around as Python does, but no theorem is stated about them)",
    "array elements are immutable and their `<` has no side effect (translator tie)",
]
OPEN = []

ALPHABET = [0, 1, 2]

# --------------------------------------------------------------------------
# trees


def forests(n, _memo={}):
    """All ordered forests with n nodes, as nested lists."""
    if n in _memo:
        return _memo[n]
    if n == 0:
        out = [[]]
    else:
        out = []
        for k in range(1, n + 1):  # size of the first tree
            for first in forests(k - 1):
                for rest in forests(n - k):
                    out.append([first] + rest)
    _memo[n] = out
    return out


def shapes(n):
    """All ordered rooted trees with n nodes (a tree = list of its children)."""
    return forests(n - 1)


NAMINGS = ["unique", "unnamed", "all-equal", "two-letters"]


def naming_of(shape):
    """Deterministic choice of how the nodes of a shape are NAMED (names are not part of the queries' definitions:
    the same shape is built with unique names, with the empty name Newick gives unnamed nodes, with one name for
    every node, or with names from {a, b} — repeated along root-to-leaf paths)."""
    import zlib

    return zlib.crc32(repr(shape).encode()) % len(NAMINGS)


def build(shape, naming=0):
    """ete3 tree of a nested-list shape; returns (root, [(path, node)] in preorder)."""
    def name(path):
        if naming == 1:
            return ""
        if naming == 2:
            return "x"
        if naming == 3:
            return "ab"[(len(path) + sum(path)) % 3 % 2]
        return "n" + "_".join(map(str, path)) if path else "r"

    root = Tree()
    root.name = name(())
    nodes = []

    def rec(node, sh, path):
        nodes.append((path, node))
        for i, sub in enumerate(sh):
            child = Tree()
            child.name = name(path + (i,))
            node.add_child(child)
            rec(child, sub, path + (i,))

    rec(root, shape, ())
    return root, nodes


def size(shape):
    return 1 + sum(size(s) for s in shape)


def random_shape(rng, n):
    """A random tree with exactly n nodes, from a mix of families."""
    kind = rng.choice(["recursive", "recursive", "pref", "caterpillar", "chain", "star", "binary"])
    parents = [None]
    if kind == "recursive":
        for i in range(1, n):
            parents.append(rng.randrange(i))
    elif kind == "pref":  # few hubs
        for i in range(1, n):
            parents.append(rng.choice(parents[1:] + [0, 0]) if i > 1 else 0)
    elif kind == "caterpillar":
        spine = [0]
        for i in range(1, n):
            if rng.random() < 0.5:
                parents.append(spine[-1])
                spine.append(i)
            else:
                parents.append(rng.choice(spine))
    elif kind == "chain":
        for i in range(1, n):
            parents.append(i - 1 if rng.random() < 0.9 else rng.randrange(i))
    elif kind == "star":
        for i in range(1, n):
            parents.append(0 if rng.random() < 0.8 else rng.randrange(i))
    else:
        cnt = {0: 0}
        for i in range(1, n):
            free = [j for j in range(i) if cnt[j] < 2]
            p = rng.choice(free)
            cnt[p] += 1
            cnt[i] = 0
            parents.append(p)
    kids = {i: [] for i in range(n)}
    for i in range(1, n):
        kids[parents[i]].append(i)
    for i in kids:
        rng.shuffle(kids[i])

    def mk(i):
        return [mk(c) for c in kids[i]]

    return mk(0)


# independent oracle ---------------------------------------------------------


def chain(node):
    """node, parent, grand-parent, ..., root."""
    out = [node]
    while out[-1].up is not None:
        out.append(out[-1].up)
    return out


def naive_lca(nodes):
    """Deepest node lying on the parent chain of every argument."""
    common = chain(nodes[0])
    for n in nodes[1:]:
        ids = {id(x) for x in chain(n)}
        common = [x for x in common if id(x) in ids]
    return common[0]  # chains are listed deepest first


def naive_is_anc(a, b):
    return any(x is a for x in chain(b))


def naive_level(a):
    return len(chain(a)) - 1


def naive_dist(a, b):
    seen = {id(a)}
    todo = deque([(a, 0)])
    while todo:
        x, d = todo.popleft()
        if x is b:
            return d
        for y in list(x.children) + ([x.up] if x.up is not None else []):
            if id(y) not in seen:
                seen.add(id(y))
                todo.append((y, d + 1))
    raise AssertionError("disconnected")


def err(e):
    return {"err": type(e).__name__}


class TreeCase:
    def __init__(self, shape, naming=None):
        self.shape = shape
        self.naming = naming_of(shape) if naming is None else naming
        self.root, self.nodes = build(shape, self.naming)
        self.by_path = {p: n for p, n in self.nodes}
        self.path_of = {id(n): list(p) for p, n in self.nodes}
        self.lca = LowestCommonAncestor(self.root)

    def node(self, path):
        return self.by_path[tuple(path)]

    def impl_lca(self, paths):
        try:
            nodes = [self.by_path[tuple(p)] if tuple(p) in self.by_path else Tree() for p in paths]
            return {"ok": self.path_of[id(self.lca(*nodes))]}
        except Exception as e:  # noqa
            return err(e)

    def impl_queries(self, a, b):
        x, y = self.node(a), self.node(b)
        try:
            return {"ok": {
                "lca": self.path_of[id(self.lca(x, y))],
                "anc": bool(self.lca.is_ancestor_of(x, y)),
                "strict": bool(self.lca.is_strict_ancestor_of(x, y)),
                "cmp": bool(self.lca.is_comparable(x, y)),
                "level_a": self.lca.level(x),
                "level_b": self.lca.level(y),
                "dist": self.lca.distance(x, y),
            }}
        except Exception as e:  # noqa
            return err(e)

    def spec_queries(self, a, b):
        x, y = self.node(a), self.node(b)
        return {"ok": {
            "lca": self.path_of[id(naive_lca([x, y]))],
            "anc": naive_is_anc(x, y),
            "strict": naive_is_anc(x, y) and x is not y,
            "cmp": naive_is_anc(x, y) or naive_is_anc(y, x),
            "level_a": naive_level(x),
            "level_b": naive_level(y),
            "dist": naive_dist(x, y),
        }}

    def spec_lca(self, paths):
        return {"ok": self.path_of[id(naive_lca([self.node(p) for p in paths]))]}

    def impl_internal(self):
        tour = [[lvl, self.path_of[id(n)]] for lvl, n in self.lca.traversal]
        table = [
            [None if c is None else [c[0], self.path_of[id(c[1])]] for c in row]
            for row in self.lca.range_min_query.sparse_table
        ]
        return {"tour": tour, "table": table}


def is_prefix(p, q):
    return len(p) <= len(q) and list(q[: len(p)]) == list(p)


def lca_nontrivial(paths, answer):
    return all(list(answer) != list(p) for p in paths) and len(paths) >= 2


def check_tree(ctx, res, shape, node_sets, pairs, bucket, malformed=()):
    """One tree: construct, compare tour/table, run all queries against oracle and model."""
    try:
        tc = TreeCase(shape)
    except Exception as e:  # construction must not raise (C17_no_node_cmp)
        res.violation(f"LowestCommonAncestor(tree) raised {type(e).__name__}: {e}",
                      {"kind": "init", "tree": shape})
        return
    reqs = [
        {"op": "c17_tour", "tree": shape},
        {"op": "c17_lca", "tree": shape, "queries": [list(map(list, q)) for q in node_sets] + list(malformed)},
        {"op": "c17_queries", "tree": shape, "pairs": [[list(a), list(b)] for a, b in pairs]},
    ]
    return tc, reqs, node_sets, pairs, bucket, list(malformed)


def finish_tree(ctx, res, job, outs):
    tc, reqs, node_sets, pairs, bucket, malformed = job
    shape = tc.shape
    m_tour, m_lca, m_q = outs
    # The Euler tour and the sparse table are INTERNALS (private attributes, a particular table layout).  They are
    # compared with the model's when they can be read in the expected shape; a different layout, or a difference in
    # the representation alone, is a note — every public query below is still compared and judged.
    try:
        internal = tc.impl_internal()
    except Exception as e:  # noqa
        internal = None
        res.dist["internal tables unreadable (refactored)"] += 1
        if not any("internal tables" in n for n in res.notes):
            res.notes.append(f"C17: Euler tour / sparse table could not be read in the expected layout "
                             f"({type(e).__name__}); internal-table tie skipped, public queries still compared")
    if internal is not None and internal != m_tour:
        res.dist["internal tables differ from the model (queries compared separately)"] += 1
        if not any("differ from the model" in n for n in res.notes):
            res.notes.append("C17: Euler tour / sparse table differ from the model's on some tree (representation); "
                             "the public queries are compared and judged separately")
    nt = 0
    for q, mo in zip(node_sets, m_lca):
        q = [list(p) for p in q]
        case = {"kind": "lca", "tree": shape, "names": tc.naming, "nodes": q}
        io = tc.impl_lca(q)
        exp = tc.spec_lca(q)
        if io != exp:
            res.violation("lca(*nodes) is not the deepest common ancestor on parent chains", case,
                          expected=exp, observed=io)
            continue
        if io != mo:
            res.tie_broken("lca(*nodes): model vs implementation", case, mo, io)
        if lca_nontrivial(q, io["ok"]):
            nt += 1
    for q, mo in zip(malformed, m_lca[len(node_sets):]):
        io = tc.impl_lca(q)
        res.dist["tree/malformed"] += 1
        if io != mo:
            res.tie_broken("lca(*nodes) on malformed arguments (exception class)",
                           {"kind": "lca", "tree": shape, "nodes": q}, mo, io)
    for (a, b), mo in zip(pairs, m_q):
        a, b = list(a), list(b)
        case = {"kind": "queries", "tree": shape, "names": tc.naming, "a": a, "b": b}
        io = tc.impl_queries(a, b)
        exp = tc.spec_queries(a, b)
        if io != exp:
            bad = [k for k in exp["ok"] if "ok" not in io or io["ok"][k] != exp["ok"][k]]
            res.violation(f"queries {bad} disagree with their parent-chain definitions", case,
                          expected=exp, observed=io)
            continue
        if io != mo:
            res.tie_broken("derived queries: model vs implementation", case, mo, io)
        if not exp["ok"]["cmp"]:
            nt += 1
    n = len(node_sets) + len(pairs)
    res.case({"kind": "tree", "tree": shape, "queries": n}, nontrivial=nt > 0, n=n)
    res.dist[bucket] += n
    res.dist["node names: " + NAMINGS[tc.naming]] += 1
    res.dist["nontrivial-queries"] += nt


def run_tree_jobs(ctx, res, jobs):
    jobs = [j for j in jobs if j is not None]
    reqs = [r for j in jobs for r in j[1]]
    outs = ctx.driver.parallel(reqs)
    for i, j in enumerate(jobs):
        finish_tree(ctx, res, j, outs[3 * i: 3 * i + 3])


def exhaustive_tree_jobs(ctx, res, max_nodes):
    for n in range(1, max_nodes + 1):
        for shape in shapes(n):
            paths = [p for p, _ in build(shape)[1]]
            sets = [(a,) for a in paths]
            sets += list(itertools.product(paths, repeat=2))
            sets += list(itertools.product(paths, repeat=3))
            pairs = list(itertools.product(paths, repeat=2))
            yield check_tree(ctx, res, shape, sets, pairs, f"tree/exhaustive/{n}",
                             malformed=[[], [[9]], [[], [0, 0, 0, 0, 0, 0, 0, 0]]])


def random_tree_jobs(ctx, res, count):
    rng = ctx.rng
    for _ in range(count):
        n = rng.choice([8, 9, 10, 12, 15, 20, 25, 30, 35, 40, 40])
        shape = random_shape(rng, n)
        paths = [p for p, _ in build(shape)[1]]
        sets = []
        for _ in range(40):
            k = rng.choice([1, 2, 2, 2, 3, 3, 4, 6, 10])
            sets.append(tuple(rng.choice(paths) for _ in range(k)))
        sets.append(tuple(paths))
        pairs = [(rng.choice(paths), rng.choice(paths)) for _ in range(60)]
        pairs += [(p, p) for p in rng.sample(paths, 2)]
        yield check_tree(ctx, res, shape, sets, pairs, f"tree/random/{(n // 10) * 10}+")


# --------------------------------------------------------------------------
# arrays


def enc_el(x):
    return list(x) if isinstance(x, tuple) else x


def impl_rmq(data, queries):
    try:
        rmq = RangeMinQuery(data)
    except Exception as e:  # noqa
        return err(e)
    results = []
    for s, t in queries:
        try:
            r = rmq(s, t)
            results.append({"ok": None if r is None else enc_el(r)})
        except Exception as e:  # noqa
            results.append(err(e))
    try:  # the sparse table is an internal attribute with a particular layout: None when it cannot be read
        table = [[None if c is None else enc_el(c) for c in row] for row in rmq.sparse_table]
    except Exception:  # noqa
        table = None
    return {"results": results, "table": table}


def spec_rmq(data, s, t):
    return {"ok": enc_el(min(data[s:t])) if s < t else None}


def is_pow2(x):
    return x > 0 and x & (x - 1) == 0


def check_arrays(ctx, res, arrays, kind, bucket, beyond=0):
    """arrays: list of python lists; all (start, stop) in [0, n + beyond]^2."""
    jobs = []
    for data in arrays:
        n = len(data)
        qs = [(s, t) for s in range(n + beyond + 1) for t in range(n + beyond + 1)]
        jobs.append((data, qs))
    outs = ctx.driver.parallel([
        {"op": "c17_rmq", "kind": kind, "data": [enc_el(x) for x in d], "queries": [list(q) for q in qs]}
        for d, qs in jobs
    ])
    for (data, qs), mo in zip(jobs, outs):
        n = len(data)
        enc = [enc_el(x) for x in data]
        io = impl_rmq(data, qs)
        nt = 0
        if "err" in io:
            if n > 0:
                res.violation(f"RangeMinQuery(data) raised {io['err']}", {"kind": "rmq", "elem": kind,
                              "data": enc, "start": 0, "stop": n})
                continue
        else:
            for (s, t), r in zip(qs, io["results"]):
                if t <= n and s <= n:
                    exp = spec_rmq(data, s, t)
                    if r != exp:
                        res.violation("range-minimum query is not the minimum of data[start:stop]",
                                      {"kind": "rmq", "elem": kind, "data": enc, "start": s, "stop": t},
                                      expected=exp, observed=r)
                    if t - s >= 2 and not is_pow2(t - s):
                        nt += 1
        # tie: answers and exception classes must equal the model's; the sparse TABLE is compared too, but a
        # difference of the table alone (another layout, tuples for lists, ...) is a note, not a broken tie
        # Ranges reaching outside the array are outside the property: whether the call raises is compared, the
        # exception CLASS is not (IndexError from a short row / TypeError from a None padding cell depends on the
        # table layout: one more padding cell per row changes it and nothing else).
        def norm(rs):
            if not isinstance(rs, list):
                return rs
            return [({"err": "*"} if ("err" in r and (a > n or b > n)) else r) for (a, b), r in zip(qs, rs)]

        if ("err" in io) != ("err" in mo) or io.get("err") != mo.get("err") \
                or norm(io.get("results")) != norm(mo.get("results")):
            res.tie_broken("RangeMinQuery: answers and exception classes",
                           {"kind": "rmq", "elem": kind, "data": enc, "beyond": beyond}, mo, io)
        elif io.get("table") != mo.get("table"):
            res.dist["rmq sparse table differs from the model (answers equal)"] += 1
            if not any("sparse table" in n_ for n_ in res.notes):
                res.notes.append("C17: RangeMinQuery.sparse_table differs from the model's table on some array while "
                                 "every answer agrees (representation)")
        res.case({"kind": "rmq-array", "elem": kind, "data": enc, "beyond": beyond},
                 nontrivial=nt > 0, n=len(qs))
        res.dist[bucket] += len(qs)


def array_stream(ctx, res):
    rng = ctx.rng
    max_len = ctx.budget(6, 9)
    batch = []
    for n in range(1, max_len + 1):
        for data in itertools.product(ALPHABET, repeat=n):
            batch.append(list(data))
            if len(batch) >= 4000:
                check_arrays(ctx, res, batch, "int", "rmq/exhaustive")
                batch = []
    check_arrays(ctx, res, batch, "int", "rmq/exhaustive")
    # longer random arrays of ints, and of (level, id) pairs compared as tuples
    ints, pairs = [], []
    for _ in range(ctx.budget(150, 1500)):
        n = rng.choice([10, 13, 16, 17, 31, 32, 33, 50])
        ints.append([rng.randrange(-5, 6) for _ in range(n)])
    for _ in range(ctx.budget(300, 3000)):
        n = rng.randrange(1, 14)
        pairs.append([(rng.randrange(3), rng.randrange(4)) for _ in range(n)])
    check_arrays(ctx, res, ints, "int", "rmq/random-int")
    check_arrays(ctx, res, pairs, "pair", "rmq/random-pair")
    # malformed: empty array, ranges reaching beyond the end (exception classes only)
    mal = [[]] + [list(d) for n in range(1, 6) for d in itertools.product([0, 1], repeat=n)]
    check_arrays(ctx, res, mal, "int", "rmq/malformed", beyond=3)


# --------------------------------------------------------------------------

CORPUS_TREES = [
    # the tree of tests/utils/test_trees.py: ((2,(4,5)3)1,(7,8,(10)9)6)0
    [[[], [[], []]], [[], [], [[]]]],
    # unary chain, star, single node
    [[[[[]]]]],
    [[], [], [], [], []],
    [],
]


def corpus(ctx, res):
    jobs = []
    for shape in CORPUS_TREES:
        paths = [p for p, _ in build(shape)[1]]
        sets = [(a,) for a in paths] + list(itertools.product(paths, repeat=2))
        if len(paths) <= 7:
            sets += list(itertools.product(paths, repeat=3))
        jobs.append(check_tree(ctx, res, shape, sets, list(itertools.product(paths, repeat=2)),
                               "tree/corpus", malformed=[[]]))
    run_tree_jobs(ctx, res, jobs)
    check_arrays(ctx, res, [[3, 1, 5, 3, 4, 7, 6, 1], [8, 8, 8]], "int", "rmq/corpus")


def one_history(hseed):
    """One history over REUSED node objects, determined by `hseed`: a tree is indexed (LowestCommonAncestor built and
    queried), edited in place (a new first child under a random node, or a subtree detached), and a NEW
    LowestCommonAncestor is built over the same node objects; every query of the new instance must agree with the
    parent chains of the tree as it is now.  Returns (case, None | what fails)."""
    import random

    rng = random.Random(hseed)
    shape = random_shape(rng, rng.randint(3, 9))
    root, nodes = build(shape)
    first = LowestCommonAncestor(root)
    objs = [nd for _, nd in nodes]
    try:
        first(*rng.sample(objs, 2))
    except Exception:  # noqa
        pass
    edit = rng.choice(["new_first_child", "detach"])
    case = {"kind": "history", "hseed": hseed, "shape": shape, "edit": edit}
    if edit == "new_first_child":
        host = rng.choice(objs)
        fresh = Tree()
        fresh.name = "x"
        host.children.insert(0, fresh)
        fresh.up = host
        new_root = root
    else:
        inner = [nd for nd in objs if nd.children and nd is not root]
        if not inner:
            return case, None
        new_root = rng.choice(inner).detach()
    cur = list(new_root.traverse("preorder"))
    try:
        second = LowestCommonAncestor(new_root)
    except Exception as e:  # noqa
        return case, f"LowestCommonAncestor over reused node objects after '{edit}' raised {type(e).__name__}"
    for _ in range(12):
        x, y = rng.choice(cur), rng.choice(cur)
        try:
            got = (second(x, y) is naive_lca([x, y]), bool(second.is_ancestor_of(x, y)) == naive_is_anc(x, y),
                   second.level(x) == naive_level(x), second.distance(x, y) == naive_dist(x, y))
        except Exception as e:  # noqa
            got = type(e).__name__
        if got != (True, True, True, True):
            return case, (f"after the tree was edited in place ('{edit}') and indexed again over the same node objects, "
                          f"the queries disagree with the parent chains (lca, ancestor, level, distance ok: {got})")
    return case, None


def history_stream(ctx, res, n):
    """State shared between LowestCommonAncestor instances (a class-level index, a cache keyed by nodes) shows only
    on histories over reused node objects."""
    for _ in range(n):
        case, bad = one_history(ctx.rng.getrandbits(32))
        res.case(case, nontrivial=True)
        res.dist["history over reused node objects"] += 1
        if bad:
            res.violation(bad, case)
            return


def run(ctx, res):
    history_stream(ctx, res, ctx.budget(200, 2000))
    max_nodes = ctx.budget(6, 7)
    run_tree_jobs(ctx, res, list(exhaustive_tree_jobs(ctx, res, max_nodes)))
    run_tree_jobs(ctx, res, list(random_tree_jobs(ctx, res, ctx.budget(150, 2000))))
    array_stream(ctx, res)
    res.exhaustive = False  # bounded-exhaustive scopes are listed in the notes; the property (all trees, all arrays) is not enumerable
    res.notes.append(
        f"bounded-exhaustive: all ordered tree shapes <= {max_nodes} nodes x all singles/pairs/triples; "
        f"all arrays over {{0,1,2}} of length <= {ctx.budget(6, 9)} x all ranges"
    )


def replay(ctx, data):
    case = data["input"]
    kind = case["kind"]
    if kind == "history":
        _, bad = one_history(case["hseed"])
        return bad is None, ("ok: property holds on this history" if bad is None else "still fails: " + bad)
    if kind == "rmq":
        elem = case.get("elem", "int")
        arr = [tuple(x) if elem == "pair" else x for x in case["data"]]
        io = impl_rmq(arr, [(case["start"], case["stop"])])
        if "err" in io:
            return False, f"impl={io}"
        exp = spec_rmq(arr, case["start"], case["stop"])
        ok = io["results"][0] == exp
        return ok, f"impl={io['results'][0]} expected={exp} verdict={'ok' if ok else 'violation'}"
    if kind == "init":
        try:
            TreeCase(case["tree"])
            return True, "constructed"
        except Exception as e:  # noqa
            return False, f"LowestCommonAncestor(tree) raised {type(e).__name__}: {e}"
    tc = TreeCase(case["tree"], case.get("names"))
    if kind == "lca":
        io, exp = tc.impl_lca(case["nodes"]), tc.spec_lca(case["nodes"])
    else:
        io, exp = tc.impl_queries(case["a"], case["b"]), tc.spec_queries(case["a"], case["b"])
    ok = io == exp
    return ok, f"impl={io} expected={exp} verdict={'ok' if ok else 'violation'}"
