"""C01 — General DTL reconciliation returns a minimum-cost reconciliation."""
import itertools

from .. import gen, solvers
from . import c01_code
from ..solvers import Run, execute, judge_optimal, keys, lean_case, tie
from ..sr import build_input, canon_solution

ID = "C01"
ALGOS = ["thl", "exh"]
RULE = (
    "binary object/species trees with every kind of leaf assignment (species hosting nothing, everything in one "
    "species, single-node trees), cost vectors on a small grid inside the region spe <= dup + 2*floss with zero "
    "costs, the boundary and an infinite transfer cost over-sampled; reconcile_thl / reconcile_exhaustive under "
    "both policies and generate_all are run in-process and compared with the Lean model (same set of solutions) "
    "and with the Lean specification (validity; cost = minimum over all valid mappings; enumerator = filter of "
    "all mappings, each once).  Quick: random cases up to 5x6 leaves; thorough: additionally every input up to "
    "4x4 leaves on a cost grid.  Non-trivial = at least 3 object leaves and 2 species; distinct = distinct "
    "(case, algorithm)."
)
TRUSTED = [
    "models: lean/SRVerif/Model/{Rec,LabelDP,Solvers}.lean; specification: lean/SRVerif/Spec/Opt.lean",
    "species are modelled as root paths; that LowestCommonAncestor computes the path operations is C17",
    "the label-DP model stores decoded solutions per table cell; the code-structured model (tables of C16 entries "
    "with child-assignment tags, two helper functions, aggregates, decoder) is proved to return the same solutions "
    "(C01_thlCode_refines) and is tied to the real table entry by entry (checks/c01_code.py)",
] + c01_code.TRUSTED
ASSUMPTIONS = [
    "cost vectors inside spe <= dup + 2*floss (F-COHERENCE is a recorded finding outside it)",
    "non-negative integer unit costs; only the transfer cost may be infinite",
]
OPEN = [
]

CORPUS = [
    # fixed: F-THL-SPE
    {"S": [[], [[], []]], "O": [{"s": "0"}, [{"s": "0"}, [{"s": "10"}, {"s": "11"}]]],
     "costs": {"spe": 2, "dup": 0, "hgt": 1, "floss": 1}},
    # fixed: F-THL-LOSSDIST (wrong optimum; dropped co-optimal solution)
    {"S": [[[], []], []], "O": [{"s": "1"}, [{"s": "01"}, [{"s": "01"}, [{"s": "01"}, {"s": "00"}]]]],
     "costs": {"spe": 0, "dup": 1, "hgt": 3, "floss": 3}},
    {"S": [[[], []], [[], []]], "O": [[[{"s": "10"}, {"s": "01"}], [{"s": "01"}, {"s": "00"}]], {"s": "11"}],
     "costs": {"spe": 0, "dup": 1, "hgt": 3, "floss": 1}},
    # fixed: F-THL-UNREACHABLE
    {"S": [[], [[[], []], []]], "O": [{"s": "101"}, {"s": "100"}]},
    {"S": [[], []], "O": [{"s": "0"}, {"s": "1"}], "costs": {"hgt": "inf"}},
    # single-node trees
    {"S": [], "O": {"s": ""}},
    {"S": [[], []], "O": {"s": "1"}},
    {"S": [], "O": [{"s": ""}, {"s": ""}]},
]


def gen_all_check(ctx, res, cases):
    """generate_all yields every valid reconciliation exactly once."""
    from superrec2.compute.exhaustive import generate_all

    reqs = [{"op": "spec_all_valid", "S": c["S"], "O": c["O"]} for c in cases]
    reqs += [{"op": "gen_all", "O": c["O"]} for c in cases]
    outs = ctx.driver.parallel(reqs)
    n = len(cases)
    for c, spec, model in zip(cases, outs[:n], outs[n:]):
        try:
            got = [canon_solution(o) for o in generate_all(build_input(c, force_plain=True))]
        except Exception as e:
            res.violation(f"generate_all fails: {type(e).__name__}", {"case": c, "algo": "generate_all"})
            continue
        res.case({"case": c, "algo": "generate_all"}, solvers.nontrivial(c))
        k = keys(got)
        if len(set(k)) != len(k):
            res.violation("generate_all yields a reconciliation twice", {"case": c, "algo": "generate_all"})
        elif k != keys(spec):
            res.violation(
                f"generate_all yields {len(k)} reconciliations, {len(spec)} valid ones exist",
                {"case": c, "algo": "generate_all"})
        if k != keys(model):
            res.tie_broken("generate_all vs model (set of mappings)", c, len(model), len(k))


def judge(ctx, res, runs):
    for r in runs:
        res.case({"case": r.case, "algo": r.algo}, solvers.nontrivial(r.case))
        solvers.describe(res, r.case, r.algo)
        judge_optimal(res, r, ID)
        tie(res, r)


def cases_for(ctx):
    rng = ctx.rng
    out = []
    for _ in range(ctx.budget(1500, 8000)):
        out.append(solvers.plain_case(ctx, rng))
    if ctx.thorough or ctx.deep:
        grid = [
            {"spe": 0, "dup": 1, "hgt": 1, "floss": 1},
            {"spe": 1, "dup": 0, "hgt": 0, "floss": 1},
            {"spe": 2, "dup": 2, "hgt": "inf", "floss": 0},
            {"spe": 0, "dup": 0, "hgt": 0, "floss": 0},
        ]
        for base in gen.exhaustive_plain_cases(4, 4):
            for g in (grid if len(gen.leaf_paths(base["S"])) <= 3 else grid[:2]):
                out.append({**base, "costs": dict(g)})
    return out


def corpus(ctx, res):
    items = [(c, a) for c in CORPUS for a in ALGOS]
    judge(ctx, res, execute(ctx, items))
    gen_all_check(ctx, res, CORPUS)
    c01_code.corpus_code(ctx, res, CORPUS)
    # witnesses of recorded findings: reported as KNOWN-FINDING while they still fail
    for case, algo, fid in solvers.known_witnesses(ID, ["thl"]):
        for r in execute(ctx, [(case, algo)]):
            judge_optimal(res, r, ID)


def run(ctx, res):
    cases = cases_for(ctx)
    items = [(c, a) for c in cases for a in ALGOS]
    for i in range(0, len(items), 4000):
        judge(ctx, res, execute(ctx, items[i : i + 4000]))
    gen_all_check(ctx, res, cases[: ctx.budget(150, 3000)])
    c01_code.run_code(ctx, res)
    # histories on one input object: costs changed in place between calls (state keyed by the input object)
    rng = ctx.rng
    for c in rng.sample(cases, min(len(cases), ctx.budget(60, 600))):
        other = gen.rand_costs(rng, plain=True)
        if rng.random() < 0.4:
            other["hgt"] = "inf"
        if not solvers.inplace_history(res, c, dict(solvers.full_costs(c), **other), rng.choice(["thl", "thl", "exh"])):
            break


def fails_one(ctx):
    from ..common import Result

    def f(case):
        r = Result()
        for a in ALGOS:
            judge(ctx, r, execute(ctx, [(case, a)]))
        return r.concrete[0] if r.concrete else None

    return f


def shrink(ctx, violation):
    if violation["input"].get("algo") == "generate_all":
        return violation
    return solvers.shrink(ctx, violation, fails_one(ctx))


def replay(ctx, data):
    from ..common import Result

    inp = data["input"]
    case = inp["case"]
    r = Result()
    if "history" in inp:
        return solvers.replay_inplace(inp)
    if inp.get("algo") == "generate_all":
        gen_all_check(ctx, r, [case])
    else:
        judge(ctx, r, execute(ctx, [(case, inp.get("algo", "thl"))]))
    ok = not r.concrete
    return ok, ("ok: property holds on this input" if ok else "still fails: " + r.concrete[0]["what"])
