"""C16 — DP entries hold the optimum and the tags of optimal candidates."""
import itertools

from infinity import inf

from superrec2.utils.dynamic_programming import (
    Candidate,
    DictDimension,
    Entry,
    ListDimension,
    MergePolicy,
    RetentionPolicy,
    Table,
)

from harness.checks import c16_table

ID = "C16"
RULE = (
    "histories of Candidate(value, tag) over values {0,1,2,+inf,-inf} and tags {None,a,b}, split into "
    "batches (every composition), for the 2x3 policy pairs, on standalone entries, on cells of 1-3 "
    "dimensional tables (Dict and List dimensions) and through combine(); with model comparison: every "
    "history up to length 3 (quick) / 4 (thorough) on standalone entries and up to length 2 / 3 (values "
    "incl. +-inf) on cells, then random ones of length 5-12; thorough tier only: EVERY history of length 5 "
    "over {0,1,2} x {None,a,b}, on standalone entries under every batching and on a table cell (shape and "
    "batching rotating), the 2x3 policies, decided on the implementation by the property itself (no model "
    "run).  Under 'any' tags are compared by membership in the model's 'all' set.  A case is non-trivial when at least two candidates tie for the optimum "
    "or an improving candidate follows a tagged one; distinct = distinct (kind, policies, history).  "
    + c16_table.RULE_TABLE
)
TRUSTED = [
    "model: lean/SRVerif/Model/Entry.lean (update1 = one loop iteration of Entry.update, Cell.update = EntryProxy.update)",
    "Python truthiness of tags is modelled as `is not None` (tags in scope are None or truthy)",
] + list(c16_table.TRUSTED_TABLE)
ASSUMPTIONS = [
    "values are ints or +-infinity; tags are hashable and truthy",
] + list(c16_table.ASSUMPTIONS_TABLE)
OPEN = []

VALS = [0, 1, 2]
TAGS = [None, 1, 2]
TAGNAME = {None: None, 1: "a", 2: "b"}
MERGES = [("min", MergePolicy.MIN), ("max", MergePolicy.MAX)]
RETAINS = [("none", RetentionPolicy.NONE), ("any", RetentionPolicy.ANY), ("all", RetentionPolicy.ALL)]


def enc(v):
    return "inf" if v == inf else "-inf" if v == -inf else v


def dec(v):
    return inf if v == "inf" else -inf if v == "-inf" else v


def cand(c):
    return Candidate(dec(c[0]), TAGNAME.get(c[1], c[1]))


def untag(t):
    if isinstance(t, tuple):
        return untag(t[0]) * 1000 + untag(t[1])
    return {"a": 1, "b": 2}.get(t, t)


def compositions(n):
    """All ways of cutting range(n) into consecutive non-empty batches."""
    for cuts in itertools.product([0, 1], repeat=max(0, n - 1)):
        sizes, cur = [], 1
        for c in cuts:
            if c:
                sizes.append(cur)
                cur = 1
            else:
                cur += 1
        if n:
            sizes.append(cur)
        yield sizes


def split(hist, sizes):
    out, i = [], 0
    for s in sizes:
        out.append(hist[i : i + s])
        i += s
    return out


def run_impl(case):
    m = dict(MERGES)[case["merge"]]
    r = dict(RETAINS)[case["retain"]]
    kind = case["kind"]
    if kind == "entry":
        e = Entry(m, r)
        for b in case["batches"]:
            e.update(*[cand(c) for c in b])
        return {"value": enc(e.value()), "infos": sorted(untag(t) for t in e.infos()), "len": len(e)}
    if kind == "cell":
        dims = [DictDimension() if d == "d" else ListDimension(2) for d in case["dims"]]
        t = Table(dims, m, r)
        key = [("k" if d == "d" else 1) for d in case["dims"]]
        other = [("z" if d == "d" else 0) for d in case["dims"]]

        def proxy(k):
            p = t
            for x in k:
                p = p[x]
            return p

        for b in case["batches"]:
            proxy(key).update(*[cand(c) for c in b])
        p = proxy(key)
        q = proxy(other)
        return {
            "value": enc(p.value()),
            "infos": sorted(untag(x) for x in p.infos()),
            "len": len(p),
            "inf": p.is_infinite(),
            "other": [enc(q.value()), sorted(q.infos()), q.is_infinite(), len(q)],
        }
    if kind == "combine":
        ea, eb = Entry(m, r), Entry(m, r)
        ea.update(*[cand(c) for c in case["a"]])
        eb.update(*[cand(c) for c in case["b"]])
        e = ea.combine(eb, lambda x, y: Candidate(x.value + y.value, (x.info, y.info)))
        return {"value": enc(e.value()), "infos": sorted(untag(t) for t in e.infos())}
    raise ValueError(kind)


def lean_req(case, retain=None):
    r = dict(case)
    r["op"] = case["kind"]
    if retain:
        r["retain"] = retain
    return r


def better(m, cur, v):
    return v < cur if m == "min" else v > cur


def spec_check(case, out):
    """The property itself, evaluated independently of model and code.
    Returns None or a description of the failure."""
    m, r = case["merge"], case["retain"]
    sentinel = inf if m == "min" else -inf
    if case["kind"] == "combine":
        return None  # decided through the entry spec on the product, see check_combine
    batches = case["batches"]
    if case["kind"] == "cell":
        batches = [b for b in batches if any(dec(c[0]) not in (inf, -inf) for c in b)]
        oth = out["other"]
        if oth != [enc(sentinel), [], True, 0]:
            return f"never-written cell reads {oth}"
    cands = [c for b in batches for c in b]
    vals = [dec(c[0]) for c in cands]
    opt = sentinel
    for v in vals:
        if better(m, opt, v):
            opt = v
    if dec(out["value"]) != opt:
        return f"value {out['value']} is not the optimum {enc(opt)}"
    opt_tags = sorted({c[1] for c in cands if dec(c[0]) == opt and c[1] is not None})
    got = out["infos"]
    if r == "all" and got != opt_tags:
        return f"tags {got} differ from the tags of optimal candidates {opt_tags}"
    if r == "any" and not (len(got) <= 1 and set(got) <= set(opt_tags) and bool(got) == bool(opt_tags)):
        return f"tags {got} under 'any'; optimal candidates carry {opt_tags}"
    if r == "none" and got:
        return f"tags {got} under 'none'"
    if "len" in out and out["len"] != len(got):
        return "len() differs from the number of tags"
    return None


def nontrivial(case):
    cands = [c for b in case.get("batches", []) for c in b] or (case.get("a", []) + case.get("b", []))
    vals = [dec(c[0]) for c in cands]
    if not vals:
        return False
    best = min(vals) if case["merge"] == "min" else max(vals)
    return vals.count(best) >= 2 or any(
        cands[i][1] is not None and better(case["merge"], vals[i], vals[j])
        for i in range(len(cands))
        for j in range(i + 1, len(cands))
    )


def gen_cases(ctx):
    rng = ctx.rng
    atoms = [(v, t) for v in VALS for t in TAGS]
    exh_len = ctx.budget(3, 4)
    for n in range(0, exh_len + 1):
        for hist in itertools.product(atoms, repeat=n):
            for sizes in compositions(n):
                b = split([list(c) for c in hist], sizes)
                for m, _ in MERGES:
                    for r, _ in RETAINS:
                        yield {"kind": "entry", "merge": m, "retain": r, "batches": b}
    # length 5 (and up): sampled
    xatoms = [(v, t) for v in VALS + ["inf", "-inf"] for t in TAGS]
    for _ in range(ctx.budget(3000, 60000)):
        n = rng.choice([5, 5, 6, 8, 12])
        hist = [list(rng.choice(xatoms if rng.random() < 0.5 else atoms)) for _ in range(n)]
        sizes = rng.choice(list(compositions(min(n, 6))))
        if n > 6:
            sizes = sizes + [n - 6]
        b = split(hist, sizes)
        m = rng.choice(MERGES)[0]
        r = rng.choice(RETAINS)[0]
        kind = rng.choice(["entry", "cell", "cell"])
        case = {"kind": kind, "merge": m, "retain": r, "batches": b}
        if kind == "cell":
            case["dims"] = "".join(rng.choice("dl") for _ in range(rng.randint(1, 3)))
        yield case
    # cells, exhaustive on short histories with infinities
    for n in range(0, ctx.budget(2, 3) + 1):
        for hist in itertools.product(xatoms, repeat=n):
            for sizes in compositions(n):
                b = split([list(c) for c in hist], sizes)
                for m, _ in MERGES:
                    for r, _ in RETAINS:
                        yield {"kind": "cell", "merge": m, "retain": r, "batches": b,
                               "dims": rng.choice(["d", "l", "dd", "dl", "ldd"])}
    # combine
    for _ in range(ctx.budget(2000, 30000)):
        a = [list(rng.choice(atoms)) for _ in range(rng.randint(0, 4))]
        b = [list(rng.choice(atoms)) for _ in range(rng.randint(0, 4))]
        yield {"kind": "combine", "merge": rng.choice(MERGES)[0], "retain": rng.choice(RETAINS)[0],
               "a": a, "b": b}


CORPUS = [
    # F-ENTRY-STALE: an untagged improving candidate after a tagged one
    {"kind": "entry", "merge": "min", "retain": "all", "batches": [[[2, 1]], [[1, None]]]},
    {"kind": "entry", "merge": "max", "retain": "any", "batches": [[[1, 2], [2, None]]]},
    {"kind": "cell", "merge": "min", "retain": "all", "dims": "dd", "batches": [[[2, 1]], [[1, None]]]},
]


def check_cases(ctx, res, cases):
    reqs, reqs_all = [], []
    for c in cases:
        reqs.append(lean_req(c))
        reqs_all.append(lean_req(c, "all") if c["retain"] == "any" else None)
    outs = ctx.driver.parallel(reqs)
    outs_all = ctx.driver.parallel([r for r in reqs_all if r is not None])
    it_all = iter(outs_all)
    for c, mo, ra in zip(cases, outs, reqs_all):
        mo_all = next(it_all) if ra is not None else None
        try:
            io = run_impl(c)
        except Exception as e:  # the API must not raise on these histories
            res.violation(f"exception {type(e).__name__}: {e}", c)
            continue
        res.case(c, nontrivial(c))
        res.dist[f"{c['kind']}/{c['merge']}/{c['retain']}"] += 1
        if c["kind"] == "combine":
            check_combine(res, c, io)
        else:
            bad = spec_check(c, io)
            if bad:
                res.violation(bad, c, observed=io)
                continue
        # correspondence with the model
        same = io["value"] == mo["value"]
        if c["retain"] == "any":
            same = same and len(io["infos"]) == len(mo["infos"]) and set(io["infos"]) <= set(mo_all["infos"])
        else:
            same = same and io["infos"] == sorted(mo["infos"])
        if c["kind"] == "cell":
            same = same and io["inf"] == (mo["value"] in ("inf", "-inf"))
        if not same:
            res.tie_broken("Entry/Cell model vs implementation (value, tag set)", c, mo, io)


def check_combine(res, c, io):
    """combine = optimum over pairs of retained tags (spec evaluated here)."""
    m, r = c["merge"], c["retain"]
    ea = run_impl({"kind": "entry", "merge": m, "retain": r, "batches": [c["a"]]})
    eb = run_impl({"kind": "entry", "merge": m, "retain": r, "batches": [c["b"]]})
    pairs = [[[_add(ea["value"], eb["value"]), x * 1000 + y]] for x in ea["infos"] for y in eb["infos"]]
    bad = spec_check({"kind": "entry", "merge": m, "retain": r, "batches": pairs}, io)
    if bad:
        res.violation("combine: " + bad, c, observed=io)


def _add(a, b):
    return enc(dec(a) + dec(b))


def corpus(ctx, res):
    check_cases(ctx, res, CORPUS)
    c16_table.corpus_table(ctx, res)


EXH5_SHAPES = ["d", "l", "dd", "dl", "ld", "ldd", "dld", "lll"]


def exhaustive_scope(ctx, res):
    """The bounded-exhaustive scope quoted in the property's quantifier, beyond what gen_cases
    exhausts: every history of length 5 over values {0,1,2} x tags {None,a,b}, the 2x3 policies,
    on a standalone entry under EVERY batching and on a cell of a 1-3 axis table (shape and batching
    rotating: with finite values every batch is written, so the batching reaches a cell only through
    Entry.update).  Decided on the implementation by the property itself (spec_check); no model run."""
    atoms = [(v, t) for v in VALS for t in TAGS]
    comps = list(compositions(5))
    pols = [(m, r) for m, _ in MERGES for r, _ in RETAINS]
    k = 0
    for hist in itertools.product(atoms, repeat=5):
        h = [list(c) for c in hist]
        n = 0
        for m, r in pols:
            k += 1
            cases = [{"kind": "entry", "merge": m, "retain": r, "batches": split(h, sizes)} for sizes in comps]
            cases.append({"kind": "cell", "merge": m, "retain": r, "batches": split(h, comps[k % len(comps)]),
                          "dims": EXH5_SHAPES[k % len(EXH5_SHAPES)]})
            for case in cases:
                try:
                    io = run_impl(case)
                except Exception as e:
                    res.violation(f"exception {type(e).__name__}: {e}", case)
                    continue
                bad = spec_check(case, io)
                if bad:
                    res.violation(bad, case, observed=io)
            n += len(cases)
        if len(res.concrete) >= 50:
            return
        res.case({"kind": "exhaustive-5", "history": h}, nontrivial({"merge": "min", "batches": [h]}), n=n)
        res.dist["exhaustive-5/entry(all batchings)+cell"] += n


def run(ctx, res):
    if ctx.thorough:
        exhaustive_scope(ctx, res)
    batch = []
    for case in gen_cases(ctx):
        batch.append(case)
        if len(batch) >= 40000:
            check_cases(ctx, res, batch)
            batch = []
    check_cases(ctx, res, batch)
    c16_table.run_table(ctx, res)
    res.exhaustive = False


def replay(ctx, data):
    case = data["input"]
    if case.get("kind") in c16_table.KINDS:
        return c16_table.replay_table(ctx, data)
    io = run_impl(case)
    bad = spec_check(case, io) if case["kind"] != "combine" else None
    return (bad is None, f"impl={io} verdict={'ok' if bad is None else bad}")
