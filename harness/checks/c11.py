"""C11 — Serialised results read back to the same reconciliation."""
import contextlib
import io
import json

from ete3 import Tree

from superrec2.model.reconciliation import (
    EdgeEvent,
    NodeEvent,
    ReconciliationInput,
    ReconciliationOutput,
    SuperReconciliationInput,
    SuperReconciliationOutput,
    get_default_cost,
)
from superrec2.model.synteny import (
    parse_synteny_mapping,
    serialize_synteny_mapping,
    sort_synteny,
)
from superrec2.model.tree_mapping import parse_tree_mapping, serialize_tree_mapping
from superrec2.utils.trees import LowestCommonAncestor

from harness import gen, sr
from harness.checks import c11_newick

ID = "C11"
RULE = (
    "(a) real solver outputs: the seven algorithms x {any, all} on random canonical cases (<= 5 object "
    "leaves quick, <= 8 thorough) built with random unique node names over [A-Za-z0-9_] (digits-only, "
    "O#/S#-like, 'NoName', 'inf' included), float('inf') transfer cost in a third of the cases, then NHX "
    "colour features added to random nodes of both trees; (b) random objects of the four classes on random "
    "trees <= 8 leaves (binary for outputs; polytomies, unary nodes and single-node trees for inputs): random "
    "valid reconciliations (bottom-up choice among the LCA of the children, its ancestors and the children's "
    "species, kept when no node is INVALID), top-down random subsequence/subset labellings, syntenies stored "
    "as lists or as Python sets, ordered flag both ways, outputs whose .input is a plain or a super input, "
    "plus a few arbitrary (invalid) mappings.  Every object x goes through "
    "X.from_dict(json.loads(json.dumps(x.to_dict()))) and is compared field by field (topology, child order, "
    "names, colours, leaf assignment, costs, mapping, syntenies, ordered, cost(), node_event of every node), "
    "and the second to_dict() is compared with the first as JSON text.  (c) tie stream for the model: trees "
    "with DUPLICATE and missing names (first match in level order, TreeError), colliding keys, sort_synteny "
    "on family names with digit runs, leading zeros and equal keys, unknown event names.  Non-trivial: the "
    "object has >= 2 internal object nodes, or a set-valued synteny, or an infinite cost, or a colour."
)
TRUSTED = [
    "model of ete3's writer (writeNewick, names/colours needing no escaping) used only to compare whole "
    "to_dict() dictionaries with the model's toDict (op c11_todict); no theorem depends on it",
    "model: lean/SRVerif/Model/Serialize.lean (tree & name = first match in LEVEL order, dict = association "
    "list with in-place replacement, sort_synteny = stable insertion sort on the natural-sort key, "
    "to_dict/from_dict of the four classes with optional keys as Option)",
    "lean/SRVerif/Model/Newick.lean models ete3 3.1.3's format-8 writer (format_root_node, features=['color']) and "
    "format-1 reader literally (strip, parenthesis count, nested splits, leaf/internal regexes, NHX features); the "
    "round trip read (write t) = t is PROVED for every safely named tree of any arity and depth "
    "(C11_newick_roundtrip) and instantiates the parametric class round trips of C11.lean "
    "(C11_roundtrip_newick_*); the codec model is tied to ete3 by c11_newick.run_newick (all ordered trees <= 9 "
    "nodes, random trees, odd names, grammar-generated, mutated and malformed strings)",
    "json.dumps/json.loads (dict order preserved, float inf <-> Infinity) are Python's, not modelled",
    "generated table lean/SRVerif/Generated/Registry.lean (event member names, default costs) is "
    "re-extracted from the source by harness/translate_cli.py on every run",
]
ASSUMPTIONS = [
    "node names and colour values are non-empty words over [A-Za-z0-9_] (an empty name is written as "
    "'NoName' by ete3 and does not read back); family names are ASCII (str.isdigit on other digits is not modelled)",
    "infinite costs are float('inf'): infinity.inf is not JSON-serialisable (json.dumps raises TypeError)",
    "hasattr(NodeEvent, key) is modelled for member names only (keys such as 'name' or '__doc__' are outside)",
    "SuperReconciliationOutput.from_dict rebuilds .input as a plain ReconciliationInput: input.leaf_syntenies "
    "is not among the fields the property lists and is dropped by the round trip (recorded in the notes)",
]
OPEN = []

CLASSES = {
    "RI": ReconciliationInput,
    "SI": SuperReconciliationInput,
    "RO": ReconciliationOutput,
    "SO": SuperReconciliationOutput,
}
COST_EVENTS = [
    ("NodeEvent", "SPECIATION"),
    ("NodeEvent", "DUPLICATION"),
    ("NodeEvent", "HORIZONTAL_TRANSFER"),
    ("EdgeEvent", "FULL_LOSS"),
    ("EdgeEvent", "SEGMENTAL_LOSS"),
]
ENUMS = {"NodeEvent": NodeEvent, "EdgeEvent": EdgeEvent}
NAME_CHARS = "abcxyzABXY0123_"
TRICKY = ["NoName", "inf", "nan", "O0", "O1", "S0", "S1", "O10", "0", "1", "12", "1e5", "_", "__",
          "a_1", "A_1", "None", "true", "x_", "_x", "007"]


# --------------------------------------------------------------------------
# plain descriptions <-> real objects


def describe_tree(node):
    return {"n": node.name, "c": getattr(node, "color", None),
            "k": [describe_tree(c) for c in node.children]}


def build_tree(nt):
    node = Tree()
    node.name = nt["n"]
    if nt.get("c") is not None:
        node.add_feature("color", nt["c"])
    for k in nt["k"]:
        node.add_child(build_tree(k))
    return node


def index(tree):
    fwd, back = {}, {}

    def rec(node, path):
        fwd[node] = path
        back[path] = node
        for i, ch in enumerate(node.children):
            rec(ch, path + (i,))

    rec(tree, ())
    return fwd, back


def enc_cost(v):
    return "inf" if v == float("inf") else v


def dec_cost(v):
    return float("inf") if v == "inf" else v


def enc_syn(s):
    return {"s": list(s)} if isinstance(s, (set, frozenset)) else {"l": list(s)}


def dec_syn(d):
    return set(d["s"]) if "s" in d else list(d["l"])


def describe(x):
    """Plain JSON description of an object of one of the four classes."""
    kind = {ReconciliationInput: "RI", SuperReconciliationInput: "SI",
            ReconciliationOutput: "RO", SuperReconciliationOutput: "SO"}[type(x)]
    inp = x if kind in ("RI", "SI") else x.input
    ofwd, _ = index(inp.object_tree)
    sfwd, _ = index(inp.species_lca.tree)
    d = {
        "cls": kind,
        "ot": describe_tree(inp.object_tree),
        "st": describe_tree(inp.species_lca.tree),
        "leaf": [[list(ofwd[a]), list(sfwd[b])] for a, b in inp.leaf_object_species.items()],
        "costs": [[type(e).__name__, e.name, enc_cost(v)] for e, v in inp.costs.items()],
        "inp_cls": "SI" if isinstance(inp, SuperReconciliationInput) else "RI",
    }
    if isinstance(inp, SuperReconciliationInput):
        d["leafsyn"] = [[list(ofwd[a]), enc_syn(s)] for a, s in inp.leaf_syntenies.items()]
    if kind in ("RO", "SO"):
        d["map"] = [[list(ofwd[a]), list(sfwd[b])] for a, b in x.object_species.items()]
    if kind == "SO":
        d["syn"] = [[list(ofwd[a]), enc_syn(s)] for a, s in x.syntenies.items()]
        d["ordered"] = x.ordered
    return d


def build(d):
    """Real object of a description."""
    ot, st = build_tree(d["ot"]), build_tree(d["st"])
    _, oback = index(ot)
    _, sback = index(st)
    kw = dict(
        object_tree=ot,
        species_lca=LowestCommonAncestor(st),
        leaf_object_species={oback[tuple(a)]: sback[tuple(b)] for a, b in d["leaf"]},
        costs={getattr(ENUMS[c], n): dec_cost(v) for c, n, v in d["costs"]},
    )
    if d["inp_cls"] == "SI":
        inp = SuperReconciliationInput(
            leaf_syntenies={oback[tuple(a)]: dec_syn(s) for a, s in d["leafsyn"]}, **kw)
    else:
        inp = ReconciliationInput(**kw)
    if d["cls"] in ("RI", "SI"):
        return inp
    mapping = {oback[tuple(a)]: sback[tuple(b)] for a, b in d["map"]}
    if d["cls"] == "RO":
        return ReconciliationOutput(input=inp, object_species=mapping)
    return SuperReconciliationOutput(
        input=inp, object_species=mapping,
        syntenies={oback[tuple(a)]: dec_syn(s) for a, s in d["syn"]}, ordered=d["ordered"])


# --------------------------------------------------------------------------
# the property, evaluated directly


def same_tree(a, b, where):
    if a.name != b.name:
        return f"{where}: name {a.name!r} became {b.name!r}"
    if getattr(a, "color", None) != getattr(b, "color", None):
        return f"{where}: colour of {a.name!r}: {getattr(a, 'color', None)!r} became {getattr(b, 'color', None)!r}"
    if len(a.children) != len(b.children):
        return f"{where}: {a.name!r} has {len(a.children)} children, read back {len(b.children)}"
    for ca, cb in zip(a.children, b.children):
        bad = same_tree(ca, cb, where)
        if bad:
            return bad
    return None


def path_mapping(m, ffwd, tfwd):
    return [[list(ffwd[a]), list(tfwd[b])] for a, b in m.items()]


def path_mapping_set(m, ffwd, tfwd):
    # a mapping is a SET of pairs: the order in which a dictionary lists them is free (Review H, variant R3)
    return sorted(path_mapping(m, ffwd, tfwd))


def guarded(fn):
    try:
        return ("ok", fn())
    except Exception as e:  # noqa
        return ("raise", type(e).__name__)


def roundtrip_failure(x, notes=None):
    """None, or a sentence saying how the round trip of x breaks the property."""
    cls = type(x)
    is_out = isinstance(x, ReconciliationOutput)
    try:
        d1 = x.to_dict()
        text = json.dumps(d1)
    except Exception as e:  # noqa
        return f"to_dict/json.dumps raised {type(e).__name__}: {e}"
    try:
        y = cls.from_dict(json.loads(text))
    except Exception as e:  # noqa
        return f"from_dict raised {type(e).__name__}: {e}"
    xi, yi = (x.input, y.input) if is_out else (x, y)
    for ta, tb, where in ((xi.object_tree, yi.object_tree, "object tree"),
                          (xi.species_lca.tree, yi.species_lca.tree, "species tree")):
        bad = same_tree(ta, tb, where)
        if bad:
            return bad
    xo, _ = index(xi.object_tree)
    xs, _ = index(xi.species_lca.tree)
    yo, _ = index(yi.object_tree)
    ys, _ = index(yi.species_lca.tree)
    if path_mapping_set(xi.leaf_object_species, xo, xs) != path_mapping_set(yi.leaf_object_species, yo, ys):
        return "leaf assignment differs"
    # the same event costs: a mapping (its key order is not one of the fields of the property)
    if dict(xi.costs) != dict(yi.costs) or any(type(xi.costs[e]) is not type(yi.costs[e]) for e in xi.costs):
        return f"costs {dict(xi.costs)} became {dict(yi.costs)}"
    if isinstance(x, SuperReconciliationInput):
        bad = same_syn(x.leaf_syntenies, y.leaf_syntenies, xo, yo, "leaf synteny")
        if bad:
            return bad
    if is_out:
        if path_mapping_set(x.object_species, xo, xs) != path_mapping_set(y.object_species, yo, ys):
            return "species mapping differs"
        if isinstance(x, SuperReconciliationOutput):
            bad = same_syn(x.syntenies, y.syntenies, xo, yo, "synteny labelling")
            if bad:
                return bad
            if x.ordered is not y.ordered:
                return f"ordered flag {x.ordered} became {y.ordered}"
        cx, cy = guarded(x.cost), guarded(y.cost)
        if cx != cy:
            return f"cost {cx} became {cy}"
        if is_binary(xi.object_tree):
            _, yback = index(yi.object_tree)
            for node, path in xo.items():
                ex = guarded(lambda: x.node_event(node).name)
                ey = guarded(lambda: y.node_event(yback[path]).name)
                if ex != ey:
                    return f"event of {node.name!r}: {ex} became {ey}"
    try:
        d2 = y.to_dict()
    except Exception as e:  # noqa
        return f"second to_dict raised {type(e).__name__}: {e}"
    a, b = json.loads(text), json.loads(json.dumps(d2))
    if is_out:
        # input.leaf_syntenies is not among the fields of the property (from_dict
        # rebuilds a plain ReconciliationInput): recorded, not compared.
        if "leaf_syntenies" in a["input"] and "leaf_syntenies" not in b["input"]:
            if notes is not None and not any("leaf_syntenies" in n for n in notes):
                notes.append("Output.from_dict rebuilds .input as a plain ReconciliationInput: "
                             "input.leaf_syntenies is absent from the second to_dict()")
            a["input"].pop("leaf_syntenies")
    # "verbatim": every key with the same value; JSON objects are unordered, so a different insertion order of the
    # `costs` table is not a difference (order of lists - child order in the Newick text, syntenies - still is)
    if json.dumps(a, sort_keys=True) != json.dumps(b, sort_keys=True):
        return "second to_dict() differs from the first: " + first_diff(a, b)
    return None


def is_binary(tree):
    return all(len(n.children) in (0, 2) for n in tree.traverse())


def first_diff(a, b, where=""):
    if isinstance(a, dict) and isinstance(b, dict):
        if sorted(a) != sorted(b):
            return f"{where}: keys {sorted(a)} vs {sorted(b)}"
        for k in a:
            if a[k] != b[k] or json.dumps(a[k]) != json.dumps(b[k]):
                return first_diff(a[k], b[k], where + "/" + str(k))
    return f"{where}: {a!r} vs {b!r}"


def same_syn(ma, mb, fa, fb, what):
    # a labelling is a FUNCTION on nodes: the order in which a dictionary lists its entries is free (Review H, R3)
    da = {tuple(fa[n]): (n, s) for n, s in ma.items()}
    db = {tuple(fb[n]): (n, s) for n, s in mb.items()}
    if sorted(da) != sorted(db) or len(da) != len(ma) or len(db) != len(mb):
        return f"{what}: nodes differ"
    for key in sorted(da):
        (na, sa), (nb, sb) = da[key], db[key]
        if isinstance(sa, (set, frozenset)):
            # a set reads back as a list of the same families (its order is the model tie's business)
            if set(sb) != set(sa) or len(sb) != len(sa):
                return f"{what} of {na.name!r}: set {sorted(sa)} became {sb!r}"
        elif list(sa) != list(sb):
            return f"{what} of {na.name!r}: {list(sa)!r} became {sb!r}"
    return None


# --------------------------------------------------------------------------
# generators


def rand_name(rng, used):
    while True:
        if rng.random() < 0.2:
            nm = rng.choice(TRICKY)
        else:
            nm = "".join(rng.choice(NAME_CHARS) for _ in range(rng.randint(1, 5)))
        if nm not in used:
            used.add(nm)
            return nm


def rand_colour(rng):
    return rng.choice(["red", "0000FF", "blue", "12", "0", "1e3", "c_1", "Dark_Green", "ff8800", "_"])


def rand_nt(rng, shape, used, p_col=0.25):
    return {"n": rand_name(rng, used), "c": rand_colour(rng) if rng.random() < p_col else None,
            "k": [rand_nt(rng, s, used, p_col) for s in shape]}


def rand_multi_shape(rng, n):
    """Random shape with n leaves, polytomies and (rarely) unary nodes."""
    if n == 1:
        return [[]] if rng.random() < 0.05 else []
    k = min(n, rng.choice([2, 2, 2, 3, 4]))
    cuts = sorted(rng.sample(range(1, n), k - 1))
    sizes = [b - a for a, b in zip([0] + cuts, cuts + [n])]
    return [rand_multi_shape(rng, s) for s in sizes]


def rand_cost_values(rng):
    c = {k: rng.choice([0, 1, 1, 2, 3, 7]) for k in ("spe", "dup", "hgt", "floss", "sloss")}
    if rng.random() < 0.35:
        c["hgt"] = "inf"
    return c


def paths_of(nt, p=()):
    yield p, nt
    for i, k in enumerate(nt["k"]):
        yield from paths_of(k, p + (i,))


def is_prefix(p, q):
    return q[: len(p)] == p


def lcp(p, q):
    out = []
    for a, b in zip(p, q):
        if a != b:
            break
        out.append(a)
    return tuple(out)


def rand_reconciliation(rng, ont, leafmap, arbitrary=False):
    """Bottom-up random mapping of the (binary) object tree into species paths."""
    m = {}
    spaths = None

    def rec(p, nt):
        if not nt["k"]:
            m[p] = leafmap[p]
            return
        for i, k in enumerate(nt["k"]):
            rec(p + (i,), k)
        kids = [m[p + (i,)] for i in range(len(nt["k"]))]
        anc = kids[0]
        for k in kids[1:]:
            anc = lcp(anc, k)
        opts = [anc[:i] for i in range(len(anc) + 1)] * 2 + kids
        m[p] = rng.choice(opts)

    rec((), ont)
    if arbitrary:
        inner = [p for p, nt in paths_of(ont) if nt["k"]]
        if inner:
            m[rng.choice(inner)] = arbitrary
    return m


def rand_labelling(rng, ont, nfam, ordered):
    fams = [sr.fam_name(i) for i in range(nfam)]
    if rng.random() < 0.4:
        fams = [rng.choice(["g", "f", "", "x_"]) + str(rng.choice([1, 2, 3, 10, 11, 20, "01", "007"])) + rng.choice(["", "", "b"])
                for _ in range(nfam)]
        fams = list(dict.fromkeys(fams))
    rng.shuffle(fams)
    out = {}

    def rec(p, nt, syn):
        out[p] = syn
        for i, k in enumerate(nt["k"]):
            sub = [f for f in syn if rng.random() < 0.75] or [rng.choice(syn)]
            rec(p + (i,), k, sub)

    rec((), ont, fams)
    return out


def rand_description(rng, max_leaves=8):
    cls = rng.choice(["RI", "SI", "RO", "RO", "SO", "SO", "SO"])
    is_out = cls in ("RO", "SO")
    no, ns = rng.randint(1, max_leaves), rng.randint(1, max_leaves)
    if is_out or rng.random() < 0.5:
        oshape = gen.rand_shape(rng, no, rng.choice([None, None, "cat", "bal"]))
        sshape = gen.rand_shape(rng, ns)
    else:
        oshape, sshape = rand_multi_shape(rng, no), rand_multi_shape(rng, ns)
    share = rng.random() < 0.3  # let the two trees share names
    used_o = set()
    used_s = used_o if not share else set()
    ont = rand_nt(rng, oshape, used_o)
    snt = rand_nt(rng, sshape, used_s, p_col=0.1)
    oleaves = [p for p, nt in paths_of(ont) if not nt["k"]]
    sleaves = [p for p, nt in paths_of(snt) if not nt["k"]]
    leafmap = {p: rng.choice(sleaves) for p in oleaves}
    cv = rand_cost_values(rng)
    order = list(zip(COST_EVENTS, ("spe", "dup", "hgt", "floss", "sloss")))
    if rng.random() < 0.3:
        rng.shuffle(order)
    if rng.random() < 0.1:
        order = order[: rng.randint(3, 5)] if not is_out else order
    items = list(leafmap.items())
    if rng.random() < 0.3:
        rng.shuffle(items)
    d = {"cls": cls, "ot": ont, "st": snt,
         "leaf": [[list(a), list(b)] for a, b in items],
         "costs": [[c, n, cv[k]] for (c, n), k in order],
         "inp_cls": "RI"}
    want_syn = cls in ("SI", "SO") or (cls == "RO" and rng.random() < 0.3)
    ordered = rng.random() < 0.5
    as_set = (not ordered) and rng.random() < 0.6
    if want_syn:
        lab = rand_labelling(rng, ont, rng.randint(1, 6), ordered)
        enc = (lambda s: {"s": list(s)}) if as_set else (lambda s: {"l": list(s)})
        if cls == "SI" or rng.random() < 0.7:
            d["inp_cls"] = "SI"
            d["leafsyn"] = [[list(p), enc(lab[p])] for p in oleaves]
        if cls == "SO":
            nodes = [p for p, _ in paths_of(ont)]
            if rng.random() < 0.3:
                rng.shuffle(nodes)
            d["syn"] = [[list(p), enc(lab[p])] for p in nodes]
            d["ordered"] = ordered
    if is_out:
        arbitrary = rng.choice([p for p, _ in paths_of(snt)]) if rng.random() < 0.08 else False
        m = rand_reconciliation(rng, ont, leafmap, arbitrary)
        nodes = [p for p, _ in paths_of(ont)]
        if rng.random() < 0.3:
            rng.shuffle(nodes)
        d["map"] = [[list(p), list(m[p])] for p in nodes]
    return d


def solver_objects(ctx, n_cases, max_o, max_s):
    """Real solver outputs with random unique names and colours."""
    rng = ctx.rng
    algos = list(sr.algorithms())
    for _ in range(n_cases):
        algo = rng.choice(algos)
        plain = algo in sr.PLAIN
        unordered = algo in ("base_uspfs", "superdtl")
        nfam = 0 if (plain and rng.random() < 0.6) else rng.randint(1, 4)
        case = gen.rand_case(rng, max_o=max_o, max_s=max_s, nfam=nfam, plain=plain, unordered=unordered)
        if rng.random() < 0.35:
            case["costs"]["hgt"] = "inf"
        elif case["costs"]["hgt"] == "inf":
            case["costs"]["hgt"] = rng.choice([1, 2])
        used_o, used_s = set(), set()
        otab, stab = {}, {}

        def sname(path):
            if path not in stab:
                stab[path] = rand_name(rng, used_s)
            return stab[path]

        def oname(path, leaf=None):
            if path not in otab:
                otab[path] = rand_name(rng, used_o)
            return otab[path]

        policy = rng.choice(["any", "all"])
        r = sr.run_algo(case, algo, policy, sname=sname, oname=oname, float_inf=True)
        if "err" in r:
            yield algo, None, r["err"]
            continue
        outs = r["outs"]
        if outs:
            for tree in (outs[0].input.object_tree, outs[0].input.species_lca.tree):
                for node in tree.traverse():
                    if rng.random() < 0.2:
                        node.add_feature("color", rand_colour(rng))
        for o in outs[:3]:
            yield algo, o, None
        if outs and rng.random() < 0.5:
            yield algo, outs[0].input, None


def nontrivial(d):
    inner = sum(1 for _, nt in paths_of(d["ot"]) if nt["k"])
    has_set = any("s" in s for _, s in d.get("syn", []) + d.get("leafsyn", []))
    has_inf = any(v == "inf" for _, _, v in d["costs"])
    has_col = any(nt["c"] is not None for _, nt in paths_of(d["ot"]))
    return inner >= 2 or has_set or has_inf or has_col


# --------------------------------------------------------------------------
# correspondence with the model


def pairs(d):
    return [[k, v] for k, v in d.items()]


def model_requests(x, d):
    """Driver requests for an object together with the real functions' answers."""
    inp = x if d["cls"] in ("RI", "SI") else x.input
    ot, st = inp.object_tree, inp.species_lca.tree
    ofwd, _ = index(ot)
    sfwd, _ = index(st)
    reqs = []

    def tm(m, mp):
        ser = serialize_tree_mapping(m)
        reqs.append(({"op": "c11_ser_tm", "ft": d["ot"], "tt": d["st"], "m": mp}, pairs(ser)))
        back = parse_tree_mapping(ot, st, ser)
        reqs.append(({"op": "c11_parse_tm", "ft": d["ot"], "tt": d["st"], "data": pairs(ser)},
                     {"ok": path_mapping(back, ofwd, sfwd)}))

    def syn(m, mp):
        ser = serialize_synteny_mapping(m)
        # the iteration order of a set is only known here
        mp = [[p, ({"s": list(m_s)} if isinstance(m_s, (set, frozenset)) else {"l": list(m_s)})]
              for (p, _), m_s in zip(mp, m.values())]
        reqs.append(({"op": "c11_ser_syn", "tree": d["ot"], "m": mp}, pairs(ser)))
        back = parse_synteny_mapping(ot, ser)
        reqs.append(({"op": "c11_parse_syn", "tree": d["ot"], "data": pairs(ser)},
                     {"ok": [[list(ofwd[n]), {"l": list(s)}] for n, s in back.items()]}))

    reqs.append(({"op": "c11_todict", **live_sets(x, d)}, dict_form(x.to_dict(), d["cls"] in ("RO", "SO"))))
    tm(inp.leaf_object_species, d["leaf"])
    if d["cls"] in ("RO", "SO"):
        tm(x.object_species, d["map"])
    if d["inp_cls"] == "SI":
        syn(inp.leaf_syntenies, d["leafsyn"])
    if d["cls"] == "SO":
        syn(x.syntenies, d["syn"])
    ser = dict((e.name, v) for e, v in inp.costs.items())
    back = {}
    for k, v in ser.items():
        back[getattr(NodeEvent, k) if hasattr(NodeEvent, k) else getattr(EdgeEvent, k)] = v
    reqs.append(({"op": "c11_costs", "costs": d["costs"], "names": []},
                 {"ser": [[k, enc_cost(v)] for k, v in ser.items()],
                  "back": [[[type(e).__name__, e.name], enc_cost(v)] for e, v in back.items()],
                  "events": [],
                  "default": [[[type(e).__name__, e.name], v] for e, v in get_default_cost().items()]}))
    names = [n.name for n in ot.traverse()] + ["no_such_node"]
    reqs.append(({"op": "c11_lookup", "tree": d["ot"], "names": names},
                 [lookup(ot, ofwd, n) for n in names]))
    return reqs


def live_sets(x, d):
    """The description with the iteration order of the LIVE set objects (only known here)."""
    d = dict(d)
    inp = x if d["cls"] in ("RI", "SI") else x.input
    if d["inp_cls"] == "SI":
        d["leafsyn"] = [[p, enc_syn(s)] for (p, _), s in zip(d["leafsyn"], inp.leaf_syntenies.values())]
    if d["cls"] == "SO":
        d["syn"] = [[p, enc_syn(s)] for (p, _), s in zip(d["syn"], x.syntenies.values())]
    return d


def dict_form(dd, is_out):
    """The real dictionary in the driver's rendering: mappings as pair lists, absent keys null."""
    def inp(i):
        return {"object_tree": i["object_tree"], "species_tree": i["species_tree"],
                "leaf_object_species": pairs(i["leaf_object_species"]) if "leaf_object_species" in i else None,
                "costs": [[k, enc_cost(v)] for k, v in i["costs"].items()] if "costs" in i else None,
                "leaf_syntenies": pairs(i["leaf_syntenies"]) if "leaf_syntenies" in i else None}

    if not is_out:
        return inp(dd)
    return {"input": inp(dd["input"]), "object_species": pairs(dd["object_species"]),
            "syntenies": pairs(dd["syntenies"]) if "syntenies" in dd else None,
            "ordered": dd.get("ordered")}


def lookup(tree, fwd, name):
    try:
        p = list(fwd[tree & name])
    except Exception:  # TreeError
        p = None
    return [p, name in tree]


def adversarial_requests(rng):
    """Tie-only stream: duplicate / missing names, colliding keys, sorting, event names."""
    reqs = []
    n = rng.randint(1, 7)
    shape = rand_multi_shape(rng, n)
    pool = ["a", "b", "c", "x", "O0", ""]

    def nt(shape):
        return {"n": rng.choice(pool), "c": None, "k": [nt(s) for s in shape]}

    d_ot, d_st = nt(shape), nt(rand_multi_shape(rng, rng.randint(1, 5)))
    ot, st = build_tree(d_ot), build_tree(d_st)
    ofwd, oback = index(ot)
    sfwd, sback = index(st)
    names = pool + ["zz"]
    reqs.append(({"op": "c11_lookup", "tree": d_ot, "names": names}, [lookup(ot, ofwd, x) for x in names]))
    # a mapping between trees with duplicate names: keys collide when serialised
    op, sp = list(oback), list(sback)
    rng.shuffle(op)
    mp = [[list(p), list(rng.choice(sp))] for p in op[: rng.randint(0, len(op))]]
    m = {oback[tuple(a)]: sback[tuple(b)] for a, b in mp}
    ser = serialize_tree_mapping(m)
    reqs.append(({"op": "c11_ser_tm", "ft": d_ot, "tt": d_st, "m": mp}, pairs(ser)))
    data = [[rng.choice(names), rng.choice(names)] for _ in range(rng.randint(0, 4))]
    data = pairs(dict(map(tuple, data)))
    try:
        back = {"ok": path_mapping(parse_tree_mapping(ot, st, dict(map(tuple, data))), ofwd, sfwd)}
    except Exception as e:  # noqa
        back = {"err": type(e).__name__}
    reqs.append(({"op": "c11_parse_tm", "ft": d_ot, "tt": d_st, "data": data}, back))
    # syntenies
    fam_pool = ["g1", "g01", "g10", "g2", "g", "a", "b", "B", "a1b2", "a1b10", "a01b2", "10", "9", "09",
                "", "_", "x_1", "x_10", "g1b", "g1a", "z9z", "z09z", "Z"]
    fams = [rng.choice(fam_pool) for _ in range(rng.randint(0, 7))]
    reqs.append(({"op": "c11_sort", "l": fams}, sort_synteny(fams)))
    smp, sm = [], {}
    for p in op[: rng.randint(0, len(op))]:
        fs = list(dict.fromkeys(rng.choice(fam_pool) for _ in range(rng.randint(0, 4))))
        val = set(fs) if rng.random() < 0.5 else fs
        sm[oback[p]] = val
        smp.append([list(p), enc_syn(val)])
    reqs.append(({"op": "c11_ser_syn", "tree": d_ot, "m": smp}, pairs(serialize_synteny_mapping(sm))))
    sdata = pairs({rng.choice(names): [rng.choice(fam_pool)] for _ in range(rng.randint(0, 3))})
    try:
        back = {"ok": [[list(ofwd[nd]), {"l": list(s)}]
                       for nd, s in parse_synteny_mapping(ot, dict(map(tuple, sdata))).items()]}
    except Exception as e:  # noqa
        back = {"err": type(e).__name__}
    reqs.append(({"op": "c11_parse_syn", "tree": d_ot, "data": sdata}, back))
    # event names
    evn = [rng.choice(["SPECIATION", "DUPLICATION", "HORIZONTAL_TRANSFER", "FULL_LOSS", "SEGMENTAL_LOSS",
                       "LEAF", "INVALID", "LOSS", "speciation", "", "FULL_LOSS "]) for _ in range(3)]
    evs = []
    for k in evn:
        try:
            e = getattr(NodeEvent, k) if hasattr(NodeEvent, k) else getattr(EdgeEvent, k)
            evs.append([type(e).__name__, e.name])
        except AttributeError:
            evs.append({"err": "AttributeError"})
    reqs.append(({"op": "c11_costs", "costs": [], "names": evn},
                 {"ser": [], "back": [], "events": evs,
                  "default": [[[type(e).__name__, e.name], v] for e, v in get_default_cost().items()]}))
    return reqs


# --------------------------------------------------------------------------


def check_objects(ctx, res, objs):
    """objs: list of (origin, object, description)."""
    reqs = []
    for origin, x, d in objs:
        case = {"origin": origin, **d}
        res.case(case, nontrivial(d))
        res.dist[f"{origin.split(':')[0]}/{d['cls']}"
                 + ("/inf" if any(v == "inf" for _, _, v in d["costs"]) else "")] += 1
        with contextlib.redirect_stderr(io.StringIO()):
            bad = roundtrip_failure(x, res.notes)
        if bad:
            res.violation(bad, case)
            continue
        for req, impl in model_requests(x, d):
            reqs.append((case, req, impl))
        if d["cls"] == "SO":
            dd = x.to_dict()
            dd.pop("ordered")
            try:
                got = SuperReconciliationOutput.from_dict(json.loads(json.dumps(dd))).ordered
            except Exception as e:  # noqa
                got = type(e).__name__
            if got is not True:
                res.tie_broken("`ordered` defaults to True when the key is absent (C11_ordered_default)",
                               case, True, got)
    compare(ctx, res, reqs)


def _colliding_names(req):
    def at(t, path):
        for i in path:
            t = t["k"][i]
        return t["n"]

    entries = req.get("m") or req.get("syn") or req.get("s") or []
    try:
        names = [at(req.get("ft") or req["tree"], e[0]) for e in entries]
    except Exception:  # noqa
        return False
    return len(set(names)) != len(names)


def _unordered_mappings(d):
    """dict_form with every pair list (a mapping) sorted by key."""
    if isinstance(d, dict):
        return {k: (sorted(v, key=lambda kv: json.dumps(kv[0])) if k in
                    ("leaf_object_species", "costs", "leaf_syntenies", "object_species", "syntenies")
                    and isinstance(v, list) else _unordered_mappings(v)) for k, v in d.items()}
    return d


def compare(ctx, res, reqs):
    outs = ctx.driver.parallel([r for _, r, _ in reqs])
    for (case, req, impl), model in zip(reqs, outs):
        if model != impl:
            if req["op"] in ("c11_ser_tm", "c11_ser_syn") and isinstance(model, list) and isinstance(impl, list):
                key = lambda kv: json.dumps(kv)  # noqa: E731
                if sorted(model, key=key) == sorted(impl, key=key):
                    res.dist["serialised mapping: entries listed in another order than the model's (note)"] += 1
                    continue
                if _colliding_names(req):
                    # several nodes of the mapping's domain share a name (outside the property's unique-name space):
                    # which entry survives in the dictionary depends on the listing order — unspecified
                    res.dist["serialised mapping with colliding names: surviving entry differs from the model's (note)"] += 1
                    continue
            if req["op"] == "c11_todict" and _unordered_mappings(model) == _unordered_mappings(impl):
                # the ORDER in which to_dict() lists the entries of a mapping is representation (Review H, variant R3)
                res.dist["to_dict: entries of a mapping listed in another order than the model's (note)"] += 1
                continue
            res.tie_broken(f"{req['op']}: model vs implementation", req, model, impl)


def run(ctx, res):
    rng = ctx.rng
    objs = []
    skipped = 0
    for algo, x, err in solver_objects(ctx, ctx.budget(300, 2500), ctx.budget(5, 8), ctx.budget(4, 6)):
        if x is None:
            skipped += 1
            res.dist[f"solver-error/{algo}/{err}"] += 1
            continue
        objs.append((f"solver:{algo}", x, describe(x)))
    for _ in range(ctx.budget(3000, 30000)):
        d = rand_description(rng)
        objs.append(("random", build(d), d))
    for i in range(0, len(objs), 2000):
        check_objects(ctx, res, objs[i: i + 2000])
    reqs = []
    for _ in range(ctx.budget(1500, 10000)):
        for req, impl in adversarial_requests(rng):
            reqs.append((req, req, impl))
            res.evaluations += 1
    res.dist["tie-only/adversarial"] += len(reqs)
    compare(ctx, res, reqs)
    c11_newick.run_newick(ctx, res)
    if skipped:
        res.notes.append(f"{skipped} solver runs raised and were skipped (not this property's subject)")


CORPUS = [
    # README example solved by superdtl, with the documented colour
    {"cls": "SO", "inp_cls": "SI",
     "ot": {"n": "O0", "c": None, "k": [{"n": "O1", "c": "0000FF", "k": [
         {"n": "x_1", "c": None, "k": []}, {"n": "x_2", "c": None, "k": []}]},
         {"n": "y_1", "c": None, "k": []}]},
     "st": {"n": "S0", "c": None, "k": [{"n": "X", "c": None, "k": []}, {"n": "Y", "c": None, "k": []}]},
     "leaf": [[[0, 0], [0]], [[0, 1], [0]], [[1], [1]]],
     "costs": [[c, n, v] for (c, n), v in zip(COST_EVENTS, (0, 1, "inf", 1, 1))],
     "leafsyn": [[[0, 0], {"l": ["g1", "g2", "g3"]}], [[0, 1], {"l": ["g1", "g3", "g4"]}],
                 [[1], {"l": ["g1", "g2", "g3", "g4"]}]],
     "map": [[[], []], [[0], [0]], [[0, 0], [0]], [[0, 1], [0]], [[1], [1]]],
     "syn": [[[], {"s": ["g4", "g10", "g2", "g1"]}], [[0], {"s": ["g1", "g2", "g10", "g4"]}],
             [[0, 0], {"l": ["g1", "g2", "g3"]}], [[0, 1], {"l": ["g1", "g3", "g4"]}],
             [[1], {"l": ["g1", "g2", "g3", "g4"]}]],
     "ordered": False},
]


def corpus(ctx, res):
    check_objects(ctx, res, [("corpus", build(d), d) for d in CORPUS])


def replay(ctx, data):
    if str(data["input"].get("origin", "")).startswith("newick"):
        return c11_newick.replay_newick(ctx, data)
    case = dict(data["input"])
    case.pop("origin", None)
    x = build(case)
    bad = roundtrip_failure(x)
    return (bad is None, f"round trip of {case['cls']}: {'ok' if bad is None else bad}")
