"""C06 — The cost evaluator implements the documented event model.

The species mappings, the labellings, the validity test and the recount are all written here
from first principles on paths (strings of child indices): ancestors are found by WALKING the
parent chain, lost segments are counted on the synteny SEQUENCES.  Nothing of the package (no
LowestCommonAncestor, no bitmask) is used on the expected side."""
import contextlib
import io
import itertools
import json
import os
import tempfile

from .. import gen
from ..common import Result
from ..sr import build_input, build_output, canon_solution, enc_cost

ID = "C06"
RULE = (
    "binary object/species trees with random leaf species and (for the labelled models) non-empty leaf syntenies "
    "on 1-4 families drawn as subsequences of one random order; for each such input ALL valid species mappings are "
    "enumerated in this module (every assignment of a species to every internal object node, filtered by a "
    "parent-chain validity test; sampled above a cap in the quick tier) and combined with valid ordered labellings "
    "(every node a subsequence of its parent's, containing its leaves) and valid unordered labellings (content "
    "between the required and the allowed families), enumerated exhaustively when few and sampled otherwise; cost "
    "vectors are arbitrary non-negative integers (no coherence restriction, zeros, distinct large values so that "
    "miscounted events cannot cancel) with the transfer cost infinite in a quarter of the cases, both as "
    "infinity.inf and float('inf').  For each (mapping, labelling, costs): node_event of every node, "
    "reconciliation_cost, labeling_cost and cost of the real (Super)ReconciliationOutput are compared with the "
    "recount of this module (VIOLATION) and with the Lean model `eval` and the Lean specification `c06_recount` "
    "(tie).  The CLI stream runs `reconcile` through the real argument parser on temporary files and compares the "
    "printed 'Minimum cost:' with the recount of every written solution.  Quick: random inputs up to 4x4 plus every "
    "input up to 3x3 leaves on every valid mapping; thorough: every pair of shapes up to 5x5 (leaf species sampled) "
    "with every valid mapping, every input up to 4x3, labellings on <= 4 families.  Non-trivial = at least 3 object "
    "leaves and 2 species; distinct = distinct (input, mapping, labelling, model, costs)."
)
TRUSTED = [
    "model: lean/SRVerif/Model/Rec.lean; specification: lean/SRVerif/Spec/EventLog.lean (walks on paths, runs on "
    "sequences via Spec/Subseq.lean `lostRunsSeq`), validity: lean/SRVerif/Spec/Opt.lean `validSol`",
    "species are modelled as root paths; that LowestCommonAncestor computes the path operations is C17; that the "
    "mask distance is the run count on sequences is C18 (`C18_bridge`)",
    "this module's own recount (parent-chain walks, itertools.groupby on keep/lost patterns)",
]
ASSUMPTIONS = [
    "valid solutions only: leaves in their given species, no INVALID node; labellings valid in the sense of "
    "Spec.validSol; leaf syntenies non-empty (for an empty child the code returns the sentinel -1, outside the scope)",
    "non-negative integer unit costs; only the transfer cost may be infinite",
]
OPEN = []

INVALID, LEAF, SPEC, DUP, HGT = "INVALID", "LEAF", "SPECIATION", "DUPLICATION", "HORIZONTAL_TRANSFER"

# --------------------------------------------------------------------------
# first principles on paths


def parent(p):
    return p[:-1] if p else None


def chain(p):
    """p and all its ancestors, found by walking up."""
    out = [p]
    while p:
        p = parent(p)
        out.append(p)
    return out


def below_or_at(s, a):
    return s in chain(a)


def strictly_above(b, s):
    return b != s and b in chain(s)


def child_towards(s, a):
    """The child of s on the way down to a (a strictly below s)."""
    p = a
    while parent(p) != s:
        p = parent(p)
    return p


def event_of(s, a, b):
    if strictly_above(a, s) or strictly_above(b, s):
        return INVALID
    da, db = below_or_at(s, a), below_or_at(s, b)
    if da and db:
        if a != s and b != s and child_towards(s, a) != child_towards(s, b):
            return SPEC
        return DUP
    if da or db:
        return HGT
    return INVALID


def crossed(s, a):
    """Species crossed walking up from a to s: parent(a), ..., s (empty when a == s)."""
    out, p = [], a
    while p != s:
        p = parent(p)
        out.append(p)
    return out


def lost_runs(child, par, ends):
    """Maximal runs of consecutive families of `par` absent from `child`; runs touching an end
    are dropped when not `ends`."""
    pat = [x in child for x in par]
    if not ends:
        while pat and not pat[0]:
            pat.pop(0)
        while pat and not pat[-1]:
            pat.pop()
    return sum(1 for kept, _ in itertools.groupby(pat) if not kept)


def recount(sol, mode, costs):
    """Independent recount of a canonical solution: events (pre-order, leaves included), counts,
    full-loss species, costs ("inf" or int)."""
    events, losses = [], []
    n = {SPEC: 0, DUP: 0, HGT: 0, INVALID: 0}
    sl = 0

    def rec(node):
        nonlocal sl
        if "c" not in node:
            events.append(LEAF)
            return
        l, r = node["c"]
        s, a, b = node["s"], l["s"], r["s"]
        ev = event_of(s, a, b)
        events.append(ev)
        n[ev] += 1
        if ev == SPEC:
            losses.extend(crossed(s, a)[:-1] + crossed(s, b)[:-1])
        elif ev == DUP:
            losses.extend(crossed(s, a) + crossed(s, b))
        elif ev == HGT:
            losses.extend(crossed(s, a) if below_or_at(s, a) else crossed(s, b))
        if mode != "plain" and ev != INVALID:
            f, fl, fr = node["f"], l["f"], r["f"]
            if mode == "ordered":
                full_l, full_r = lost_runs(fl, f, True), lost_runs(fr, f, True)
                part_l, part_r = lost_runs(fl, f, False), lost_runs(fr, f, False)
                if ev == SPEC:
                    sl += full_l + full_r
                elif ev == DUP:
                    sl += min(full_l + part_r, part_l + full_r)
                else:
                    sl += full_l + part_r if below_or_at(s, a) else part_l + full_r
            else:
                lc = 1 if set(f) - set(fl) else 0
                rc = 1 if set(f) - set(fr) else 0
                if ev == SPEC:
                    sl += lc + rc
                elif ev == DUP:
                    sl += min(lc, rc)
                else:
                    sl += lc if below_or_at(s, a) else rc
        rec(l)
        rec(r)

    rec(sol)
    fin = costs["spe"] * n[SPEC] + costs["dup"] * n[DUP] + costs["floss"] * len(losses)
    if n[INVALID] or (n[HGT] and costs["hgt"] == "inf"):
        rc = "inf"
    else:
        rc = fin + (costs["hgt"] * n[HGT] if n[HGT] else 0)
    label = sl * costs["sloss"]
    return {
        "events": events, "spec": n[SPEC], "dup": n[DUP], "hgt": n[HGT], "invalid": n[INVALID],
        "floss": len(losses), "sloss": sl, "loss_species": sorted(losses),
        "rec": rc, "label": label, "total": "inf" if rc == "inf" else rc + label,
    }


# --------------------------------------------------------------------------
# enumeration of valid mappings and labellings (independent of the package)


def all_species(S, p=""):
    out = [p]
    for i, c in enumerate(S):
        out += all_species(c, p + str(i))
    return out


def valid_mappings(S, O):
    """Every assignment of species to the internal nodes whose nodes all carry a valid event."""
    species = all_species(S)

    def rec(o):
        if isinstance(o, dict):
            return [{"s": o["s"]}]
        L, R = rec(o[0]), rec(o[1])
        return [
            {"s": s, "c": [l, r]}
            for l in L for r in R for s in species
            if event_of(s, l["s"], r["s"]) != INVALID
        ]

    return rec(O)


def all_mappings_count(S, O):
    k = sum(1 for _ in _internal(O))
    return len(all_species(S)) ** k


def _internal(O, p=""):
    if not isinstance(O, dict):
        yield p
        for i, c in enumerate(O):
            yield from _internal(c, p + str(i))


def o_leaves(O, p=""):
    if isinstance(O, dict):
        yield p, O
    else:
        for i, c in enumerate(O):
            yield from o_leaves(c, p + str(i))


def common_prefix(paths):
    paths = list(paths)
    out = paths[0]
    for q in paths[1:]:
        k = 0
        while k < len(out) and k < len(q) and out[k] == q[k]:
            k += 1
        out = out[:k]
    return out


def subsets_between(lo, hi):
    extra = sorted(hi - lo)
    for k in range(len(extra) + 1):
        for comb in itertools.combinations(extra, k):
            yield lo | frozenset(comb)


class Labeller:
    """Valid labellings of an object tree, top-down.  Ordered: root = all families (in the root
    order), every node between the families of its leaves and its parent's label.  Unordered:
    every node between its required content and (parent's label + own gains)."""

    def __init__(self, O, mode, order):
        self.O, self.mode = O, mode
        self.order = order  # list of families: the root order (ordered model)
        leaves = dict(o_leaves(O))
        fams = sorted({f for l in leaves.values() for f in l["f"]})
        self.gain = {f: common_prefix([p for p, l in leaves.items() if f in l["f"]]) for f in fams}
        self.fams = fams
        self.memo = {}

    def lower(self, o, p):
        """Ordered: families of the leaves below.  Unordered: required content."""
        if isinstance(o, dict):
            return frozenset(o["f"])
        out = frozenset()
        for i, c in enumerate(o):
            sub = self.lower(c, p + str(i))
            if self.mode == "unordered":
                sub = frozenset(x for x in sub if self.gain[x] != p + str(i))
            out |= sub
        return out

    def upper(self, p, parent_label):
        if self.mode == "ordered":
            return frozenset(self.fams) if parent_label is None else parent_label
        allowed = frozenset(x for x in self.fams if p.startswith(self.gain[x]))
        if parent_label is None:
            return allowed
        return (parent_label | frozenset(x for x in self.fams if self.gain[x] == p)) & allowed

    def choices(self, o, p, parent_label):
        lo, hi = self.lower(o, p), self.upper(p, parent_label)
        if self.mode == "ordered" and parent_label is None:
            return [hi]
        return list(subsets_between(lo, hi))

    def fmt(self, label):
        if self.mode == "ordered":
            return [f for f in self.order if f in label]
        return sorted(label)

    def leaf(self, o):
        return o["f"] if self.mode == "ordered" else sorted(set(o["f"]))

    def count(self, o, p="", parent_label=None):
        if isinstance(o, dict):
            return 1
        key = (p, parent_label)
        if key not in self.memo:
            tot = 0
            for x in self.choices(o, p, parent_label):
                m = 1
                for i, c in enumerate(o):
                    m *= self.count(c, p + str(i), x)
                tot += m
            self.memo[key] = tot
        return self.memo[key]

    def all(self, o=None, p="", parent_label=None):
        """All labellings as trees {"f": [...], "c": [...]} mirroring the object tree."""
        o = self.O if o is None else o
        if isinstance(o, dict):
            return [{"f": self.leaf(o)}]
        out = []
        for x in self.choices(o, p, parent_label):
            subs = [self.all(c, p + str(i), x) for i, c in enumerate(o)]
            for combo in itertools.product(*subs):
                out.append({"f": self.fmt(x), "c": list(combo)})
        return out

    def random(self, rng, o=None, p="", parent_label=None):
        o = self.O if o is None else o
        if isinstance(o, dict):
            return {"f": self.leaf(o)}
        ch = self.choices(o, p, parent_label)
        # favour the extremes (minimal / maximal content) as much as the middle
        r = rng.random()
        x = ch[0] if r < 0.2 else ch[-1] if r < 0.4 else rng.choice(ch)
        return {"f": self.fmt(x), "c": [self.random(rng, c, p + str(i), x) for i, c in enumerate(o)]}

    def sample(self, rng, cap):
        if self.count(self.O) <= cap:
            return self.all()
        seen, out = set(), []
        for _ in range(cap * 3):
            lab = self.random(rng)
            k = json.dumps(lab)
            if k not in seen:
                seen.add(k)
                out.append(lab)
            if len(out) >= cap:
                break
        return out


def widen_root(rng, lab, extras):
    """An ordered labelling whose ROOT order strictly contains the leaf families (what the ordered solvers
    write for an input with a prescribed root order): insert the unused families `extras` at random
    positions of the root, and keep each of them in a random top part of the internal nodes."""
    root = list(lab["f"])
    for x in extras:
        root.insert(rng.randint(0, len(root)), x)

    def rec(node, parent_f, keep):
        if "c" not in node:
            return {"f": node["f"]}
        f = [y for y in parent_f if y in node["f"] or y in keep]
        kids = [rec(c, f, {x for x in keep if rng.random() < 0.5}) for c in node["c"]]
        return {"f": f, "c": kids}

    return rec(lab, root, set(extras))


def merge(mapping, labels):
    d = {"s": mapping["s"], "f": labels["f"]}
    if "c" in mapping:
        d["c"] = [merge(m, l) for m, l in zip(mapping["c"], labels["c"])]
    return d


# --------------------------------------------------------------------------
# generators


def rand_costs(rng):
    r = rng.random()
    if r < 0.1:
        c = {"spe": 0, "dup": 1, "hgt": 1, "floss": 1, "sloss": 1}
    elif r < 0.3:  # zeros and ties
        c = {k: rng.choice([0, 0, 1]) for k in ("spe", "dup", "hgt", "floss", "sloss")}
    elif r < 0.6:  # pairwise very different weights: a miscounted event cannot cancel
        w = [1, 7, 50, 331, 2003]
        rng.shuffle(w)
        c = dict(zip(("spe", "dup", "hgt", "floss", "sloss"), w))
    else:
        c = {k: rng.randint(0, 9) for k in ("spe", "dup", "hgt", "floss", "sloss")}
    if rng.random() < 0.25:
        c["hgt"] = "inf"
    return c


def cost_class(c):
    out = []
    if c["hgt"] == "inf":
        out.append("hgt=inf")
    if 0 in (c["spe"], c["dup"], c["floss"], c["sloss"]):
        out.append("zero-cost")
    if not gen.coherent(c):
        out.append("incoherent")
    return out


def rand_input(rng, max_o, max_s, nfam, oshape=None, sshape=None):
    """{"S", "O"} with leaf species and, when nfam > 0, leaf syntenies; plus the root order."""
    S = sshape if sshape is not None else gen.rand_shape(rng, rng.randint(1, max_s), rng.choice([None, "cat", "bal"]))
    osh = oshape if oshape is not None else gen.rand_shape(rng, rng.randint(2, max_o), rng.choice([None, "cat", "bal"]))
    no = gen.n_leaves(osh)
    # leaf species: any node of S would be legal for the evaluator, the package's inputs use leaves
    sps = gen.rand_species_assignment(rng, S, no)
    order = None
    if nfam:
        order = list(range(nfam))
        rng.shuffle(order)
        leaves = []
        for s in sps:
            k = rng.randint(1, nfam)
            chosen = set(rng.sample(range(nfam), k))
            leaves.append({"s": s, "f": [f for f in order if f in chosen]})
        present = {f for l in leaves for f in l["f"]}
        order = [f for f in order if f in present]
    else:
        leaves = [{"s": s} for s in sps]
    return {"S": S, "O": gen.fill_object(osh, iter(leaves))}, order


def strip_f(O):
    if isinstance(O, dict):
        return {"s": O["s"]}
    return [strip_f(c) for c in O]


# --------------------------------------------------------------------------
# evaluation of one item


def item_key(it):
    return {"case": it["case"], "sol": it["sol"], "mode": it["mode"], "float_inf": it.get("float_inf", False)}


def call_impl(it):
    """The real evaluator on one item -> {"events", "rec", "label", "total"} or {"err"}."""
    case, sol, mode = it["case"], it["sol"], it["mode"]
    try:
        if mode == "plain":
            out = build_output(case, sol, float_inf=it.get("float_inf", False), force_plain=True, present="auto")
        else:
            out = build_output(case, sol, ordered=(mode == "ordered"), float_inf=it.get("float_inf", False),
                               present="auto")
        events = [out.node_event(n).name for n in out.input.object_tree.traverse("preorder")]
        if mode == "plain":
            total = enc_cost(out.cost())
            return {"events": events, "rec": total, "label": 0, "total": total}
        return {
            "events": events,
            "rec": enc_cost(out.reconciliation_cost()),
            "label": enc_cost(out.labeling_cost()),
            "total": enc_cost(out.cost()),
        }
    except Exception as e:  # noqa
        return {"err": type(e).__name__, "msg": str(e)[:200]}


def history_on_output(res, it, rng, other=None):
    """Histories on ONE output object: evaluate, evaluate again, change the unit costs of its input IN PLACE, evaluate
    again.  Each evaluation must be the recount under the costs in force at that moment (state cached on the output
    or keyed by the input shows here and nowhere else).  Returns False after a violation."""
    from ..sr import costs_of

    case, sol, mode = it["case"], it["sol"], it["mode"]
    try:
        out = build_output(case, sol, force_plain=True) if mode == "plain" else \
            build_output(case, sol, ordered=(mode == "ordered"))
    except Exception:  # noqa
        return True
    other = rand_costs(rng) if other is None else other
    for step, costs in (("first evaluation", full_costs(case)), ("second evaluation of the same object", full_costs(case)),
                        ("after the costs were changed in place", other),
                        ("after the costs were changed back in place", full_costs(case))):
        out.input.costs.clear()
        out.input.costs.update(costs_of({"costs": costs}))
        exp = recount(sol, mode, costs)
        try:
            got = enc_cost(out.cost())
        except Exception as e:  # noqa
            got = {"err": type(e).__name__}
        res.dist["evaluation history on one output object"] += 1
        if got != exp["total"]:
            res.violation(f"cost() {step}: {got}, the recount under the costs in force is {exp['total']}",
                          {**item_key(it), "history": [full_costs(case), other]}, expected=exp["total"], observed=got)
            return False
    return True


def full_costs(case):
    c = {"spe": 0, "dup": 1, "hgt": 1, "floss": 1, "sloss": 1}
    c.update(case.get("costs", {}))
    return c


def judge(ctx, res, items, check_valid=True):
    """Evaluate items: implementation vs recount of this module (violation), vs Lean model and
    Lean specification (tie)."""
    reqs = []
    for it in items:
        base = {"O": it["case"]["O"], "costs": full_costs(it["case"]), "mode": it["mode"], "sol": it["sol"]}
        reqs.append({"op": "eval", **base})
        reqs.append({"op": "c06_recount", **base})
        if check_valid:
            vreq = {"op": "valid", "O": it["case"]["O"], "mode": it["mode"], "sol": it["sol"]}
            if it["case"].get("root") is not None:
                vreq["root"] = it["case"]["root"]  # validity under the prescribed root order (Spec.validSolPre)
            reqs.append(vreq)
    outs = iter(ctx.driver.parallel(reqs))
    for it in items:
        model, spec = next(outs), next(outs)
        ok_valid = next(outs) if check_valid else True
        case, key = it["case"], item_key(it)
        costs = full_costs(case)
        exp = recount(it["sol"], it["mode"], costs)
        impl = call_impl(it)
        n = sum(1 for _ in o_leaves(case["O"]))
        res.case(key, nontrivial=(n >= 3 and len(gen.leaf_paths(case["S"])) >= 2))
        res.dist[f"{it['mode']}:o{n}s{len(gen.leaf_paths(case['S']))}"] += 1
        for k in cost_class(costs):
            res.dist[k] += 1
        for k in (SPEC, DUP, HGT):
            if k in exp["events"]:
                res.dist["has " + k] += 1
        if exp["sloss"]:
            res.dist["has SEGMENTAL_LOSS"] += 1
        if it.get("float_inf"):
            res.dist["float-inf"] += 1
        if it.get("wide_root"):
            res.dist["ordered: root order strictly contains the leaf families"] += 1
        if not ok_valid or exp["invalid"]:
            # the generators of this module and the Lean validity predicate must agree
            res.tie_broken("harness-enumerated solution is not valid for Spec.validSol", key, ok_valid, exp["invalid"])
            continue
        # (a) the property itself
        if "err" in impl:
            res.violation(f"evaluator raises {impl['err']} on a valid solution: {impl.get('msg', '')}", key)
            continue
        for field, what in (("events", "node_event"), ("rec", "reconciliation cost"),
                            ("label", "labelling cost"), ("total", "total cost")):
            if impl[field] != exp[field]:
                res.violation(
                    f"{what} differs from the recount ({it['mode']} model): counts "
                    f"S={exp['spec']} D={exp['dup']} T={exp['hgt']} FL={exp['floss']} SL={exp['sloss']}",
                    key, expected=exp[field], observed=impl[field])
                break
        # (b) the tie: Lean model and Lean specification
        m = {"events": model["events"], "rec": model["rec"],
             "label": model["label"], "total": model["total"]}
        if m != impl:
            res.tie_broken("evaluator vs Lean model `eval` (events, rec, label, total)", key, m, impl)
        s_events = [e for e in impl["events"] if e != LEAF]
        s = {"kinds": spec["kinds"], "rec": spec["rec"], "label": spec["label"], "total": spec["total"]}
        i = {"kinds": s_events, "rec": impl["rec"], "label": impl["label"], "total": impl["total"]}
        if s != i or spec["linear"] != spec["total"]:
            res.tie_broken("evaluator vs Lean specification `c06_recount`", key, s, i)
        for f in ("spec", "dup", "hgt", "floss", "sloss", "invalid", "loss_species"):
            if spec[f] != exp[f]:
                res.tie_broken(f"recount of this module vs Lean specification: {f}", key, spec[f], exp[f])
                break


# --------------------------------------------------------------------------
# streams


def items_for_input(rng, inp, order, nfam, map_cap, lab_cap, per_map):
    """All (capped) valid mappings of an input, each evaluated unlabelled and with `per_map`
    labellings per labelled model."""
    S, O = inp["S"], inp["O"]
    maps = valid_mappings(S, strip_f(O))
    exhaustive = True
    if len(maps) > map_cap:
        maps = rng.sample(maps, map_cap)
        exhaustive = False
    items = []
    labs = {}
    if nfam:
        for mode in ("ordered", "unordered"):
            labs[mode] = Labeller(O, mode, order).sample(rng, lab_cap)
    for m in maps:
        case = {"S": S, "O": strip_f(O), "costs": rand_costs(rng)}
        items.append({"case": case, "sol": m, "mode": "plain", "float_inf": rng.random() < 0.3})
        for mode, ls in labs.items():
            for lab in (ls if len(ls) <= per_map else rng.sample(ls, per_map)):
                case = {"S": S, "O": O, "costs": rand_costs(rng)}
                items.append({"case": case, "sol": merge(m, lab), "mode": mode,
                              "float_inf": rng.random() < 0.3})
                if mode == "ordered" and "c" in lab and rng.random() < 0.25:
                    # prescribed root order strictly containing the leaf families (1-2 unused families)
                    wide = widen_root(rng, lab, [nfam + i for i in range(rng.randint(1, 2))])
                    case = {"S": S, "O": O, "costs": rand_costs(rng), "root": wide["f"]}
                    items.append({"case": case, "sol": merge(m, wide), "mode": mode,
                                  "float_inf": rng.random() < 0.3, "wide_root": True})
    return items, exhaustive


def enumeration_check(ctx, res, inputs):
    """The module's enumeration of valid mappings = the Lean specification's (filter of all
    mappings), so that 'all valid mappings' means the same thing on both sides."""
    reqs = [{"op": "spec_all_valid", "S": i["S"], "O": strip_f(i["O"])} for i in inputs]
    for inp, spec in zip(inputs, ctx.driver.parallel(reqs)):
        mine = sorted(json.dumps(m, sort_keys=True) for m in valid_mappings(inp["S"], strip_f(inp["O"])))
        theirs = sorted(json.dumps(m, sort_keys=True) for m in spec)
        if mine != theirs:
            res.tie_broken("enumeration of valid mappings: harness vs Lean Spec.allValid",
                           {"S": inp["S"], "O": inp["O"]}, len(theirs), len(mine))


def run(ctx, res):
    rng = ctx.rng
    items, inputs = [], []
    big = ctx.thorough or ctx.deep
    # stream 1: random inputs, every valid mapping (capped in the quick tier), labelled and not
    for _ in range(ctx.budget(600, 400)):
        nfam = rng.choice([0, 1, 2, 3, 3, 4, 4])
        inp, order = rand_input(rng, 5 if big else 4, 5 if big else 4, nfam)
        its, _ = items_for_input(rng, inp, order, nfam, map_cap=(400 if big else 20),
                                 lab_cap=(200 if big else 40), per_map=(3 if big else 2))
        items += its
        inputs.append(inp)
    # stream 1b: DEEP species trees (5-8 leaves, caterpillars over-sampled) under small object trees, every
    # valid mapping: the distance-dependent clauses (full losses over >= 3 skipped species, on the conserved
    # side of a transfer, on either side of a speciation/duplication) only show at depth
    for _ in range(ctx.budget(120, 300)):
        ns = rng.randint(5, 8)
        S = gen.rand_shape(rng, ns, rng.choice(["cat", "cat", None, "bal"]))
        osh = gen.rand_shape(rng, rng.choice([2, 2, 3, 3, 4]), None)
        nfam = rng.choice([0, 0, 2, 3])
        inp, order = rand_input(rng, 4, ns, nfam, oshape=osh, sshape=S)
        its, _ = items_for_input(rng, inp, order, nfam, map_cap=(400 if big else 60),
                                 lab_cap=(60 if big else 20), per_map=1)
        items += its
        res.dist["deep-species-input"] += 1
    # stream 2 (thorough): every pair of shapes up to 5x5, every valid mapping
    if big:
        shapes = [s for n in range(1, 6) for s in gen.shapes(n)]
        n_all = 0
        for S in shapes:
            for osh in shapes[1:]:
                heavy = gen.n_leaves(S) + gen.n_leaves(osh) >= 9
                for _ in range(2 if heavy else 3):
                    nfam = rng.choice([0, 0, 2, 4]) if not heavy else rng.choice([0, 0, 0, 3])
                    inp, order = rand_input(rng, 5, 5, nfam, oshape=osh, sshape=S)
                    its, ex = items_for_input(rng, inp, order, nfam, map_cap=10 ** 9, lab_cap=60, per_map=1)
                    items += its
                    n_all += ex
        res.notes.append(f"{n_all} inputs over all shape pairs up to 5x5 leaves evaluated on every valid mapping")
    # stream 3: bounded-exhaustive — every input (shapes and leaf species) up to 3x3 (quick) / 4x3 (thorough)
    # object x species leaves, every valid mapping, unlabelled
    n_ex = 0
    for base in gen.exhaustive_plain_cases(4 if big else 3, 3):
        if isinstance(base["O"], dict):
            continue
        for m in valid_mappings(base["S"], base["O"]):
            items.append({"case": {**base, "costs": rand_costs(rng)}, "sol": m, "mode": "plain",
                          "float_inf": rng.random() < 0.2})
        n_ex += 1
    res.notes.append(f"{n_ex} inputs = all inputs up to {4 if big else 3}x3 leaves, each on every valid mapping")
    for i in range(0, len(items), 20000):
        judge(ctx, res, items[i:i + 20000], check_valid=True)
    for it in rng.sample(items, min(len(items), ctx.budget(300, 3000))):
        if not history_on_output(res, it, rng):
            break
    enumeration_check(ctx, res, [i for i in inputs if all_mappings_count(i["S"], i["O"]) <= 7000][: ctx.budget(25, 150)])
    cli_stream(ctx, res, ctx.budget(60, 300))


# --------------------------------------------------------------------------
# the command-line tool


ALGO_MODE = {"lca": "plain", "thl": "plain", "exh": "plain", "ext_spfs": "ordered",
             "base_spfs": "ordered", "superdtl": "unordered", "base_uspfs": "unordered"}


def cli_args(argv):
    import argparse

    from superrec2.cli import reconcile as cli

    parser = argparse.ArgumentParser()
    cli.add_args(parser.add_subparsers())
    return parser.parse_args(argv)


def run_cli(it):
    """Run `reconcile` on temporary files.  Returns {"printed": cost, "sols": [canonical]} or {"err"}."""
    from superrec2.model.reconciliation import ReconciliationOutput, SuperReconciliationOutput

    case, algo = it["case"], it["algo"]
    costs = full_costs(case)
    inp = build_input(case, force_plain=(ALGO_MODE[algo] == "plain"))
    data = inp.to_dict()
    data.pop("costs")
    with tempfile.TemporaryDirectory() as d:
        pin, pout = os.path.join(d, "in.json"), os.path.join(d, "out.json")
        with open(pin, "w") as f:
            json.dump(data, f)
        argv = ["reconcile", "--input", pin, "--output", pout, algo, "--solutions", it["policy"]]
        for k in ("spe", "dup", "hgt", "floss", "sloss"):
            argv += [f"--cost-{k}", "float('inf')" if costs[k] == "inf" else str(costs[k])]
        err = io.StringIO()
        try:
            args = cli_args(argv)
            with contextlib.redirect_stderr(err):
                rc = args.func(args)
            args.input.close()
            args.output.close()
        except (Exception, SystemExit) as e:  # noqa
            return {"err": type(e).__name__, "msg": str(e)[:200]}
        printed = [l for l in err.getvalue().splitlines() if l.startswith("Minimum cost:")]
        if rc == 1 and not printed:
            return {"printed": None, "sols": []}
        if len(printed) != 1:
            return {"err": "no-minimum-cost-line", "msg": err.getvalue()[-200:]}
        text = printed[0].split(":", 1)[1].strip()
        value = "inf" if text in ("inf", "Infinity") else int(text)
        sols = []
        with open(pout) as f:
            for line in f:
                if not line.strip():
                    continue
                dct = json.loads(line)
                cls = SuperReconciliationOutput if "syntenies" in dct else ReconciliationOutput
                sols.append(canon_solution(cls.from_dict(dct)))
    return {"printed": value, "sols": sols}


def judge_cli(ctx, res, it):
    case, algo = it["case"], it["algo"]
    mode = ALGO_MODE[algo]
    key = {"cli": True, "case": case, "algo": algo, "policy": it["policy"]}
    out = run_cli(it)
    res.case(key, nontrivial=True)
    res.dist[f"cli:{algo}:{it['policy']}"] += 1
    if "err" in out:
        # a failure of the tool is C12's / the solver properties' business, not this one's
        res.notes.append(f"cli {algo} did not complete ({out['err']}): not judged")
        return
    if out["printed"] is None:
        return
    if not out["sols"]:
        res.violation("the tool prints a minimum cost but writes no solution", key, observed=out["printed"])
        return
    costs = full_costs(case)
    reqs = []
    for s in out["sols"]:
        exp = recount(s, mode, costs)["total"]
        if exp != out["printed"]:
            res.violation(
                f"'Minimum cost: {out['printed']}' is not the recount of a written solution ({algo}, {it['policy']})",
                key, expected=exp, observed=out["printed"])
            return
        reqs.append({"op": "c06_recount", "O": case["O"] if mode != "plain" else strip_f(case["O"]),
                     "costs": costs, "mode": mode, "sol": s})
    for s, spec in zip(out["sols"], ctx.driver.batch(reqs)):
        if spec["total"] != out["printed"]:
            res.tie_broken("printed minimum cost vs Lean specification recount of a written solution", key,
                           spec["total"], out["printed"])
            return


def cli_items(ctx, n):
    rng = ctx.rng
    out = []
    for _ in range(n):
        algo = rng.choice(["lca", "thl", "exh", "ext_spfs", "ext_spfs", "base_spfs", "superdtl", "superdtl",
                           "base_uspfs"])
        mode = ALGO_MODE[algo]
        policy = rng.choice(["any", "all"])
        inp, order = rand_input(rng, 4, 4, 0 if mode == "plain" else rng.randint(1, 3))
        # under `all` every written solution must have the printed cost: keep the costs inside the region
        # where the optimisers are exact (F-COHERENCE is a recorded finding of C01-C05, not of this property)
        costs = gen.rand_costs(rng, plain=(mode == "plain"), coherent_only=True)
        if algo == "lca":
            costs["hgt"] = costs["hgt"] if costs["hgt"] != "inf" else 1
        case = {"S": inp["S"], "O": inp["O"], "costs": costs}
        out.append({"case": case, "algo": algo, "policy": policy})
    return out


def cli_stream(ctx, res, n):
    for it in cli_items(ctx, n):
        judge_cli(ctx, res, it)


# --------------------------------------------------------------------------
# corpus, replay

CORPUS = [
    # the running example of Properties/C06.lean: speciation, duplication (2 full losses), transfer
    {"case": {"S": [[[], []], []],
              "O": [[{"s": "00", "f": [1, 3]}, {"s": "00", "f": [2]}], [{"s": "1", "f": [1]}, {"s": "01", "f": [2]}]],
              "costs": {"spe": 5, "dup": 3, "hgt": 7, "floss": 2, "sloss": 1}},
     "sol": {"s": "", "f": [1, 2, 3], "c": [
         {"s": "0", "f": [1, 2, 3], "c": [{"s": "00", "f": [1, 3]}, {"s": "00", "f": [2]}]},
         {"s": "1", "f": [1, 2], "c": [{"s": "1", "f": [1]}, {"s": "01", "f": [2]}]}]},
     "mode": "ordered"},
    # F-COHERENCE witness input, evaluated under its incoherent costs: the evaluator alone is exact
    {"case": {"S": [[[], []], []], "O": [[{"s": "00"}, {"s": "01"}], {"s": "1"}],
              "costs": {"spe": 4, "dup": 0, "hgt": 9, "floss": 1, "sloss": 1}},
     "sol": {"s": "", "c": [{"s": "0", "c": [{"s": "00"}, {"s": "01"}]}, {"s": "1"}]}, "mode": "plain"},
    # duplication above distant children with an infinite transfer cost (float): no transfer, finite cost
    {"case": {"S": [[[], []], []], "O": [{"s": "00"}, {"s": "00"}],
              "costs": {"spe": 1, "dup": 2, "hgt": "inf", "floss": 3, "sloss": 0}},
     "sol": {"s": "", "c": [{"s": "00"}, {"s": "00"}]}, "mode": "plain", "float_inf": True},
    # transfer whose conserved child is the right one, partial copy with end runs on the left
    {"case": {"S": [[], []], "O": [{"s": "1", "f": [1]}, {"s": "0", "f": [0, 2]}],
              "costs": {"spe": 0, "dup": 0, "hgt": 0, "floss": 0, "sloss": 1}},
     "sol": {"s": "0", "f": [0, 1, 2], "c": [{"s": "1", "f": [1]}, {"s": "0", "f": [0, 2]}]}, "mode": "ordered"},
]


def corpus(ctx, res):
    judge(ctx, res, [dict(c) for c in CORPUS])


def replay(ctx, data):
    inp = data["input"]
    r = Result()
    if inp.get("cli"):
        judge_cli(ctx, r, {"case": inp["case"], "algo": inp["algo"], "policy": inp["policy"]})
    elif inp.get("history"):
        # an evaluation history on one output object: replay the recorded cost change
        case = dict(inp["case"], costs=dict(inp["history"][0]))
        history_on_output(r, {"case": case, "sol": inp["sol"], "mode": inp["mode"],
                              "float_inf": inp.get("float_inf", False)}, None, other=dict(inp["history"][1]))
        if r.concrete:
            return False, "still fails: " + r.concrete[0]["what"]
        return True, "ok: property holds on this history"
    else:
        judge(ctx, r, [{"case": inp["case"], "sol": inp["sol"], "mode": inp["mode"],
                        "float_inf": inp.get("float_inf", False)}])
    if r.concrete:
        return False, "still fails: " + r.concrete[0]["what"]
    if r.mismatch:
        return False, "model and implementation still differ: " + r.mismatch[0]["relation"]
    return True, "ok: property holds on this input"
