"""Factory for the solver-property check modules C02, C03, C05 (C01 and C04 have extras)."""
from .. import solvers
from ..common import Result
from ..solvers import execute, tie


def make(ID, algos, gens, judge_fn, quick, thorough, corpus_cases=(), known_algos=(), exhaustive=None):
    """Returns (corpus, run, shrink, replay) functions for a check module.

    exhaustive: optional callable () -> iterable of cases, enumerated IN ADDITION in the thorough tier (and in
    the deep search): the bounded-exhaustive scope quoted in the property's quantifier."""

    def judge(ctx, res, runs):
        for r in runs:
            res.case({"case": r.case, "algo": r.algo}, solvers.nontrivial(r.case))
            solvers.describe(res, r.case, r.algo)
            judge_fn(res, r)
            tie(res, r)

    def algos_for(case):
        has = any("f" in l for _, l in solvers._leaves(case["O"]))
        out = [a for a in algos if has or solvers.MODE[a] == "plain"]
        if case.get("only") == "unordered":
            out = [a for a in out if solvers.MODE[a] == "unordered"]
        if case.get("root") is not None:
            # a prescribed root order only has a documented meaning for the ordered solvers
            out = [a for a in out if solvers.MODE[a] != "unordered"]
        return out

    def corpus(ctx, res):
        items = [(c, a) for c in corpus_cases for a in algos_for(c)]
        if items:
            judge(ctx, res, execute(ctx, items))
        for case, algo, fid in solvers.known_witnesses(ID, known_algos):
            for r in execute(ctx, [(case, algo)]):
                judge_fn(res, r)

    def run(ctx, res):
        items = []
        n = ctx.budget(quick, thorough)
        for g, share in gens:
            for _ in range(max(1, int(n * share))):
                c = g(ctx, ctx.rng)
                items += [(c, a) for a in algos_for(c)]
        if exhaustive is not None and (ctx.thorough or ctx.deep):
            k = 0
            for c in exhaustive():
                items += [(c, a) for a in algos_for(c)]
                k += 1
            res.dist["bounded-exhaustive cases"] += k
        for i in range(0, len(items), 2000):
            judge(ctx, res, execute(ctx, items[i : i + 2000]))
        # histories on ONE input object (the solvers key their tables by the input): the costs of the object are changed
        # in place between calls, as the package's own tests do; each call must answer like a fresh input
        from .. import gen

        rng = ctx.rng
        pool = [(c, a) for c, a in items if solvers.nontrivial(c) and not c.get("root")]
        for c, a in rng.sample(pool, min(len(pool), ctx.budget(40, 400))):
            plain = solvers.MODE[a] == "plain"
            other = gen.rand_costs(rng, plain=plain)
            if not solvers.inplace_history(res, c, dict(solvers.full_costs(c), **other), a,
                                           what_prefix="solver reused on one input object: "):
                break

    def fails_one(ctx):
        def f(case):
            r = Result()
            for a in algos_for(case):
                judge(ctx, r, execute(ctx, [(case, a)]))
            return r.concrete[0] if r.concrete else None

        return f

    def shrink(ctx, violation):
        return solvers.shrink(ctx, violation, fails_one(ctx))

    def replay(ctx, data):
        inp = data["input"]
        r = Result()
        if "history" in inp:
            return solvers.replay_inplace(inp)
        judge(ctx, r, execute(ctx, [(inp["case"], inp["algo"])]))
        ok = not r.concrete
        return ok, ("ok: property holds on this input" if ok else "still fails: " + r.concrete[0]["what"])

    return corpus, run, shrink, replay
