"""C12 — The command-line tool names nodes, reports the true cost, writes readable output."""
import argparse
import contextlib
import io
import json
import os
import re
import subprocess
import sys
import tempfile

from ete3 import Tree

from superrec2.cli import draw as cli_draw
from superrec2.cli import reconcile as cli_reconcile
from superrec2.model.reconciliation import (
    ReconciliationInput,
    ReconciliationOutput,
    SuperReconciliationOutput,
)
from superrec2.model.tree_mapping import get_species_mapping
from superrec2.utils.trees import LowestCommonAncestor

from harness import common, gen, stubtex
from harness.checks import c12_bridge, c12_cli, c12_json

ID = "C12"
NOTES = {}  # observations that are not violations of the property (counted into the distribution)
RULE = (
    "input files in the README format, written to a temp dir and given to the real `reconcile` "
    "sub-command in-process (argparse parser built as cli/__main__.py does, stdout/stderr captured): "
    "binary species trees <= 5 leaves and object trees <= 6 leaves (<= 4 for exh); species names with "
    "mixed case and underscores; leaf names <species>_<id> (case varied); ancestors named / partially "
    "named / unnamed in either tree, with given names drawn from a pool containing O0..O5, S0..S3, "
    "numbers and ordinary words so that given names collide with the indices the tool would pick; NHX "
    "colours on some nodes; with and without leaf_object_species (names then resolve through "
    "get_species_mapping); with and without leaf_syntenies (orders consistent in 85% of the cases); "
    "every input run with the seven algorithms x --solutions any/all, cost options from the coherent "
    "region incl. --cost-hgt \"float('inf')\" and arithmetic expressions.  Checked per run: exit status, "
    "one JSON object per line, names distinct / non-empty / given names untouched / new names O#,S# in "
    "pre-order = the first free indices (independent Python restatement), topology, colours and leaf "
    "assignment preserved, from_dict(obj).cost() == printed 'Minimum cost:', all >= any (as sets of "
    "objects), `draw` (in-process, stub measurer) accepts up to 3 objects per run; a super-"
    "reconciliation algorithm on an input without syntenies returns status 1, prints the error and "
    "leaves the output file empty.  Three real subprocesses confirm the process-level exit status.  "
    "Non-trivial: some ancestor is unnamed and some given name has the form O#/S#, or the run is the "
    "error case, or `all` writes >= 2 objects."
)
TRUSTED = [
    "model: lean/SRVerif/Model/Cli.lean (label_internal as a loop over the pre-order name sequence with a "
    "live search of the tree; call_algorithm's dispatch over the registry generated from the source; "
    "reconcile's exit status; draw's class choice) and get_species_mapping in Model/Serialize.lean",
    "argparse, json and file I/O are Python's; the TeX measurer is the stub of harness/stubtex.py",
    "multifurcating inputs: the clauses of check_refined_tree are proved for all trees as the composition "
    "labelTree . Newick reparse . binarize . labelTree of the models of C12, C08 and C11 "
    "(Properties/C12Refine.lean: C12_refine_cli_full, C12_refine_input)",
    "C12_cost / C12_superset are compositions: the cost printed is results[0].cost() and C06/C11/C05 "
    "carry the rest; here they are checked on the real runs only",
]
ASSUMPTIONS = [
    "cost options in the coherent region (spe + 2 sloss <= dup + 2 floss), see F-COHERENCE",
    "node names are unique within each input tree, non-empty on leaves, and no node is literally named "
    "'NoName' (ete3's legacy default, which label_internal treats as unnamed)",
    "`--cost-hgt inf` is NOT accepted: eval('inf') raises NameError inside argparse (the module does not "
    "import inf); an infinite cost must be written float('inf') — recorded in the notes",
    "ordered algorithms on inconsistent leaf orders may have no solution: status 1, nothing written",
]
OPEN = list(c12_cli.OPEN_CLI)
TRUSTED = TRUSTED + list(c12_bridge.TRUSTED_BRIDGE) + list(c12_json.TRUSTED_JSON)
RULE = RULE + " Bridge ties:" + c12_bridge.RULE_BRIDGE + " JSON text tie:" + c12_json.RULE_JSON
BRIDGE_NOTE = ("the embedding and the evaluator of Model/SolOutput.lean (the objects of Properties/C12Bridge.lean) are tied to "
               "the real to_dict() / from_dict(d).cost() by harness/checks/c12_bridge.py (driver ops c12b_emb, c12b_eval)")

ALGOS = ["exh", "lca", "thl", "base_spfs", "ext_spfs", "base_uspfs", "superdtl"]
SUPER = {"base_spfs", "ext_spfs", "base_uspfs", "superdtl"}
ORDERED = {"base_spfs", "ext_spfs"}
SPECIES_POOL = ["X", "Y", "Z", "W", "sp", "Hs", "A_b", "a_c", "E_coli", "k12", "T", "Mm"]
ANC_POOL = ["O0", "O1", "O2", "O3", "O4", "O5", "S0", "S1", "S2", "S3", "anc", "root", "N1", "12",
            "0", "O", "S", "O01", "o1", "XY", "n_1"]
COLOURS = ["red", "0000FF", "blue", "ff8800"]
FAMS = ["g1", "g2", "g3", "g4", "g5", "g10"]

_PARSER = None


def parser():
    global _PARSER
    if _PARSER is None:
        p = argparse.ArgumentParser()
        sub = p.add_subparsers(required=True)
        cli_reconcile.add_args(sub)
        cli_draw.add_args(sub)
        _PARSER = p
    return _PARSER


# --------------------------------------------------------------------------
# generation of documented-format inputs


def newick(nt):
    s = ""
    if nt["k"]:
        s = "(" + ",".join(newick(k) for k in nt["k"]) + ")"
    s += nt["n"]
    if nt.get("c"):
        s += f"[&&NHX:color={nt['c']}]"
    return s


def pre(nt):
    yield nt
    for k in nt["k"]:
        yield from pre(k)


def rand_input(rng, max_o=6, max_s=5):
    ns = rng.randint(1, max_s)
    no = rng.randint(1, max_o)
    sshape = gen.rand_shape(rng, ns)
    oshape = gen.rand_shape(rng, no, rng.choice([None, None, "cat", "bal"]))
    species = rng.sample(SPECIES_POOL, ns)
    # keep get_species_mapping unambiguous: no species name is an underscore-prefix of another
    low = [s.lower() for s in species]
    if any(a != b and b.startswith(a + "_") for a in low for b in low):
        species = [s for s in SPECIES_POOL if "_" not in s][:ns]
    mode_s = rng.choice(["named", "partial", "unnamed"])
    mode_o = rng.choice(["named", "partial", "unnamed", "unnamed"])

    def anc_name(mode, used):
        if mode == "unnamed" or (mode == "partial" and rng.random() < 0.5):
            return ""
        cands = [a for a in ANC_POOL if a not in used]
        nm = rng.choice(cands)
        used.add(nm)
        return nm

    sit = iter(species)
    used_s = set(species)

    def build_s(shape):
        if not shape:
            return {"n": next(sit), "c": None, "k": []}
        kids = [build_s(s) for s in shape]
        return {"n": anc_name(mode_s, used_s), "c": None, "k": kids}

    snt = build_s(sshape)
    leaf_species, leaf_names = {}, []
    counter = {}
    used_o = set()

    def build_o(shape):
        if not shape:
            sp = rng.choice(species)
            counter[sp] = counter.get(sp, 0) + 1
            shown = sp if rng.random() < 0.6 else rng.choice([sp.lower(), sp.upper()])
            nm = f"{shown}_{counter[sp]}"
            while nm in used_o:
                counter[sp] += 1
                nm = f"{shown}_{counter[sp]}"
            used_o.add(nm)
            leaf_species[nm] = sp
            leaf_names.append(nm)
            return {"n": nm, "c": rng.choice(COLOURS) if rng.random() < 0.1 else None, "k": []}
        kids = [build_o(s) for s in shape]
        return {"n": "?", "c": rng.choice(COLOURS) if rng.random() < 0.15 else None, "k": kids}

    ont = build_o(oshape)
    for node in pre(ont):
        if node["k"]:
            node["n"] = anc_name(mode_o, used_o)
    data = {"object_tree": newick(ont) + ";", "species_tree": newick(snt) + ";"}
    if rng.random() < 0.75:
        items = list(leaf_species.items())
        if rng.random() < 0.3:
            rng.shuffle(items)
        data["leaf_object_species"] = dict(items)
    syn = None
    if rng.random() < 0.7:
        nf = rng.randint(1, len(FAMS))
        order = rng.sample(FAMS, nf)
        consistent = rng.random() < 0.85
        syn = {}
        for nm in leaf_names:
            fs = [f for f in order if rng.random() < 0.7] or [rng.choice(order)]
            if not consistent:
                rng.shuffle(fs)
            syn[nm] = fs
        data["leaf_syntenies"] = syn
    return {"data": data, "ot": ont, "st": snt, "leaf_species": leaf_species}


def polytomise(rng, nt):
    """Collapse one random internal non-root node of a name tree (its children join its parent)."""
    edges = [(p, i) for p in pre(nt) for i, k in enumerate(p["k"]) if k["k"]]
    if not edges:
        return False
    p, i = rng.choice(edges)
    p["k"][i:i + 1] = p["k"][i]["k"]
    return True


def rand_multi_input(rng):
    """A documented-format input with a polytomy in the object tree, the species tree, or both, leaf
    syntenies present (only ext_spfs / superdtl accept non-binary inputs); ancestors named / partially named."""
    import copy

    while True:
        gi = rand_input(rng, max_o=5, max_s=4)
        if "leaf_syntenies" not in gi["data"]:
            continue
        gi = copy.deepcopy(gi)
        which = rng.choice(["O", "S", "both"])
        done = False
        if which in ("O", "both"):
            done |= polytomise(rng, gi["ot"])
        if which in ("S", "both"):
            done |= polytomise(rng, gi["st"])
        if not done:
            continue
        if rng.random() < 0.6:
            # make sure the ROOTS carry user names (a refinement re-serialises the trees: root labels are the
            # first thing to go missing)
            for nt, nm in ((gi["ot"], "rootO"), (gi["st"], "LUCA")):
                if nt["k"] and not nt["n"]:
                    nt["n"] = nm
        gi["data"]["object_tree"] = newick(gi["ot"]) + ";"
        gi["data"]["species_tree"] = newick(gi["st"]) + ";"
        # consistent orders keep the ordered solver from answering "no solution" most of the time
        gi["multi"] = True
        return gi


def rand_cost_args(rng):
    if rng.random() < 0.3:
        return []
    c = gen.rand_costs(rng, plain=False)
    out = []
    for k in ("spe", "dup", "hgt", "floss", "sloss"):
        if rng.random() < 0.2:
            continue  # default
        v = c[k]
        if v == "inf":
            expr = "float('inf')"
        elif rng.random() < 0.15 and v >= 1:
            expr = f"{v - 1}+1"
        else:
            expr = str(v)
        out += [f"--cost-{k}", expr]
    # the defaults left in place must keep the vector coherent
    full = {"spe": 0, "dup": 1, "hgt": 1, "floss": 1, "sloss": 1}
    for i in range(0, len(out), 2):
        k = out[i][len("--cost-"):]
        e = out[i + 1]
        full[k] = "inf" if "inf" in e else eval(e)
    if not gen.coherent(full):
        return []
    return out


# --------------------------------------------------------------------------
# running the real CLI in-process


def run_reconcile(tmp, data, algo, solutions, cost_args):
    inp = os.path.join(tmp, "in.json")
    outp = os.path.join(tmp, "out.json")
    with open(inp, "w") as f:
        json.dump(data, f)
    argv = ["reconcile", "--input", inp, "--output", outp, algo, "--solutions", solutions] + cost_args
    err = io.StringIO()
    out = io.StringIO()
    exc = None
    status = None
    args = None
    try:
        with contextlib.redirect_stderr(err), contextlib.redirect_stdout(out):
            args = parser().parse_args(argv)
            status = args.func(args)
    except SystemExit as e:
        status = ("exit", e.code)
    except Exception as e:  # noqa
        exc = f"{type(e).__name__}: {e}"
    finally:
        if args is not None:
            args.input.close()
            args.output.close()
    with open(outp) as f:
        text = f.read()
    return {"status": status, "stderr": err.getvalue(), "stdout": out.getvalue(), "exc": exc, "text": text}


def run_draw(tmp, obj, orientation):
    inp = os.path.join(tmp, "d.json")
    outp = os.path.join(tmp, "d.tex")
    with open(inp, "w") as f:
        json.dump(obj, f)
    args = None
    try:
        with contextlib.redirect_stderr(io.StringIO()), contextlib.redirect_stdout(io.StringIO()):
            args = parser().parse_args(["draw", "--input", inp, "--output", outp, "--orientation", orientation])
            status = args.func(args)
    except Exception as e:  # noqa
        return f"draw raised {type(e).__name__}: {e}"
    finally:
        if args is not None:
            args.input.close()
            args.output.close()
    if status != 0:
        return f"draw returned {status}"
    with open(outp) as f:
        tikz = f.read()
    if "\\begin{tikzpicture}" not in tikz:
        return "draw wrote no tikzpicture"
    # the documented default: no --output (the standard output) and no explicit output type
    # (fixed defect F-DRAW-STDOUT: argparse names that stream "<stdout>", `draw` tested for "-")
    args = None
    class _Stdout(io.BytesIO):  # what sys.stdout.buffer is to argparse.FileType: a binary stream named "<stdout>"
        name = "<stdout>"

    fake = io.TextIOWrapper(_Stdout(), encoding="utf-8")
    old = sys.stdout
    try:
        sys.stdout = fake
        with contextlib.redirect_stderr(io.StringIO()):
            args = parser().parse_args(["draw", "--input", inp, "--orientation", orientation])
            status = args.func(args)
        fake.flush()
        written = fake.buffer.getvalue().decode("utf-8", "replace")
    except Exception as e:  # noqa
        return f"draw to the standard output raised {type(e).__name__}: {e}"
    finally:
        sys.stdout = old
        if args is not None:
            args.input.close()
    if status != 0:
        return f"draw without --output (standard output, no output type) returned {status}"
    if written != tikz:
        return "draw writes different TikZ code to the standard output and to a .tex file"
    return None


# --------------------------------------------------------------------------
# the property, restated


def expected_names(nt, prefix):
    """Pre-order names after labelling: given names untouched, the i-th unnamed node receives the
    prefix followed by the i-th smallest index whose name is not a given name."""
    given = {n["n"] for n in pre(nt) if n["n"]}
    out, k = [], 0
    for n in pre(nt):
        if n["n"]:
            out.append(n["n"])
        else:
            while f"{prefix}{k}" in given:
                k += 1
            out.append(f"{prefix}{k}")
            k += 1
    return out


def tree_facts(newick_text):
    t = Tree(newick_text, format=1)
    nodes = list(t.traverse("preorder"))
    return (
        [n.name for n in nodes],
        [len(n.children) for n in nodes],
        [getattr(n, "color", None) for n in nodes],
    )


def clade_names(newick_text):
    """{frozenset of leaf names below a node: (name, number of children)} of a Newick text."""
    t = Tree(newick_text, format=1)
    return {frozenset(l.name for l in n.iter_leaves()): (n.name, len(n.children)) for n in t.traverse()}


def nt_clades(nt):
    out = {}

    def go(n):
        if not n["k"]:
            c = frozenset([n["n"]])
        else:
            c = frozenset().union(*[go(k) for k in n["k"]])
        out[c] = n["n"]
        return c

    go(nt)
    return out


def check_refined_tree(key, text, nt, prefix):
    """Multifurcating input: the output tree is a BINARY REFINEMENT of the input tree in which every node
    the user named keeps its name (on the node with the same clade), all names are distinct and non-empty,
    and every other internal node is called <prefix><number> (a name the input does not use)."""
    try:
        got = clade_names(text)
    except Exception as e:  # noqa
        return f"{key} does not parse: {type(e).__name__}"
    names = [nm for nm, _ in got.values()]
    if any(not n or n == "NoName" for n in names):
        return f"{key} has an unnamed node: {text}"
    if len(set(names)) != len(names):
        return f"{key} has colliding names: {text}"
    if any(k not in (0, 2) for _, k in got.values()):
        return f"{key} is not binary: {text}"
    want = nt_clades(nt)
    given = {n for n in want.values() if n}
    for clade, nm in want.items():
        if clade not in got:
            return f"{key}: the clade {sorted(clade)} of the input is not a clade of the output {text}"
        if nm and got[clade][0] != nm:
            return f"{key}: node named {nm!r} in the input is named {got[clade][0]!r} in the output {text}"
    for clade, (nm, _) in got.items():
        if not want.get(clade) and (not re.fullmatch(prefix + r"[0-9]+", nm) or nm in given):
            return f"{key}: generated name {nm!r} is not a fresh {prefix}<number>: {text}"
    return None


def check_object(case, obj, mincost):
    """None or a description of how one output object breaks the property."""
    inp = obj.get("input", {})
    if case.get("multi"):
        for key, nt, prefix in (("object_tree", case["ot"], "O"), ("species_tree", case["st"], "S")):
            bad = check_refined_tree(key, inp.get(key, ""), nt, prefix)
            if bad:
                return bad
    for key, nt, prefix in (() if case.get("multi") else
                            (("object_tree", case["ot"], "O"), ("species_tree", case["st"], "S"))):
        try:
            names, arity, colours = tree_facts(inp[key])
        except Exception as e:  # noqa
            return f"{key} does not parse: {type(e).__name__}"
        if any(not n or n == "NoName" for n in names):
            return f"{key} has an unnamed node: {inp[key]}"
        if len(set(names)) != len(names):
            return f"{key} has colliding names: {inp[key]}"
        # the property: existing names untouched; every unnamed ancestor becomes <prefix><number>, a name the input
        # does not use, numbered in pre-order (increasing).  WHICH numbers (the first free ones) is the business of
        # the model tie (op c12_label), not of the property.
        given_seq = [n["n"] for n in pre(nt)]
        given = {g for g in given_seq if g}
        last = -1
        for got_name, g in zip(names, given_seq):
            if g:
                if got_name != g:
                    return f"{key}: node named {g!r} in the input is named {got_name!r} in the output {inp[key]}"
                continue
            m_ = re.fullmatch(re.escape(prefix) + r"([0-9]+)", got_name)
            if not m_ or got_name in given:
                return f"{key}: generated name {got_name!r} is not a fresh {prefix}<number> ({inp[key]})"
            if int(m_.group(1)) <= last:
                return f"{key}: generated names are not numbered in pre-order: {names}"
            last = int(m_.group(1))
        if names != expected_names(nt, prefix):
            NOTES["numbering differs from first-free indices"] = NOTES.get("numbering differs from first-free indices", 0) + 1
        if arity != [len(n["k"]) for n in pre(nt)]:
            return f"{key} topology changed: {inp[key]}"
        if colours != [n["c"] for n in pre(nt)]:
            return f"{key} colours changed: {inp[key]}"
    if inp.get("leaf_object_species") is None or dict(inp["leaf_object_species"]) != case["leaf_species"]:
        return f"leaf assignment {inp.get('leaf_object_species')} differs from the input's {case['leaf_species']}"
    try:
        if "syntenies" in obj:
            back = SuperReconciliationOutput.from_dict(obj)
        else:
            back = ReconciliationOutput.from_dict(obj)
        cost = back.cost()
    except Exception as e:  # noqa
        return f"object does not read back: {type(e).__name__}: {e}"
    if cost != mincost:
        return f"object reads back with cost {cost}, printed minimum cost {mincost}"
    return None


def canon_obj(obj):
    return json.dumps(obj, sort_keys=True)


def noise_free(line):
    """A stderr line that is neither the cost line nor a warning of a solver (family cycle)."""
    return bool(line.strip()) and not line.startswith("Minimum cost:") and "cycle" not in line.lower()


def check_case(case, tmp, draw_budget=3, rng=None):
    """Run one (input, algorithm, cost options) under both policies.
    Returns (failure | None, observations for the model tie)."""
    data, algo, cost_args = case["data"], case["algo"], case["cost_args"]
    has_syn = "leaf_syntenies" in data
    obs = {}
    lines_by = {}
    for solutions in ("any", "all"):
        r = run_reconcile(tmp, data, algo, solutions, cost_args)
        if r["exc"]:
            return f"reconcile --solutions {solutions} raised {r['exc']}", obs
        lines = r["text"].splitlines()
        m = re.search(r"^Minimum cost: (\S+)$", r["stderr"], re.M)
        obs[solutions] = {
            "status": 0 if r["status"] is None else r["status"],
            # wording-free: a line that is no "Minimum cost:" line and no solver warning
            "warn": r["status"] is None and any(noise_free(ln) for ln in r["stderr"].splitlines()),
            "error": r["status"] == 1 and r["text"] == "" and not m and algo in SUPER and not has_syn,
            "mincost": m is not None,
            "lines": len(lines),
        }
        if r["stdout"]:
            return "reconcile wrote to stdout although --output was given", obs
        if algo in SUPER and not has_syn:
            if r["status"] != 1 or r["text"] != "" or m:
                return (f"super-reconciliation algorithm without syntenies: status {r['status']}, "
                        f"{len(r['text'])} bytes written, stderr {r['stderr']!r}"), obs
            continue
        if r["status"] == 1 and not lines and not m:
            # no solution: only legitimate for ordered algorithms (inconsistent orders)
            if algo in ORDERED:
                lines_by[solutions] = []
                continue
            return f"no solution reported (status 1) by {algo}", obs
        if r["status"] is not None:
            return f"reconcile returned {r['status']}", obs
        if not m:
            return "no 'Minimum cost:' line on stderr", obs
        if not r["text"].endswith("\n") or not lines:
            return "output is not a sequence of newline-terminated lines", obs
        txt = m.group(1)
        mincost = float(txt) if txt in ("inf", "Infinity", "nan") or not re.fullmatch(r"-?[0-9]+", txt) else int(txt)
        objs = []
        for ln in lines:
            try:
                o = json.loads(ln)
            except ValueError:
                return f"output line is not a JSON object: {ln[:80]}", obs
            if not isinstance(o, dict):
                return "output line is not a JSON object", obs
            objs.append(o)
        if solutions == "any" and len(objs) != 1:
            return f"--solutions any wrote {len(objs)} objects", obs
        if len({canon_obj(o) for o in objs}) != len(objs):
            return "the same object is written twice", obs
        for o in objs:
            bad = check_object(case, o, mincost)
            if bad:
                return f"--solutions {solutions}: {bad}", obs
        for o in objs[:draw_budget]:
            bad = run_draw(tmp, o, "horizontal" if len(objs) % 2 else "vertical")
            if bad:
                return f"--solutions {solutions}: {bad}", obs
        lines_by[solutions] = [canon_obj(o) for o in objs]
    if "any" in lines_by and "all" in lines_by:
        if algo != "lca" and not set(lines_by["any"]) <= set(lines_by["all"]):
            obs["any_obj"] = lines_by["any"]
            obs["all_objs"] = lines_by["all"]
            return "--solutions all does not contain the object written by --solutions any", obs
        if bool(lines_by["any"]) != bool(lines_by["all"]):
            return "one policy finds a solution and the other none", obs
    return None, obs


def nontrivial(case, obs):
    names = [n["n"] for n in list(pre(case["ot"])) + list(pre(case["st"]))]
    unnamed = any(not n for n in names)
    lookalike = any(re.fullmatch(r"[OS][0-9]+", n) for n in names)
    return (unnamed and lookalike) or (case["algo"] in SUPER and "leaf_syntenies" not in case["data"]) \
        or obs.get("all", {}).get("lines", 0) >= 2


# --------------------------------------------------------------------------
# model tie


def to_nt(node):
    return {"n": node.name, "c": getattr(node, "color", None), "k": [to_nt(c) for c in node.children]}


def index(tree):
    fwd = {}

    def rec(node, path):
        fwd[node] = path
        for i, ch in enumerate(node.children):
            rec(ch, path + [i])

    rec(tree, [])
    return fwd


def build_tree(nt):
    node = Tree()
    node.name = nt["n"]
    if nt.get("c") is not None:
        node.add_feature("color", nt["c"])
    for k in nt["k"]:
        node.add_child(build_tree(k))
    return node


def label_requests(data=None, trees=None):
    """label_internal of the real code on the trees as ete3 reads them, and get_species_mapping."""
    reqs = []
    if trees is None:
        ot = Tree(data["object_tree"], format=1)
        st = Tree(data["species_tree"], format=1)
    else:
        ot, st = build_tree(trees[0]), build_tree(trees[1])
    before_o, before_s = to_nt(ot), to_nt(st)
    sm = get_species_mapping(ot, st)
    ofwd, sfwd = index(ot), index(st)
    reqs.append(({"op": "c12_species", "ot": before_o, "st": before_s},
                 [[ofwd[a], sfwd[b]] for a, b in sm.items()]))
    inp = ReconciliationInput(object_tree=ot, species_lca=LowestCommonAncestor(st), leaf_object_species={})
    inp.label_internal()
    reqs.append(({"op": "c12_label", "prefix": "O", "tree": before_o},
                 {"names": [n.name for n in ot.traverse("preorder")], "tree": to_nt(ot)}))
    reqs.append(({"op": "c12_label", "prefix": "S", "tree": before_s},
                 {"names": [n.name for n in st.traverse("preorder")], "tree": to_nt(st)}))
    return reqs


def adversarial_label(rng):
    """Tie-only: trees with arbitrary (also duplicate, NoName, unnamed-leaf) names."""
    pool = ["", "", "", "NoName", "O0", "O1", "O2", "O3", "O5", "O10", "S0", "S1", "a", "b", "O", "O01"]

    def nt(shape):
        return {"n": rng.choice(pool), "c": None, "k": [nt(s) for s in shape]}

    t = nt(gen.rand_shape(rng, rng.randint(1, 7)))
    sp = ["a", "A", "a_b", "A_B", "b", "", "a_b_c", "_", "c_"]

    def leafy(shape, names):
        if not shape:
            return {"n": rng.choice(names), "c": None, "k": []}
        return {"n": "", "c": None, "k": [leafy(s, names) for s in shape]}

    st = leafy(gen.rand_shape(rng, rng.randint(1, 4)), sp)
    ot = leafy(gen.rand_shape(rng, rng.randint(1, 5)),
               ["a_1", "A_b_2", "a_b", "a_b_c_d", "b", "_1", "__", "a__1", "B_", "c__2", "x_1", "", "A_B_C_9"])
    return t, st, ot


def tie(ctx, res, reqs):
    outs = ctx.driver.parallel([r for r, _ in reqs])
    for (req, impl), model in zip(reqs, outs):
        if model != impl:
            if req["op"] == "c12_dispatch" and isinstance(model.get("call"), dict) and isinstance(impl.get("call"), dict) \
                    and {**model, "call": {**model["call"], "warn": None}} == {**impl, "call": {**impl["call"], "warn": None}}:
                # only the presence of a warning line differs: not a clause of C12
                k_ = "c12_dispatch: a warning line is printed on one side only (note)"
                NOTES[k_] = NOTES.get(k_, 0) + 1
                continue
            res.tie_broken(f"{req['op']}: model vs implementation", req, model, impl)


# --------------------------------------------------------------------------


def subprocess_checks(res, tmp):
    """Process-level exit status, confirmed on three real invocations."""
    env = dict(os.environ, PYTHONPATH=str(common.REPO / "src"))
    example = json.loads((common.REPO / "data" / "example.in.json").read_text())
    plain = {k: v for k, v in example.items() if k != "leaf_syntenies"}
    runs = [("superdtl", example, 0, 1), ("ext_spfs", plain, 1, 0), ("lca", example, 0, 1)]
    for algo, data, want_status, want_lines in runs:
        inp, outp = os.path.join(tmp, "p.json"), os.path.join(tmp, "p.out")
        with open(inp, "w") as f:
            json.dump(data, f)
        p = subprocess.run([sys.executable, "-m", "superrec2.cli", "reconcile", "--input", inp,
                            "--output", outp, algo], capture_output=True, text=True, env=env, timeout=300)
        with open(outp) as f:
            lines = f.read().splitlines()
        case = {"subprocess": algo, "data": data}
        res.case(case, True)
        res.dist["subprocess"] += 1
        if p.returncode != want_status or len(lines) != want_lines:
            res.violation(f"`python -m superrec2.cli reconcile {algo}` exits with {p.returncode} and writes "
                          f"{len(lines)} lines; expected status {want_status}, {want_lines} lines",
                          case, observed=p.stderr[-500:])


def probe_inf(res):
    f = getattr(cli_reconcile, "eval_cost", None)     # a private helper: may be renamed
    if f is None:
        return
    try:
        f("inf")
    except Exception:  # noqa   NameError today; how it is refused is not part of C12
        res.notes.append("--cost-hgt inf is rejected with NameError (eval in a module that does not import "
                         "inf); float('inf') is the accepted spelling")


def run(ctx, res):
    rng = ctx.rng
    stubtex.install()
    common.quiet_tqdm()
    probe_inf(res)
    reqs = []
    with tempfile.TemporaryDirectory(prefix="c12_") as tmp:
        for _ in range(ctx.budget(80, 800)):
            gi = rand_input(rng)
            cost_args = rand_cost_args(rng)
            reqs += label_requests(gi["data"])
            n_leaves = sum(1 for n in pre(gi["ot"]) if not n["k"])
            for algo in ALGOS:
                if algo == "exh" and n_leaves > 4:
                    continue
                case = {**gi, "algo": algo, "cost_args": cost_args}
                bad, obs = check_case(case, tmp)
                res.case({k: case[k] for k in ("data", "algo", "cost_args")}, nontrivial(case, obs), n=2)
                kind = "syn" if "leaf_syntenies" in gi["data"] else "plain"
                res.dist[f"{algo}/{kind}"] += 1
                if bad:
                    res.violation(bad, case, observed={k: v for k, v in obs.items() if k.endswith("obj") or k.endswith("objs")})
                    continue
                for solutions, o in obs.items():
                    reqs.append(({"op": "c12_dispatch", "algo": algo, "syntenies": kind == "syn",
                                  "solutions": solutions, "results": o["lines"]},
                                 {"call": model_call(algo, kind == "syn", solutions, o),
                                  "status": o["status"], "mincost": o["mincost"], "lines": o["lines"]}))
        # multifurcating inputs through the two algorithms that accept them
        for _ in range(ctx.budget(25, 250)):
            gi = rand_multi_input(rng)
            cost_args = rand_cost_args(rng)
            for algo in ("ext_spfs", "superdtl"):
                case = {**gi, "algo": algo, "cost_args": cost_args}
                bad, obs = check_case(case, tmp, draw_budget=1)
                res.case({k: case[k] for k in ("data", "algo", "cost_args")}, True, n=2)
                res.dist[f"{algo}/multifurcating"] += 1
                if bad:
                    res.violation(bad, case)
        subprocess_checks(res, tmp)
    for _ in range(ctx.budget(400, 5000)):
        t, st, ot = adversarial_label(rng)
        for r in label_requests(trees=(t, st)):
            if r[0]["op"] == "c12_label":
                reqs.append(r)
        reqs.append(label_requests(trees=(ot, st))[0])
        res.evaluations += 1
    res.dist["tie-only/labels+species"] += ctx.budget(400, 5000)
    tie(ctx, res, reqs)
    # CLI glue model (eval_cost grammar, read_input, dump_results, reconcile/draw status logic)
    c12_cli.run_cli(ctx, res)
    # bridge model (Model/SolOutput.lean): embedding of solver solutions into to_dict(), evaluator on dictionaries
    c12_bridge.run_bridge(ctx, res)
    # JSON text layer (Model/Json.lean): render = json.dumps byte for byte, parse = json.loads
    c12_json.run_json(ctx, res)
    for k, v in NOTES.items():
        res.dist[k] += v
    NOTES.clear()


def model_call(algo, has_syn, solutions, o):
    """What the observations say about call_algorithm, in the driver's vocabulary."""
    if o["error"]:
        return {"r": "error"}
    policy = None if algo == "lca" else solutions.upper()
    return {"r": "run", "warn": o["warn"], "policy": policy}


CORPUS = [
    # the README example: unnamed ancestors, every algorithm (F-CLI-LABEL)
    {"object_tree": "((x_1,x_2),y_1);", "species_tree": "(X,Y);",
     "leaf_object_species": {"x_1": "X", "x_2": "X", "y_1": "Y"},
     "leaf_syntenies": {"x_1": ["g1", "g2", "g3"], "x_2": ["g1", "g3", "g4"], "y_1": ["g1", "g2", "g3", "g4"]}},
    # a given name that is the first index the tool would pick, after the unnamed node in pre-order
    {"object_tree": "((x_1,x_2)O1,(y_1,y_2)O0);", "species_tree": "((X,Y),Z)S0;"},
    # pre-order differs from level order: O2 is the deep ancestor, O3 the right child of the root
    {"object_tree": "((a_1,(b_1,c_1)),(a_2,b_2));", "species_tree": "((A,(B,C)),(D,E));",
     "leaf_syntenies": {"a_1": ["g1", "g2"], "b_1": ["g1"], "c_1": ["g2"], "a_2": ["g1", "g2"], "b_2": ["g2"]}},
]


def describe_input(data):
    def nt(node):
        return {"n": node.name, "c": getattr(node, "color", None), "k": [nt(c) for c in node.children]}

    ot, st = Tree(data["object_tree"], format=1), Tree(data["species_tree"], format=1)
    leaf_species = data.get("leaf_object_species")
    if leaf_species is None:
        leaf_species = {a.name: b.name for a, b in get_species_mapping(ot, st).items()}
    return {"data": data, "ot": nt(ot), "st": nt(st), "leaf_species": dict(leaf_species)}


def corpus(ctx, res):
    stubtex.install()
    common.quiet_tqdm()
    with tempfile.TemporaryDirectory(prefix="c12_") as tmp:
        for data in CORPUS:
            for drop in (False, True):
                d = {k: v for k, v in data.items() if not (drop and k == "leaf_syntenies")}
                gi = describe_input(d)
                for algo in ALGOS:
                    case = {**gi, "algo": algo, "cost_args": []}
                    bad, obs = check_case(case, tmp)
                    res.case({k: case[k] for k in ("data", "algo", "cost_args")}, True, n=2)
                    res.dist["corpus"] += 1
                    if bad:
                        res.violation(bad, case)


def replay(ctx, data):
    case = data["input"]
    stubtex.install()
    common.quiet_tqdm()
    if "bridge" in case:
        return c12_bridge.replay_bridge(ctx, data)
    if "json" in case:
        return c12_json.replay_json(ctx, data)
    if "subprocess" in case:
        res = common.Result()
        with tempfile.TemporaryDirectory(prefix="c12_") as tmp:
            subprocess_checks(res, tmp)
        return (not res.concrete, "subprocess checks: " + ("ok" if not res.concrete else res.concrete[0]["what"]))
    with tempfile.TemporaryDirectory(prefix="c12_") as tmp:
        bad, obs = check_case(case, tmp)
    return (bad is None, f"{case['algo']} {case['cost_args']}: {'ok' if bad is None else bad}")
