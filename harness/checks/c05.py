"""C05 — ALL returns exactly the optimal solutions, ANY returns one of them."""
from .. import solvers
from ._solver_check import make

ID = "C05"
RULE = (
    "same input and cost space as C01-C03 (ties over-sampled: zero costs, boundary of the coherent region); thl, exh, "
    "base_spfs, ext_spfs, base_uspfs, superdtl under 'all' and 'any'; the complete optimal set is produced by the "
    "Lean specification (for the unordered solvers filtered to canonical labellings, as the property states).  "
    "Checked: 'all' = optimal set exactly, no duplicate; 'any' = exactly one member; equal costs; empty only if no "
    "valid solution.  Non-trivial = at least 3 object leaves and 2 species; the number of inputs with >= 2 optimal "
    "solutions is reported in the distribution."
)
TRUSTED = ["models: lean/SRVerif/Model/{Rec,LabelDP,Solvers}.lean; specification: lean/SRVerif/Spec/Opt.lean"]
ASSUMPTIONS = ["coherent cost vectors"]
OPEN = []  # `any` end to end: thl/spfs/uspfs (C05Any*), code models (C05AnyCode*), exh (C05AnyExh), multifurcation loop (C05AnyMulti)

CORPUS = [
    # fixed: F-THL-LOSSDIST (co-optimal solution dropped)
    {"S": [[[], []], [[], []]], "O": [[[{"s": "10"}, {"s": "01"}], [{"s": "01"}, {"s": "00"}]], {"s": "11"}],
     "costs": {"spe": 0, "dup": 1, "hgt": 3, "floss": 1}},
    {"S": [[], []], "O": [{"s": "0", "f": [0, 1]}, {"s": "1", "f": [1, 0]}]},
]


def _judge(res, r):
    solvers.judge_policies(res, r)
    if "sols" in r.impl_all and len(r.impl_all["sols"]) >= 2:
        res.dist["ties>=2"] += 1


corpus, run, shrink, replay = make(
    ID, ["thl", "exh", "ext_spfs", "base_spfs", "superdtl", "base_uspfs"],
    [(lambda ctx, rng: solvers.plain_case(ctx, rng, 5, 5), 0.4),
     (lambda ctx, rng: solvers.ordered_case(ctx, rng, 4, 4, 3), 0.25),
     (lambda ctx, rng: solvers.unordered_case(ctx, rng, 5, 4, 4), 0.35)],
    _judge, quick=800, thorough=6000, corpus_cases=CORPUS, known_algos=["thl", "ext_spfs", "superdtl"],
)
