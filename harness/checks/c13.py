"""C13 — a diagram shows exactly the events the cost model counts.

Also holds the helpers shared with C14 (case generation, stub measurer, canonical form of a
computed layout)."""
import collections
import hashlib
import importlib
import itertools
import os
import re
from collections import Counter
from fractions import Fraction

from ete3 import TreeNode

from harness import common, gen, sr, stubtex

ID = "C13"
RULE = (
    "species shapes x object shapes x leaf assignments x ALL valid species mappings (enumerated here, "
    "independently of the package and of the Lean model: every internal node tried in every species, kept "
    "when no event is invalid).  4/4 exhaustive in the thorough tier, 5/5 sampled: the quick tier is "
    "bounded-exhaustive up to 3 object leaves / 3 species leaves (every reconciliation in one orientation, "
    "15% of them in the other one as well); the thorough tier and the deep search enumerate EVERY binary "
    "input with <= 4 object leaves x <= 4 species leaves (8,193 inputs) and EVERY valid reconciliation of "
    "each (263,903), each drawn in BOTH orientations (one seeded size function per drawing, synteny labels "
    "on a quarter of the drawings), spread over a pool of worker processes (each runs the real "
    "layout.compute / tikz.render, the direct evaluation of the property and its own Lean driver); the "
    "rest of the 5/5 scope of the property text is SAMPLED, not enumerated (random inputs with 2-5 species "
    "/ 3-5 object leaves, a few of ALL their valid mappings, both orientations), plus random inputs up to "
    "10 object leaves / 6 species; with and without synteny labels, VERTICAL and HORIZONTAL, node sizes "
    "from a stub TeX measurer (dyadic, 1..100, chosen per branch index).  Non-trivial: the reconciliation "
    "has at least one full loss or one transfer.  PLACEMENT (every case of both tiers, on the text tikz.render "
    "returns): the coordinates of every event node, loss marker and transfer arrow are read back from the TikZ "
    "statements and located in the REAL layout (species boxes and trunks as layout.compute returned them; neither "
    "the Lean model nor the drawing code's formulas): the OWN AREA of a species is the column of its trunk from the "
    "start of its box to before the first box of a child; the multiset of (own area, kind) of the event nodes "
    "must be the multiset of (mapped species, evaluator's kind) of the object nodes (an extant gene is located by "
    "the leading edge of its disc); every loss marker must lie in the own area of the species where the loss "
    "occurs, strictly nearer across the tree to the trunk of the child species that LOST the copy than to the "
    "trunk of the child that kept it, the multiset of (species, lost child) being the one derived from the paths "
    "of the reconciliation; the transfer arrows must pair one-to-one with the transfers, the arrow of v leaving "
    "the box of v's node and ending at the anchor of v's transferred child inside that child's own area.  A "
    "statement whose coordinates cannot be read is a note in the evidence, never an alarm."
)
TRUSTED = [
    "model: lean/SRVerif/Model/Layout.lean (computeBranches = _compute_branches/_add_losses, "
    "drawBranch = statement kinds of _tikz_draw_branches)",
    "pseudo-genes are matched structurally by (lost lineage, species), not by object identity",
    "harness/stubtex.py replaces superrec2.utils.tex.measure (no TeX engine in the sandbox)",
    "placement clause: the species boxes / trunks of the layout returned by layout.compute are taken as the "
    "regions of the picture (that they nest and do not overlap is C14); positions are compared with a tolerance "
    "of 1e-3 (the text carries 4 decimals)",
]
ASSUMPTIONS = [
    "species tree and object tree are binary; every species of the reconciliation is a node of the species tree",
    "names, colours and synteny labels only influence the text of a node (hence its measured size), "
    "not the branch structure; they are not modelled",
    "the evaluator's loss count is its own formula (localRecCost: speciation d1+d2-2, duplication d1+d2, "
    "transfer d_conserved), tied to recCost by SR.C13.C13_losses_cost / evalLossCount_eq_nFloss / C13_losses_species",
]
OPEN = [
    "TikZ text beyond statement kinds (fork statements, tex.measure ordering, names/colours/labels) is not in the C13 "
    "model (C15 covers the text); it is compared by the tie only",
]

KINDS = {
    "LEAF": "LEAF",
    "SPECIATION": "SPECIATION",
    "DUPLICATION": "DUPLICATION",
    "HORIZONTAL_TRANSFER": "HORIZONTAL_TRANSFER",
    "FULL_LOSS": "FULL_LOSS",
}

# --------------------------------------------------------------------------
# paths (independent restatement of the event model)


def anc(a, b):
    return b.startswith(a)


def strict_anc(a, b):
    return a != b and b.startswith(a)


def lcp(a, b):
    n = 0
    while n < len(a) and n < len(b) and a[n] == b[n]:
        n += 1
    return a[:n]


def event(s, a, b):
    if strict_anc(a, s) or strict_anc(b, s):
        return "INVALID"
    if anc(s, a) and anc(s, b):
        if s == lcp(a, b) and not (anc(a, b) or anc(b, a)):
            return "SPECIATION"
        return "DUPLICATION"
    if anc(s, a) or anc(s, b):
        return "HORIZONTAL_TRANSFER"
    return "INVALID"


def all_valid(S, O):
    """Every valid reconciliation of O in S as canonical solutions (independent enumerator)."""
    species = gen.all_paths(S)

    def rec(o):
        if isinstance(o, dict):
            return [{"s": o["s"]}]
        ls, rs = rec(o[0]), rec(o[1])
        out = []
        for l in ls:
            for r in rs:
                for s in species:
                    if event(s, l["s"], r["s"]) != "INVALID":
                        out.append({"s": s, "c": [l, r]})
        return out

    return rec(O)


def random_valid(rng, S, O, p_hgt=0.3):
    """One random valid reconciliation (not uniform; every valid one has positive probability)."""
    species = gen.all_paths(S)

    def rec(o):
        if isinstance(o, dict):
            return {"s": o["s"]}
        l, r = rec(o[0]), rec(o[1])
        cands = [s for s in species if event(s, l["s"], r["s"]) != "INVALID"]
        vert = [s for s in cands if event(s, l["s"], r["s"]) != "HORIZONTAL_TRANSFER"]
        pool = cands if (rng.random() < p_hgt or not vert) else vert
        return {"s": rng.choice(pool), "c": [l, r]}

    return rec(O)


def sol_nodes(sol, path=""):
    """(object path, node) in pre-order."""
    yield path, sol
    for i, c in enumerate(sol.get("c", [])):
        yield from sol_nodes(c, path + str(i))


def expected_events(sol):
    """{object path: (species, event)} and the multiset of losses (species, lineage)."""
    ev, losses, transfers = {}, [], {}
    for p, n in sol_nodes(sol):
        if "c" not in n:
            ev[p] = (n["s"], "LEAF")
            continue
        s, (l, r) = n["s"], n["c"]
        e = event(s, l["s"], r["s"])
        ev[p] = (s, e)
        kids = [(p + "0", l["s"]), (p + "1", r["s"])]
        if e == "SPECIATION":
            for g, cs in kids:  # species strictly between the child's and the node's
                for k in range(len(s) + 1, len(cs)):
                    losses.append((cs[:k], g))
        elif e == "DUPLICATION":
            for g, cs in kids:  # from the child's parent species up to the node's own
                for k in range(len(s), len(cs)):
                    losses.append((cs[:k], g))
        elif e == "HORIZONTAL_TRANSFER":
            keep = 0 if anc(s, l["s"]) else 1
            g, cs = kids[keep]
            for k in range(len(s), len(cs)):
                losses.append((cs[:k], g))
            transfers[p] = kids[1 - keep][0]
    return ev, sorted(losses), transfers


# --------------------------------------------------------------------------
# stub measurer


def dims(seed, i):
    """(width, height, depth) of the i-th measured box: dyadic, overall size within 1..100.
    The seed also selects the distribution: seed % 4 == 3 gives bimodal sizes (most boxes tiny, some
    huge), which is what makes trunks much wider than the subtrees below them."""
    h = int(hashlib.sha1(f"{seed}:{i}".encode()).hexdigest(), 16)
    mode = (h >> 60) % 8
    if seed % 4 == 3:
        w = Fraction(100) if (h % 100) < 30 else Fraction(1 + h % 3)
        ht = Fraction(100) if ((h >> 16) % 100) < 25 else Fraction(1 + (h >> 16) % 3)
        return w, ht, Fraction(0)
    if mode == 0:  # extreme aspect ratios
        w, ht, dp = Fraction(400, 4), Fraction(4, 4), Fraction(0)
    elif mode == 1:
        w, ht, dp = Fraction(4, 4), Fraction(200, 4), Fraction(200, 4)
    else:
        w = Fraction(4 + h % 397, 4)
        ht = Fraction(4 + (h >> 16) % 197, 4)
        dp = Fraction((h >> 32) % 200, 4)
    return w, ht, dp


def case_dims(case, i, keys=None):
    """Dimensions of the i-th box of a case: explicit `sizes` ({key: [w, h]}, others 1x1) or seeded."""
    if "sizes" in case:
        w, h = case["sizes"].get(keys[i], ["1", "1"])
        return Fraction(w), Fraction(h), Fraction(0)
    return dims(case["seed"], i)


def key_order(case):
    """Branch keys in measurement order (a dry run with unit sizes: the structure is size-independent)."""
    from superrec2.render import layout as rlayout

    base, sol = with_labels(case)
    out = sr.build_output(base, sol, present="auto")
    stubtex.install(lambda i, t: (1.0, 1.0, 0.0))
    lay = rlayout.compute(out, draw_params(case["orient"]))
    return [b["key"] for s in canon_layout(out, lay) for b in s["branches"]]


def measurer(case, swap=False, record=None):
    keys = key_order(case) if "sizes" in case else None

    def fn(i, text):
        w, ht, dp = case_dims(case, i, keys)
        if record is not None:
            record.append(text)
        if swap:
            return (float(ht + dp), float(w), 0.0)
        return (float(w), float(ht), float(dp))

    return fn


DEFAULT_PARAMS = {"pad": "4", "gsp": "5", "overhead": "10", "minsp": "12", "level": "4"}
PARAM_FIELDS = {
    "pad": "species_branch_padding",
    "gsp": "gene_branch_spacing",
    "overhead": "trunk_overhead",
    "minsp": "min_subtree_spacing",
    "level": "level_spacing",
}


def draw_params(orient, params=None, extra=None):
    from superrec2.render.model import DrawParams, Orientation

    kw = {PARAM_FIELDS[k]: float(Fraction(v)) for k, v in (params or DEFAULT_PARAMS).items()}
    kw.update(extra or {})
    return DrawParams(
        orientation=Orientation.VERTICAL if orient == "V" else Orientation.HORIZONTAL, **kw
    )


# --------------------------------------------------------------------------
# real code


def with_labels(case):
    """(case, sol) as given to build_output: synteny labels on every node when case['syn']."""
    return {"S": case["S"], "O": case["O"]}, case["sol"]


def run_real(case, swap=False, params=None, extra=None, render=True):
    """layout.compute (+ tikz.render) of the real package on a fresh output.
    Returns (out, layout, tikz text or None, measured texts)."""
    from superrec2.render import layout as rlayout
    from superrec2.render import tikz as rtikz

    base, sol = with_labels(case)
    out = sr.build_output(base, sol, present="auto")  # names of ancestors / family objects vary (sr.presentation)
    texts = []
    stubtex.install(measurer(case, swap=swap, record=texts))
    dp = draw_params(case["orient"], params, extra)
    lay = rlayout.compute(out, dp)
    text = rtikz.render(out, lay, dp) if render else None
    return out, lay, text, texts


def frac(x):
    return Fraction(x)


def fstr(x):
    f = Fraction(x)
    return f"{f.numerator}/{f.denominator}"


def canon_layout(out, lay):
    """Canonical form of a computed Layout: species in POST-order (the order of creation and of
    measurement), branches in dict order; pseudo-genes named by (lineage, species)."""
    sfwd, _ = sr.index_tree(out.input.species_lca.tree)
    ofwd, _ = sr.index_tree(out.input.object_tree)
    pseudo = {}
    for sp, sl in lay.items():
        for k, b in sl.branches.items():
            if not isinstance(k, TreeNode):
                pseudo[k] = (sfwd[sp], b)

    def lineage(k):
        while not isinstance(k, TreeNode):
            b = pseudo[k][1]
            k = b.left if b.left is not None else b.right
        return ofwd[k]

    def key(k):
        if k is None:
            return None
        if isinstance(k, TreeNode):
            return "g:" + ofwd[k]
        return f"l:{lineage(k)}:{pseudo[k][0]}"

    def pos(p):
        return [fstr(p.x), fstr(p.y)]

    def rect(r):
        return [fstr(r.x), fstr(r.y), fstr(r.w), fstr(r.h)]

    res = []
    for sp in out.input.species_lca.tree.traverse("postorder"):
        sl = lay[sp]
        res.append({
            "sp": sfwd[sp],
            "rect": rect(sl.rect),
            "trunk": rect(sl.trunk),
            "fork": fstr(sl.fork_thickness),
            "anchors": sorted([key(k), pos(p)] for k, p in sl.anchors.items()),
            "branches": [
                {"key": key(k), "kind": b.kind.name, "left": key(b.left), "right": key(b.right),
                 "rect": rect(b.rect), "anchor_parent": pos(b.anchor_parent),
                 "anchor_left": pos(b.anchor_left), "anchor_right": pos(b.anchor_right),
                 "anchor_child": pos(b.anchor_child)}
                for k, b in sl.branches.items()
            ],
        })
    return res


def structure(canon):
    return [
        {"sp": s["sp"],
         "branches": [{k: b[k] for k in ("key", "kind", "left", "right")} for b in s["branches"]],
         "anchors": sorted(a[0] for a in s["anchors"])}
        for s in canon
    ]


def size_table(case, canon, swap=False):
    """{key: [w, h]} — the i-th measured box is the i-th branch in creation order."""
    keys = [b["key"] for s in canon for b in s["branches"]]
    tbl = {}
    for i, k in enumerate(keys):
        w, ht, dp = case_dims(case, i, keys)
        w, h = (ht + dp, w) if swap else (w, ht + dp)
        tbl[k] = [fstr(w), fstr(h)]
    return tbl


# --------------------------------------------------------------------------
# TikZ statement kinds

TOKENS = {
    "LEAF": r"\node[extant gene=",
    "SPECIATION": r"\node[speciation=",
    "DUPLICATION": r"\node[duplication=",
    "HORIZONTAL_TRANSFER": r"\node[horizontal gene transfer=",
    "FULL_LOSS": r"\node[loss=",
    "transfer": r"\path[transfer branch=",
    "path": r"\path[branch=",
}


def tikz_counts(text):
    body = text[text.index(r"\begin{tikzpicture}"):]
    return {k: body.count(tok) for k, tok in TOKENS.items()}


def transfer_targets(text):
    """End points of the transfer arrows as written in the TikZ code."""
    return sorted(re.findall(r"\\path\[transfer branch=[^\]]*\]\s*\([^)]*\)\s*to\[[^\]]*\]\s*\(\s*([^)]*?)\s*\)", text))


def point_value(s):
    """`x,y` as written in the TikZ code -> the point it denotes at MAX_DIGITS places (the spelling of a number --
    `184.75`, `184.7500`, `184` -- is not part of the property)."""
    try:
        return repr(tuple(round(float(v), 4) + 0.0 for v in s.split(",")))
    except ValueError:
        return s


# --------------------------------------------------------------------------
# WHERE the drawing puts its marks (read from the TikZ text, judged against the real layout)

PLACE_TOL = 1e-3  # coordinates are written with 4 decimals; every margin of a correct drawing is >= 1/4
_NUM = r"[-+]?(?:\d+\.?\d*|\.\d+)(?:[eE][-+]?\d+)?"
_POINT_RE = re.compile(r"\s*\(\s*(%s)\s*,\s*(%s)\s*\)" % (_NUM, _NUM))
_AT_RE = re.compile(r"\s*at\s*\(\s*(%s)\s*,\s*(%s)\s*\)" % (_NUM, _NUM))
_TO_RE = re.compile(r"\s*to\s*(?=\[)")
MARK_KINDS = ("LEAF", "SPECIATION", "DUPLICATION", "HORIZONTAL_TRANSFER", "FULL_LOSS")


def _close_bracket(text, i):
    """Index just after the `]` matching the `[` at text[i]: nested brackets are counted, brackets inside
    braces (labels) are not, `\\x` is one token.  None when there is no such bracket."""
    depth = sq = 0
    n = len(text)
    while i < n:
        c = text[i]
        if c == "\\":
            i += 2
            continue
        if c == "{":
            depth += 1
        elif c == "}":
            depth -= 1
        elif depth == 0 and c == "[":
            sq += 1
        elif depth == 0 and c == "]":
            sq -= 1
            if sq == 0:
                return i + 1
        i += 1
    return None


def tikz_marks(text):
    """The positions the drawing gives to its marks: ({kind: [(x, y), ...]}, [((x1, y1), (x2, y2)), ...] for the
    transfer arrows), or a string saying which statement could not be read (the spelling of a statement is not
    part of the property: an unreadable one is a note, never an alarm)."""
    body = text[text.index(r"\begin{tikzpicture}"):]
    marks = {}
    for kind in MARK_KINDS:
        tok, pts, at = TOKENS[kind], [], 0
        while True:
            at = body.find(tok, at)
            if at < 0:
                break
            end = _close_bracket(body, at + len(r"\node"))
            m = _AT_RE.match(body, end) if end is not None else None
            if m is None:
                return f"no `at (x,y)` readable after {body[at:at + 60]!r}"
            pts.append((float(m.group(1)), float(m.group(2))))
            at = m.end()
        marks[kind] = pts
    arrows, at = [], 0
    tok = TOKENS["transfer"]
    while True:
        at = body.find(tok, at)
        if at < 0:
            break
        end = _close_bracket(body, at + len(r"\path"))
        m1 = _POINT_RE.match(body, end) if end is not None else None
        m2 = _TO_RE.match(body, m1.end()) if m1 else None
        end2 = _close_bracket(body, m2.end()) if m2 else None
        m3 = _POINT_RE.match(body, end2) if end2 is not None else None
        if m3 is None:
            return f"no `(x,y) to[..] (x,y)` readable after {body[at:at + 60]!r}"
        arrows.append(((float(m1.group(1)), float(m1.group(2))), (float(m3.group(1)), float(m3.group(2)))))
        at = m3.end()
    return marks, arrows


def expected_lost_children(sol):
    """Multiset of (species s, child species of s in which the copy is lost), from the paths alone: a copy that
    goes from species s down to the species cs of a child passes through s's child on the way to cs and is lost
    in the OTHER child of s."""
    out = []
    ev, _, _ = expected_events(sol)
    for p, n in sol_nodes(sol):
        if "c" not in n:
            continue
        s, e = ev[p]
        kids = [c["s"] for c in n["c"]]
        if e == "SPECIATION":
            spans = [(len(s) + 1, cs) for cs in kids]
        elif e == "DUPLICATION":
            spans = [(len(s), cs) for cs in kids]
        else:
            spans = [(len(s), cs) for cs in kids if anc(s, cs)][:1]
        for lo, cs in spans:
            for k in range(lo, len(cs)):
                out.append((cs[:k], cs[:k] + ("1" if cs[k] == "0" else "0")))
    return sorted(out)


class Regions:
    """The parts of the picture that belong to each species, read off the REAL layout (rectangles and trunks as
    layout.compute returned them), in (sequence, across) coordinates: VERTICAL grows along y, HORIZONTAL along x.
    A species' box holds its trunk at the start, then its fork, then (after the level spacing) the boxes of
    its two children side by side.  The OWN area of species s is the column of its trunk (across) from the
    start of its box up to, excluded, the start of the first child box (sequence); for an extant species, the
    whole column of the trunk.  Own areas of different species are disjoint."""

    def __init__(self, lay, sfwd, orient):
        self.vert = orient == "V"
        self.sp = {}
        for node, sl in lay.items():
            self.sp[sfwd[node]] = {"rect": self.ranges(sl.rect), "trunk": self.ranges(sl.trunk), "box": sl.rect}

    def ranges(self, r):
        xs, ys = (r.x, r.x + r.w), (r.y, r.y + r.h)
        return {"seq": ys if self.vert else xs, "acr": xs if self.vert else ys}

    def sa(self, p):
        """(sequence, across) of a point of the picture."""
        return (p[1], p[0]) if self.vert else (p[0], p[1])

    def children(self, s):
        return [c for c in (s + "0", s + "1") if c in self.sp]

    def own(self, s, p, lead=0.0):
        """Does the point p (moved back by `lead` along the sequence axis) lie in the own area of s?"""
        seq, acr = self.sa(p)
        seq -= lead
        r, t = self.sp[s]["rect"], self.sp[s]["trunk"]
        if not t["acr"][0] - PLACE_TOL <= acr <= t["acr"][1] + PLACE_TOL:
            return False
        if seq < r["seq"][0] - PLACE_TOL:
            return False
        kids = self.children(s)
        if kids:
            return seq < min(self.sp[c]["rect"]["seq"][0] for c in kids) - PLACE_TOL
        return seq <= r["seq"][1] + PLACE_TOL

    def species_of(self, p, lead=0.0):
        return [s for s in self.sp if self.own(s, p, lead)]

    def across_dist(self, p, s):
        """Distance, across the tree, from p to the trunk of s."""
        a = self.sa(p)[1]
        lo, hi = self.sp[s]["trunk"]["acr"]
        return max(lo - a, a - hi, 0.0)

    def in_rect(self, p, rect):
        x, y, w, h = rect.x, rect.y, rect.w, rect.h
        return x - PLACE_TOL <= p[0] <= x + w + PLACE_TOL and y - PLACE_TOL <= p[1] <= y + h + PLACE_TOL


def _matching(adj, n_right):
    """Size of a maximum matching of the bipartite graph adj: left index -> right indices."""
    owner = [None] * n_right

    def aug(i, seen):
        for j in adj[i]:
            if j not in seen:
                seen.add(j)
                if owner[j] is None or aug(owner[j], seen):
                    owner[j] = i
                    return True
        return False

    return sum(1 for i in range(len(adj)) if aug(i, set()))


def placement_check(case, out, lay, text, exp_ev, exp_transfers, leaf_lead, info=None):
    """The geometric clause: every mark of the drawing lies in the species it belongs to.  Returns a description
    of the first mark found in a wrong place, or None."""
    got = tikz_marks(text)
    if isinstance(got, str):
        if info is not None:
            info.setdefault("notes", []).append("placement clause not evaluated on some drawings: " + got)
        return None
    marks, arrows = got
    sfwd, sback = sr.index_tree(out.input.species_lca.tree)
    _, oback = sr.index_tree(out.input.object_tree)
    reg = Regions(lay, sfwd, case["orient"])

    def show(p):
        return "(%g,%g)" % p

    # event nodes: a multiset of (species, kind) read off the picture against the reconciliation's
    seen, where = Counter(), {}
    for kind in ("LEAF", "SPECIATION", "DUPLICATION", "HORIZONTAL_TRANSFER"):
        for p in marks[kind]:
            lead = leaf_lead if kind == "LEAF" else 0.0
            sps = reg.species_of(p, lead)
            if not sps:
                near = [s for s in reg.sp if reg.in_rect(p, reg.sp[s]["box"])]
                inner = max(near, key=len) if near else None
                return (f"the drawing puts a {kind} node at {show(p)}, which is in the own area (trunk column, before "
                        f"the child boxes) of no species" + (f": it lies in the box of species '{inner}' but outside "
                        f"its trunk column / inside a child box" if inner is not None else ": it lies outside every box"))
            if len(sps) > 1:  # overlapping species boxes are C14's business
                if info is not None:
                    info.setdefault("notes", []).append("placement clause: own areas of species overlap in some layout")
                return None
            seen[(sps[0], kind)] += 1
            where.setdefault((sps[0], kind), p)
    want = Counter((s, e) for s, e in exp_ev.values())
    if seen != want:
        extra = sorted((seen - want).items())
        missing = sorted((want - seen).items())
        at = f" (one of them at {show(where[extra[0][0]])})" if extra else ""
        return (f"event nodes of the DRAWING by the species area they are placed in: too many {extra}{at}, "
                f"too few {missing}, against the mapping and the evaluator's kinds")
    # loss markers: in the own area of the species where the loss occurs, on the side of the child that lost the copy
    seen, where = Counter(), {}
    for p in marks["FULL_LOSS"]:
        sps = reg.species_of(p)
        if not sps:
            return (f"the drawing puts a loss marker at {show(p)}, which is in the own area (trunk column, before the "
                    f"child boxes) of no species")
        if len(sps) > 1:
            if info is not None:
                info.setdefault("notes", []).append("placement clause: own areas of species overlap in some layout")
            return None
        s = sps[0]
        kids = reg.children(s)
        if len(kids) != 2:
            return f"the drawing puts a loss marker at {show(p)}, inside the extant species '{s}' (no child can lose a copy there)"
        d0, d1 = reg.across_dist(p, kids[0]), reg.across_dist(p, kids[1])
        if abs(d0 - d1) <= PLACE_TOL:
            return (f"the loss marker at {show(p)} in species '{s}' is as far from the trunk of '{kids[0]}' as from "
                    f"the trunk of '{kids[1]}': it shows no child as the one that lost the copy")
        side = kids[0] if d0 < d1 else kids[1]
        seen[(s, side)] += 1
        where.setdefault((s, side), (p, d0, d1))
    want = Counter(expected_lost_children(case["sol"]))
    if seen != want:
        extra = sorted((seen - want).items())
        missing = sorted((want - seen).items())
        at = ""
        if extra:
            p, d0, d1 = where[extra[0][0]]
            s = extra[0][0][0]
            at = (f" (one of them at {show(p)}: {d0:g} across from the trunk of '{s}0', {d1:g} from the trunk of "
                  f"'{s}1')")
        return (f"loss markers of the DRAWING by (species area, nearer child trunk): too many {extra}{at}, too few "
                f"{missing}, against the losses (species, child that lost the copy) of the reconciliation")
    # transfer arrows: from the transfer node of v (its box in the layout) to the anchor of v's transferred child,
    # which lies in the own area of that child's species
    trans = []
    for p, (s, e) in sorted(exp_ev.items()):
        if e != "HORIZONTAL_TRANSFER":
            continue
        cp = exp_transfers[p]
        cs = exp_ev[cp][0]
        b = lay[sback[s]].branches[oback[p]]
        anchor = lay[sback[cs]].anchors.get(oback[cp])
        if anchor is None:
            return f"transferred child {cp} has no anchor in its species"
        trans.append((p, s, cp, cs, b.rect, (anchor.x, anchor.y)))
    for a, z in arrows:
        if not any(reg.own(cs, z) for _, _, _, cs, _, _ in trans):
            return (f"the transfer arrow {show(a)} -> {show(z)} ends in the own area of none of the species "
                    f"{sorted({t[3] for t in trans})} of the transferred children")
    adj = [[j for j, (a, z) in enumerate(arrows)
            if reg.in_rect(a, rect) and abs(z[0] - anc_[0]) <= PLACE_TOL and abs(z[1] - anc_[1]) <= PLACE_TOL
            and reg.own(cs, z)]
           for (_, _, _, cs, rect, anc_) in trans]
    if len(arrows) != len(trans) or _matching(adj, len(arrows)) != len(trans):
        lonely = next((t for t, js in zip(trans, adj) if not js), trans[0] if trans else None)
        return (f"transfer arrows {[(show(a), show(z)) for a, z in arrows]}: no one-to-one assignment to the transfers "
                f"such that the arrow of v leaves v's node and ends at the anchor of v's transferred child, in that "
                f"child's species" + (f" (e.g. transfer {lonely[0]!r} in species '{lonely[1]}': child {lonely[2]!r} is "
                f"anchored at {show(lonely[5])} in species '{lonely[3]}')" if lonely else ""))
    if info is not None:
        info["marks"] = info.get("marks", 0) + sum(len(v) for v in marks.values()) + len(arrows)
    return None


# --------------------------------------------------------------------------
# the property, evaluated directly


def spec_check(case, out, lay, text, info=None, dp=None):
    from superrec2.model.reconciliation import NodeEvent

    sol = case["sol"]
    sfwd, sback = sr.index_tree(out.input.species_lca.tree)
    ofwd, oback = sr.index_tree(out.input.object_tree)
    exp_ev, exp_losses, exp_transfers = expected_events(sol)
    canon = canon_layout(out, lay)
    # one event node per object node, in its species, of the evaluator's kind
    seen = Counter()
    for s in canon:
        for b in s["branches"]:
            if b["kind"] == "FULL_LOSS":
                continue
            if not b["key"].startswith("g:"):
                return f"event branch {b['key']} is not an object node"
            p = b["key"][2:]
            seen[p] += 1
            node = oback[p]
            if s["sp"] != sfwd[out.object_species[node]]:
                return f"node {p} drawn in species {s['sp']}, mapped to {sfwd[out.object_species[node]]}"
            want = out.node_event(node).name
            if b["kind"] != want:
                return f"node {p} drawn as {b['kind']}, evaluator says {want}"
            if want != exp_ev[p][1]:
                return f"evaluator event {want} at {p} differs from the event model {exp_ev[p][1]}"
    for p in exp_ev:
        if seen[p] != 1:
            return f"object node {p} has {seen[p]} event branches"
    # losses: as many as the evaluator counts, in the species where they occur
    got_losses = sorted(
        (s["sp"], b["key"].split(":")[1]) for s in canon for b in s["branches"] if b["kind"] == "FULL_LOSS"
    )
    if got_losses != exp_losses:
        return f"loss markers (species, lineage) {got_losses} differ from the losses on the paths {exp_losses}"
    plain = sr.build_output(
        {"S": case["S"], "O": strip_f(case["O"]),
         "costs": {"spe": 0, "dup": 0, "hgt": 0, "floss": 1, "sloss": 0}},
        strip_f(sol), force_plain=True)
    nloss = plain.cost()
    if nloss != len(got_losses):
        return f"{len(got_losses)} loss markers, the evaluator counts {nloss} full losses"
    # transfers: right = transferred child, whose anchor exists in its own species
    by_sp = {s["sp"]: s for s in canon}
    targets = []
    for p, (s, e) in exp_ev.items():
        if e != "HORIZONTAL_TRANSFER":
            continue
        b = next(b for b in by_sp[s]["branches"] if b["key"] == "g:" + p)
        if b["right"] != "g:" + exp_transfers[p]:
            return f"transfer at {p} points to {b['right']}, transferred child is {exp_transfers[p]}"
        child = oback[exp_transfers[p]]
        fl = lay[out.object_species[child]]
        if child not in fl.anchors:
            return f"transferred child {exp_transfers[p]} has no anchor in its species"
        targets.append(format(fl.anchors[child], "4"))
    # the drawing
    if text is not None:
        cnt = tikz_counts(text)
        kinds = Counter(e for _, e in exp_ev.values())
        want = {k: kinds.get(k, 0) for k in ("LEAF", "SPECIATION", "DUPLICATION", "HORIZONTAL_TRANSFER")}
        want["FULL_LOSS"] = len(exp_losses)
        want["transfer"] = kinds.get("HORIZONTAL_TRANSFER", 0)
        got = {k: cnt[k] for k in want}
        if got != want:
            return f"TikZ statements {got} differ from the events {want}"
        if sorted(map(point_value, transfer_targets(text))) != sorted(map(point_value, targets)):
            return f"transfer arrows end at {transfer_targets(text)}, children anchors are {sorted(targets)}"
        if dp is None:
            dp = draw_params(case["orient"], case.get("params"))
        return placement_check(case, out, lay, text, exp_ev, exp_transfers, dp.extant_gene_diameter / 2, info)
    return None


def strip_f(x):
    if isinstance(x, list):
        return [strip_f(c) for c in x]
    d = {k: v for k, v in x.items() if k != "f"}
    if "c" in d:
        d["c"] = [strip_f(c) for c in d["c"]]
    return d


# --------------------------------------------------------------------------
# generators


def add_syntenies(rng, O, sol):
    """Label every node: leaves with random syntenies, internal nodes with a random sub-list of the
    families below (labels need not be a valid labelling: the layout only prints them)."""
    nfam = rng.randint(1, 5)
    oleaves = list(sr.o_leaves(O))
    syn = gen.rand_syntenies(rng, len(oleaves), nfam)
    O2 = gen.fill_object(shape_of(O), iter([{"s": l["s"], "f": f} for (_, l), f in zip(oleaves, syn)]))
    it = iter(syn)

    def rec(s):
        if "c" not in s:
            return {"s": s["s"], "f": next(it)}
        kids = [rec(c) for c in s["c"]]
        mode = rng.random()
        if mode < 0.4:
            f = kids[0]["f"]  # equal to a child, and often to the parent: exercises `equal_to_parent`
        elif mode < 0.7:
            f = list(range(nfam))
        else:
            f = sorted(set(kids[0]["f"]) | set(kids[1]["f"]))
        return {"s": s["s"], "f": list(f), "c": kids}

    return O2, rec(sol)


def shape_of(O):
    return [] if isinstance(O, dict) else [shape_of(c) for c in O]


def make_case(rng, S, O, sol, orient, syn):
    if syn:
        O, sol = add_syntenies(rng, O, sol)
    return {"S": S, "O": O, "sol": sol, "orient": orient, "syn": syn, "seed": rng.randrange(1 << 30)}


def small_inputs(max_o, max_s):
    for ns in range(1, max_s + 1):
        for S in gen.shapes(ns):
            lv = gen.leaf_paths(S)
            for no in range(1, max_o + 1):
                for osh in gen.shapes(no):
                    for sps in itertools.product(lv, repeat=no):
                        yield S, gen.fill_object(osh, iter([{"s": s} for s in sps]))


EXHAUSTIVE_SCOPE = (4, 4)  # object leaves, species leaves: thorough tier and deep search (C13 and C14)
SCOPE_NAME = "exhaustive scope <=%d object leaves x <=%d species leaves" % EXHAUSTIVE_SCOPE


def exhaustive_cases(rng, max_o, max_s, stats, both=True):
    """EVERY binary input with <= max_o object leaves and <= max_s species leaves and EVERY valid
    reconciliation of it: in BOTH orientations (`both`), else once, in an orientation drawn at random; size
    seed and synteny flag drawn per case.  `stats` counts what was produced."""
    done = set()
    for S, O in small_inputs(max_o, max_s):
        k = sr.solution_key({"S": S, "O": O})
        if k in done:
            continue
        done.add(k)
        stats[SCOPE_NAME + ": inputs"] += 1
        for sol in all_valid(S, O):
            stats[SCOPE_NAME + ": reconciliations"] += 1
            for orient in ("V", "H") if both else (rng.choice("VH"),):
                stats[SCOPE_NAME + ": cases"] += 1
                yield make_case(rng, S, O, sol, orient, rng.random() < 0.25)


def gen_cases(ctx, quick_random=250, thorough_random=6000, stats=None, both=True):
    """`stats` (a Counter) given: the caller is C13 / C14 itself and gets, with the thorough budget, the whole
    EXHAUSTIVE_SCOPE (meant to be spread over processes, see run_pooled); other users (C15) keep the smaller
    scopes below, which they thin out anyway."""
    rng = ctx.rng
    # bounded-exhaustive part
    if stats is not None and ctx.budget(False, True):
        yield from exhaustive_cases(rng, *EXHAUSTIVE_SCOPE, stats, both)
        scopes = []
    else:
        scopes = [(3, 3)] + ([(4, 3), (3, 4)] if ctx.budget(False, True) else [])
    done = set()
    for max_o, max_s in scopes:
        for S, O in small_inputs(max_o, max_s):
            k = sr.solution_key({"S": S, "O": O})
            if k in done:
                continue
            done.add(k)
            for sol in all_valid(S, O):
                orient = "V" if rng.random() < 0.5 else "H"
                yield make_case(rng, S, O, sol, orient, rng.random() < 0.25)
                if rng.random() < 0.15:
                    yield make_case(rng, S, O, sol, "H" if orient == "V" else "V", rng.random() < 0.5)
    # sampled inside the 5/5 scope: all valid mappings of a random input, a few of them drawn
    for _ in range(ctx.budget(60, 600)):
        ns, no = rng.randint(2, 5), rng.randint(3, 5)
        S = gen.rand_shape(rng, ns)
        O = gen.fill_object(gen.rand_shape(rng, no), iter([{"s": s} for s in gen.rand_species_assignment(rng, S, no)]))
        sols = all_valid(S, O)
        for sol in rng.sample(sols, min(len(sols), ctx.budget(4, 8))):
            for orient in ("V", "H"):
                yield make_case(rng, S, O, sol, orient, rng.random() < 0.5)
    # larger random inputs
    for _ in range(ctx.budget(quick_random, thorough_random)):
        ns, no = rng.randint(2, 6), rng.randint(4, 10)
        S = gen.rand_shape(rng, ns, rng.choice([None, "cat", "bal"]))
        O = gen.fill_object(gen.rand_shape(rng, no, rng.choice([None, None, "cat", "bal"])),
                            iter([{"s": s} for s in gen.rand_species_assignment(rng, S, no)]))
        sol = random_valid(rng, S, O, p_hgt=rng.choice([0.0, 0.2, 0.5]))
        yield make_case(rng, S, O, sol, rng.choice("VH"), rng.random() < 0.5)


CORPUS = [
    # duplication above two species with losses on both sides, transfer into a sister species
    {"S": [[[], []], []], "O": [[{"s": "00"}, {"s": "1"}], {"s": "01"}],
     "sol": {"s": "", "c": [{"s": "", "c": [{"s": "00"}, {"s": "1"}]}, {"s": "01"}]},
     "orient": "V", "syn": False, "seed": 1},
    {"S": [[[], []], []], "O": [[{"s": "00"}, {"s": "1"}], {"s": "01"}],
     "sol": {"s": "0", "c": [{"s": "00", "c": [{"s": "00"}, {"s": "1"}]}, {"s": "01"}]},
     "orient": "H", "syn": False, "seed": 2},
    # everything in one leaf species of a larger tree; root duplication far above its children
    {"S": [[[], []], [[], []]], "O": [{"s": "00"}, {"s": "00"}],
     "sol": {"s": "", "c": [{"s": "00"}, {"s": "00"}]}, "orient": "V", "syn": False, "seed": 3},
    # leaf syntenies and internal labels
    {"S": [[], []], "O": [{"s": "0", "f": [0, 1]}, {"s": "1", "f": [1]}],
     "sol": {"s": "", "f": [0, 1], "c": [{"s": "0", "f": [0, 1]}, {"s": "1", "f": [1]}]},
     "orient": "H", "syn": True, "seed": 4},
]


def nontrivial(case):
    _, losses, transfers = expected_events(case["sol"])
    return bool(losses or transfers)


def model_requests(case):
    return [
        {"op": "c13_branches", "S": case["S"], "sol": strip_f(case["sol"])},
        {"op": "c13_render", "S": case["S"], "sol": strip_f(case["sol"]), "orientation": case["orient"]},
    ]


def check_cases(ctx, res, cases):
    reqs = [r for c in cases for r in model_requests(c)]
    outs = ctx.driver.parallel(reqs)
    for i, case in enumerate(cases):
        mb, mr = outs[2 * i], outs[2 * i + 1]
        res.case(case, nontrivial(case))
        ev, losses, transfers = expected_events(case["sol"])
        res.dist[f"{case['orient']}/{'syn' if case['syn'] else 'plain'}/losses={min(len(losses), 3)}"
                 f"/hgt={min(len(transfers), 2)}"] += 1
        try:
            out, lay, text, _ = run_real(case)
        except Exception as e:  # a valid reconciliation must be drawable
            res.violation(f"layout/render raises {type(e).__name__}: {e}", case)
            continue
        info = {}
        bad = spec_check(case, out, lay, text, info)
        for n in info.get("notes", []):
            if n not in res.notes and len(res.notes) < 20:
                res.notes.append(n)
        res.dist["placement clause: marks of the drawing located"] += info.get("marks", 0)
        if bad:
            res.violation(bad, case)
            continue
        # correspondence: branch structure per species, statement kinds
        impl = structure(canon_layout(out, lay))
        if "err" in mb or sorted_anchors(mb["ok"]) != impl:
            res.tie_broken("computeBranches vs _compute_branches (ordered branches, anchor set, per species)",
                           case, mb, impl)
            continue
        cnt = tikz_counts(text)
        if "err" in mr:
            res.tie_broken("render model fails where tikz.render succeeds", case, mr, cnt)
            continue
        mc = Counter()
        for st in mr["ok"]:
            mc["path" if st[0] == "path" else st[0] if st[0] in ("transfer",) else
               "FULL_LOSS" if st[0] == "loss" else st[2]] += 1
        if {k: mc.get(k, 0) for k in cnt} != cnt:
            res.tie_broken("statement kinds of _tikz_draw_branches", case, dict(mc), cnt)


def sorted_anchors(model_ok):
    return [{"sp": s["sp"], "branches": s["branches"], "anchors": sorted(s["anchors"])} for s in model_ok]


def run_batches(ctx, res, cases, size=400):
    batch = []
    for c in cases:
        batch.append(c)
        if len(batch) >= size:
            check_cases(ctx, res, batch)
            batch = []
    check_cases(ctx, res, batch)


# --------------------------------------------------------------------------
# process pool (thorough tier and deep search)

POOL_WORKERS = 16
VIOLATION_CAP = 50  # Result keeps at most this many violations; nothing is learnt by going on after that
_WORKER_CTX = {}


def pool_size():
    try:
        want = int(os.environ.get("VERIF_JOBS", "") or POOL_WORKERS)
    except ValueError:
        want = POOL_WORKERS
    return max(1, min(POOL_WORKERS, want, os.cpu_count() or 1))


def pool_init():
    """Every worker is a fresh interpreter (spawn) that imports superrec2 from the SAME tree as the parent:
    SUPERREC2_REPO is inherited through the environment and setup_repo_path() refuses any other origin."""
    common.setup_repo_path()


def pool_work(job):
    """In a worker: the check module's own check_cases on a chunk (the real layout.compute / tikz.render under
    the stub measurer, the property evaluated directly, the model through this worker's own Lean driver
    process — one Python worker + one driver per core, DESIGN 2.3), collected in a local Result."""
    modname, prop, tier, seed, cases = job
    mod = importlib.import_module(modname)
    ctx = _WORKER_CTX.get(prop)
    if ctx is None:
        ctx = _WORKER_CTX[prop] = common.Ctx(prop, tier, seed)
        ctx.driver.parallel = lambda reqs, jobs=1, timeout=3000: ctx.driver.batch(reqs, timeout)
    res = common.Result()
    mod.check_cases(ctx, res, cases)
    return {"evaluations": res.evaluations, "nontrivial": res.nontrivial, "dist": res.dist,
            "samples": res.samples, "concrete": res.concrete, "mismatch": res.mismatch, "notes": res.notes}


def merge_result(res, part):
    res.evaluations += part["evaluations"]
    res.nontrivial |= part["nontrivial"]
    res.dist.update(part["dist"])
    res.samples += part["samples"][:max(0, 6 - len(res.samples))]
    res.concrete += part["concrete"][:max(0, VIOLATION_CAP - len(res.concrete))]
    res.mismatch += part["mismatch"][:max(0, 50 - len(res.mismatch))]
    res.notes += [n for n in part["notes"] if n not in res.notes][:max(0, 20 - len(res.notes))]


def run_pooled(ctx, res, mod, cases, chunk=500):
    """Stream `cases` (an iterator, consumed lazily in this process, from ctx.rng) through a pool of worker
    processes running `mod.check_cases` (pool_work) and merge their Results in the order of generation, so
    that what is reported does not depend on scheduling.  At most 2 x workers chunks exist at any time: memory
    does not grow with the size of the scope.  Returns True when every case was judged, False when the
    stream was cut short at VIOLATION_CAP violations."""
    import multiprocessing
    from concurrent.futures import ProcessPoolExecutor
    from concurrent.futures import TimeoutError as FutureTimeout
    from concurrent.futures.process import BrokenProcessPool
    from pickle import PicklingError

    n = pool_size()
    it = iter(cases)
    pending = collections.deque()
    ex = ProcessPoolExecutor(n, mp_context=multiprocessing.get_context("spawn"), initializer=pool_init)
    complete = True

    def fill():
        while len(pending) < 2 * n:
            part = list(itertools.islice(it, chunk))
            if not part:
                return
            pending.append(ex.submit(pool_work, (mod.__name__, ctx.prop, ctx.tier, ctx.seed, part)))

    try:
        fill()
        while pending:
            fut = pending.popleft()
            try:
                part = fut.result(timeout=3000)
            except (BrokenProcessPool, FutureTimeout, OSError, PicklingError) as e:
                # a worker died / timed out / could not be talked to: never a verdict.  (An exception raised
                # by check_cases itself comes back unchanged, as in the single-process run.)
                raise common.Infra(f"worker process failed: {type(e).__name__}: {e}") from e
            merge_result(res, part)
            if len(res.concrete) >= VIOLATION_CAP:
                complete = False
                break
            fill()
    finally:
        ex.shutdown(wait=True, cancel_futures=True)
    return complete


def scope_report(ctx, res, stats, complete, how):
    """What the bounded-exhaustive part of this run covered, said in the evidence (the property as a whole
    quantifies over the 5/5 scope, larger random inputs and arbitrary sizes: it is never `exhaustive`)."""
    res.exhaustive = False
    if not stats:
        res.notes.append("quick tier: bounded-exhaustive up to 3 object leaves / 3 species leaves only (one "
                         "orientation per reconciliation, 15% in both); the 4/4 scope is enumerated in the "
                         "thorough tier and in the deep search; 5/5 is sampled")
        return
    if not complete:  # only happens on the way to a VIOLATION
        res.notes.append(f"{SCOPE_NAME}: NOT completed, the run was cut short at {VIOLATION_CAP} violations "
                         f"({res.evaluations} cases judged in all)")
        return
    for k, v in stats.items():
        res.dist[k] += v
    res.notes.append(
        f"{SCOPE_NAME}: every input ({stats[SCOPE_NAME + ': inputs']}) and every valid reconciliation of it "
        f"({stats[SCOPE_NAME + ': reconciliations']}) {how} ({stats[SCOPE_NAME + ': cases']} cases, "
        f"{pool_size()} worker processes); the 5/5 scope of the property text beyond it is sampled and sizes "
        "are sampled: the property is NOT exhaustively covered")


def corpus(ctx, res):
    check_cases(ctx, res, CORPUS)


def run(ctx, res):
    if not ctx.budget(False, True):  # quick tier: in this process, as before
        run_batches(ctx, res, gen_cases(ctx))
        scope_report(ctx, res, None, True, "")
        return
    stats = Counter()
    complete = run_pooled(ctx, res, importlib.import_module(__name__), gen_cases(ctx, stats=stats))
    scope_report(ctx, res, stats, complete, "in both orientations, one seeded size function per drawing")


def replay(ctx, data):
    case = data["input"]
    try:
        out, lay, text, _ = run_real(case)
    except Exception as e:
        return (False, f"layout/render raises {type(e).__name__}: {e}")
    bad = spec_check(case, out, lay, text)
    return (bad is None, f"verdict={'ok' if bad is None else bad}")
