"""C08 — Polytomies are resolved by exploring every binary refinement exactly once."""
import contextlib
import copy
import io
import itertools
import json
import re

from ete3 import Tree

from superrec2.utils.trees import arrange_leaves, binarize, graft, is_binary

from .. import gen, solvers
from ..common import Result
from ..solvers import MODE
from ..sr import (algorithms, build_input, canon_solution, default_oname, default_sname, derive_case,
                  enc_cost, index_tree, leaf_data_by_name)

ID = "C08"
RULE = (
    "enumerator: every ordered tree shape with arities >= 2 on up to 5 (quick) / 6 (thorough) leaves (1, 1, 3, "
    "11, 45, 197 shapes), leaf ids permuted, internal nodes randomly given a name (among them 'O0', 'S1', ... "
    "which collide with generated names) and/or a `color` feature; binarize(tree) is compared, as a multiset of "
    "canonical forms {(sorted clade, name, colour)}, with an independent generator (recursive choice of the "
    "bipartition of the children that contains the first child) -> every refinement once, nothing else, every "
    "result binary with the original leaves, clades, names and colours; the Lean specification c08_is_refinement "
    "is evaluated on real results; arrange_leaves on 1-5/6 items (leaves and annotated cherries); graft with and "
    "without an `ignore` antichain.  ReconciliationInput.binarize() on multifurcating inputs: pairs of refinements "
    "= product of the independent generator's, leaf data / names / colours kept through the Newick round trip, "
    "label_internal names exactly the new nodes with fresh O#/S#.  End to end: sreconcile_extended_spfs / "
    "usreconcile_extended_uspfs on inputs of up to 4+4 leaves with one or two polytomies (object tree, species "
    "tree or both), coherent costs: cost = min over all pairs of independent refinements of the Lean "
    "specification's optimum (spec_opt), `all` = union of the optimal sets of the optimal pairs (canonical ones "
    "for the unordered solver), `any` = one member.  Non-trivial = at least one node with three or more children."
)
TRUSTED = [
    "model: lean/SRVerif/Model/Binarize.lean (items of an arrangement are opaque: the topology-id test of graft "
    "is modelled by `not an item`; graftIgn is the literal version on leaf sets, both compared with the real graft)",
    "specification: lean/SRVerif/Spec/Refine.lean; Spec.optimum of lean/SRVerif/Spec/Opt.lean for the optimum of "
    "a binary input",
    "the independent refinement generator of this module (bipartition recursion) and its canonical forms",
    "ete3: Tree.copy, get_topology_id (md5 of the bipartition list), Newick write/parse with format 8/1 and NHX "
    "features",
]
ASSUMPTIONS = [
    "leaf names are distinct; every internal node has at least two children (a unary node's features overwrite "
    "its child's in binarize: outside the property)",
    "internal node names are distinct within a tree and contain no Newick metacharacters",
    "end to end: coherent cost vectors (spe + 2*sloss <= dup + 2*floss), leaf syntenies non-empty with distinct families",
]
OPEN = [
    "C08_opt_refinements_spfs / _uspfs (Properties/C08Opt.lean, C08OptUn.lean) prove the optimum over ALL spec-level "
    "refinement pairs for the EXTENDED solvers (ordered: no prescribed root order); the `base` variants on "
    "multifurcating inputs are covered only by C08_opt (arg-min over the candidates of every refinement pair)",
]

NAMES = ["", "P", "Q", "O0", "O1", "S0", "S1", "O2", "X9"]
COLOURS = [None, "red", "blue"]


# ---------------------------------------------------------------------------
# trees: nested case form  leaf = int id, internal = {"a": code | None, "c": [...]}


def ann_code(name, colour):
    c = NAMES.index(name) * 3 + COLOURS.index(colour)
    return c or None


def ann_decode(code):
    if code is None:
        return "", None
    return NAMES[code // 3], COLOURS[code % 3]


def leaf_name(i):
    return f"L{i}"


def to_ete(t):
    if isinstance(t, int):
        node = Tree()
        node.name = leaf_name(t)
        return node
    node = Tree()
    name, colour = ann_decode(t["a"])
    node.name = name
    if colour is not None:
        node.add_feature("color", colour)
    for c in t["c"]:
        node.add_child(to_ete(c))
    return node


def leaves_of(t):
    if isinstance(t, int):
        return [t]
    return [x for c in t["c"] for x in leaves_of(c)]


def canon_nested(t):
    """Canonical form of a nested tree: sorted tuple of (sorted clade, ann) over internal nodes."""
    out = []

    def rec(n):
        if isinstance(n, int):
            return [n]
        lv = [x for c in n["c"] for x in rec(c)]
        out.append((tuple(sorted(lv)), n["a"]))
        return lv

    rec(t)
    return tuple(sorted(out, key=lambda p: (p[0], -1 if p[1] is None else p[1])))


def canon_ete(tree):
    """Same canonical form for a real tree; raises ValueError on an unknown leaf/name/colour."""
    out = []

    def rec(n):
        if n.is_leaf():
            if not re.fullmatch(r"L\d+", n.name):
                raise ValueError(f"leaf name {n.name!r}")
            return [int(n.name[1:])]
        lv = [x for c in n.children for x in rec(c)]
        out.append((tuple(sorted(lv)), ann_code(n.name, getattr(n, "color", None))))
        return lv

    rec(tree)
    return tuple(sorted(out, key=lambda p: (p[0], -1 if p[1] is None else p[1])))


def canon_model(c):
    return tuple(sorted(((tuple(cl), a) for cl, a in c), key=lambda p: (p[0], -1 if p[1] is None else p[1])))


def set_partitions_two(items):
    """Unordered bipartitions {A, B} of a list, A containing the first element."""
    first, rest = items[0], items[1:]
    for r in range(len(rest)):
        for sub in itertools.combinations(range(len(rest)), r):
            a = [first] + [rest[i] for i in sub]
            b = [rest[i] for i in range(len(rest)) if i not in sub]
            yield a, b


def rooted_binary(items):
    """All rooted binary trees (nested, unannotated inner nodes) over the given subtrees,
    each once up to child order."""
    if len(items) == 1:
        yield items[0]
        return
    for a, b in set_partitions_two(items):
        for ta in rooted_binary(a):
            for tb in rooted_binary(b):
                yield {"a": None, "c": [ta, tb]}


def refinements(t):
    """Independent generator: all binary refinements of a nested tree."""
    if isinstance(t, int):
        return [t]
    out = []
    for descs in itertools.product(*(refinements(c) for c in t["c"])):
        for top in rooted_binary(list(descs)):
            if isinstance(top, int) or top in descs:
                out.append(top)  # unary node (out of scope): the child itself
            else:
                out.append({"a": t["a"], "c": top["c"]})
    return out


def dfact(n):
    return 1 if n <= 1 else n * dfact(n - 2)


def count_formula(t):
    if isinstance(t, int):
        return 1
    k = len(t["c"])
    r = dfact(2 * k - 3)
    for c in t["c"]:
        r *= count_formula(c)
    return r


def shapes_any(n):
    """All ordered tree shapes with n leaves, every internal node with >= 2 children (leaf = None)."""
    if n == 1:
        return [None]
    out = []

    def comps(total, parts):
        if parts == 1:
            yield (total,)
            return
        for first in range(1, total - parts + 2):
            for rest in comps(total - first, parts - 1):
                yield (first,) + rest

    for k in range(2, n + 1):
        for comp in comps(n, k):
            for kids in itertools.product(*(shapes_any(m) for m in comp)):
                out.append(list(kids))
    return out


def label_shape(shape, ids, rng, p_ann):
    """Fill a shape with leaf ids (consumed from the iterator) and random annotations with distinct names."""
    names = [n for n in NAMES if n]
    rng.shuffle(names)
    it = iter(ids)

    def rec(s):
        if s is None:
            return next(it)
        a = None
        if rng.random() < p_ann:
            name = names.pop() if names and rng.random() < 0.8 else ""
            colour = rng.choice(COLOURS)
            a = ann_code(name, colour)
        return {"a": a, "c": [rec(c) for c in s]}

    return rec(shape)


def has_polytomy(t):
    if isinstance(t, int):
        return False
    return len(t["c"]) > 2 or any(has_polytomy(c) for c in t["c"])


def max_arity(t):
    if isinstance(t, int):
        return 0
    return max([len(t["c"])] + [max_arity(c) for c in t["c"]])


def multiset_diff(got, want):
    from collections import Counter

    g, w = Counter(got), Counter(want)
    dup = [k for k, v in g.items() if v > 1]
    missing = list((w - g).keys())
    extra = list((g - w).keys())
    return dup, missing, extra


# ---------------------------------------------------------------------------
# enumerator stream


def check_binarize(ctx, res, cases):
    reqs = [{"op": "c08_binarize", "tree": t} for t in cases]
    models = ctx.driver.parallel(reqs)
    spec_reqs, spec_owner = [], []
    for t, m in zip(cases, models):
        info = {"kind": "binarize", "tree": t}
        res.case(info, has_polytomy(t))
        res.dist[f"binarize:n{len(leaves_of(t))}k{max_arity(t)}"] += 1
        want = [canon_nested(r) for r in refinements(t)]
        tree = to_ete(t)
        # "keep every ... colour of the original": leaves are nodes too.  Colour a third of the leaves (the model has
        # no leaf annotation, so this is judged against the original tree only)
        for lf in tree.get_leaves():
            if int(lf.name[1:]) % 3 == 0:
                lf.add_feature("color", "red" if int(lf.name[1:]) % 2 else "blue")
        leaf_col = {lf.name: getattr(lf, "color", None) for lf in tree.get_leaves()}
        before = tree.write(format=8, format_root_node=True, features=["color"])
        try:
            real = binarize(tree)
            real = [real] if isinstance(real, Tree) else list(real)
        except Exception as e:  # noqa
            res.violation(f"binarize raises {type(e).__name__}: {e}", info)
            continue
        if tree.write(format=8, format_root_node=True, features=["color"]) != before:
            res.violation("binarize modifies its argument", info)
            continue
        bad = [r for r in real if not is_binary(r) or any(len(n.children) not in (0, 2) for n in r.traverse())]
        if bad:
            res.violation("binarize returns a non-binary tree", info, observed=bad[0].write(format=8))
            continue
        try:
            got = [canon_ete(r) for r in real]
        except ValueError as e:
            res.violation(f"binarize changes a leaf or an annotation: {e}", info)
            continue
        lost = [r for r in real if sorted(r.get_leaf_names()) != sorted(leaf_name(i) for i in leaves_of(t))]
        if lost:
            res.violation("binarize changes the leaf set", info, observed=lost[0].write(format=8))
            continue
        recol = [r for r in real if {lf.name: getattr(lf, "color", None) for lf in r.get_leaves()} != leaf_col]
        if recol:
            res.violation("binarize changes the colour of a leaf", info,
                          observed=recol[0].write(format=8, features=["color"]))
            continue
        dup, missing, extra = multiset_diff(got, want)
        if dup:
            res.violation("binarize yields a refinement twice", info, observed=dup[0])
            continue
        if missing or extra:
            res.violation(
                f"binarize: {len(got)} trees, the tree has {len(want)} binary refinements "
                f"(missing {len(missing)}, not a refinement with the original names/colours {len(extra)})",
                info, expected=(missing[:1] or None), observed=(extra[:1] or None))
            continue
        if len(got) != count_formula(t) or m["count"] != len(got):
            res.violation(f"number of refinements {len(got)} is not the product of (2k-3)!! = {count_formula(t)}", info)
            continue
        # Lean specification on (a sample of) the real results
        pick = real if len(real) <= 15 else ctx.rng.sample(real, 15)
        for r in pick:
            spec_reqs.append({"op": "c08_is_refinement", "b": from_ete(r), "t": t})
            spec_owner.append(info)
        # tie: the model's list and the real list are the same MULTISET of canonical refinements.  The order in
        # which binarize lists the refinements is not part of the property (a rewrite of graft that recurses
        # right-before-left is correct); an order difference is recorded in the evidence, never a broken tie.
        mod = [canon_model(c) for c in m["trees"]]
        if sorted(mod) != sorted(got):
            res.tie_broken("binarize: multiset of refinements", info, len(mod), len(got))
        elif mod != got:
            res.dist["binarize: same refinements as the model, listed in another order"] += 1
    for info, ok in zip(spec_owner, ctx.driver.parallel(spec_reqs)):
        if not (ok["refines"] and ok["ann"]):
            res.violation("binarize: a result is not a refinement keeping the annotations (Lean specification)",
                          info, observed=ok)


def from_ete(n):
    if n.is_leaf():
        return int(n.name[1:])
    return {"a": ann_code(n.name, getattr(n, "color", None)), "c": [from_ete(c) for c in n.children]}


def enumerator_cases(ctx):
    rng = ctx.rng
    nmax = ctx.budget(5, 6)
    cases = []
    for n in range(1, nmax + 1):
        for shape in shapes_any(n):
            reps = 1 if n >= 5 else 2
            for _ in range(reps):
                ids = list(range(n))
                if rng.random() < 0.7:
                    ids = rng.sample(range(12), n)
                cases.append(label_shape(shape, ids, rng, rng.choice([0.0, 0.5, 1.0])))
    return cases


def small_items(rng, k):
    """k disjoint small subtrees (leaves, annotated cherries, a 3-leaf tree)."""
    ids = iter(rng.sample(range(40), 3 * k))
    out = []
    for _ in range(k):
        r = rng.random()
        a = rng.choice([None, ann_code("P", None), ann_code("", "red"), ann_code("O0", "blue")])
        if r < 0.6:
            out.append(next(ids))
        elif r < 0.9:
            out.append({"a": a, "c": [next(ids), next(ids)]})
        else:
            out.append({"a": a, "c": [next(ids), {"a": None, "c": [next(ids), next(ids)]}]})
    return out


def check_arrange(ctx, res):
    rng = ctx.rng
    kmax = ctx.budget(5, 6)
    cases = [[]] + [small_items(rng, k) for k in range(1, kmax + 1) for _ in range(3 if k < 6 else 1)]
    cases += [list(range(k)) for k in range(1, kmax + 1)]
    models = ctx.driver.parallel([{"op": "c08_arrange", "items": c} for c in cases])
    for items, m in zip(cases, models):
        info = {"kind": "arrange", "items": items}
        k = len(items)
        res.case(info, k >= 3)
        res.dist[f"arrange:k{k}"] += 1
        real = list(arrange_leaves([to_ete(x) for x in items]))
        got = [canon_ete(r) for r in real]
        want = [canon_nested(r) for r in rooted_binary(items)] if items else []
        dup, missing, extra = multiset_diff(got, want)
        if dup or missing or extra or (k >= 1 and len(got) != dfact(2 * k - 3)):
            res.violation(
                f"arrange_leaves on {k} items: {len(got)} trees (duplicates {len(dup)}, missing {len(missing)}, "
                f"foreign {len(extra)}); expected each of the {len(want)} binary trees over the items once",
                info, expected=(missing[:1] or None), observed=((dup or extra)[:1] or None))
            continue
        mod = [canon_model(c) for c in m]
        if sorted(mod) != sorted(got):
            res.tie_broken("arrange_leaves: multiset of arrangements", info, len(m), len(got))
        elif mod != got:
            res.dist["arrange: same arrangements as the model, listed in another order"] += 1


def binary_shapes_nested(n, ids):
    """All binary nested trees with n leaves over consecutive ids from the list."""
    if n == 1:
        return [ids[0]]
    out = []
    for k in range(1, n):
        for l in binary_shapes_nested(k, ids[:k]):
            for r in binary_shapes_nested(n - k, ids[k:]):
                out.append({"a": None, "c": [l, r]})
    return out


def antichains(t):
    """All sets of pairwise incomparable internal nodes (as paths) of a nested tree."""
    if isinstance(t, int):
        return [[]]
    subs = [antichains(c) for c in t["c"]]
    out = [[()]]
    for combo in itertools.product(*subs):
        out.append([(i,) + p for i, part in enumerate(combo) for p in part])
    return out


def node_at(t, path):
    for i in path:
        t = t["c"][i]
    return t


def to_btree(t, ignored, path=()):
    """Model input of c08_graft: ignored nodes and leaves are items."""
    if isinstance(t, int) or path in ignored:
        return {"item": t}
    return [to_btree(c, ignored, path + (i,)) for i, c in enumerate(t["c"])]


def graft_expected(t, ignored, x, path=()):
    """Specification of graft: x becomes the sibling of every node that is not strictly below an
    ignored node; the nodes above the graft point are fresh (unannotated)."""
    out = [{"a": None, "c": [x, t]}]
    if not isinstance(t, int) and path not in ignored:
        l, r = t["c"]
        out += [{"a": None, "c": [g, r]} for g in graft_expected(l, ignored, x, path + (0,))]
        out += [{"a": None, "c": [l, g]} for g in graft_expected(r, ignored, x, path + (1,))]
    return out


def check_graft(ctx, res):
    rng = ctx.rng
    nmax = ctx.budget(4, 5)
    reqs, metas = [], []
    for n in range(1, nmax + 1):
        for t in binary_shapes_nested(n, list(range(n))):
            chains = antichains(t)
            if len(chains) > 6:
                chains = [chains[0]] + rng.sample(chains[1:], 5)
            for use_ignore in (False, True):
                for ign in (chains if use_ignore else [None]):
                    # annotate only nodes at or below ignored nodes (skeleton nodes are fresh in arrange_leaves)
                    tt = copy.deepcopy(t)
                    for p in ign or []:
                        node = node_at(tt, p)
                        if not isinstance(node, int):
                            node["a"] = rng.choice([None, ann_code("P", "red"), ann_code("O1", None)])
                    x = 99 if rng.random() < 0.7 else {"a": ann_code("Q", None), "c": [98, 99]}
                    metas.append((tt, ign, x))
                    reqs.append({"op": "c08_graft", "x": x, "tree": to_btree(tt, set(ign or []))})
                    ids = [sorted(leaves_of(node_at(tt, p))) for p in (ign or [])]
                    # literal version: leaves of the tree are always stopped at
                    reqs.append({"op": "c08_graft_ign", "x": x, "tree": tt, "ignore": ids})
    outs = ctx.driver.parallel(reqs)
    for i, (t, ign, x) in enumerate(metas):
        info = {"kind": "graft", "tree": t, "ignore": [list(p) for p in ign] if ign is not None else None, "x": x}
        n = len(leaves_of(t))
        res.case(info, n >= 2)
        res.dist[f"graft:n{n}{'i' if ign else ''}"] += 1
        tree = to_ete(t)
        ignore = None
        if ign is not None:
            _, back = index_tree(tree)
            ignore = {back["".join(map(str, p))].get_topology_id() for p in ign}
        real = list(graft(tree, to_ete(x), ignore))
        got = [canon_ete(r) for r in real]
        want = [canon_nested(r) for r in graft_expected(t, set(ign or []), x)]
        items = sum(1 for _ in _items(t, set(ign or [])))
        if got != want or len(got) != 2 * items - 1:
            dup, missing, extra = multiset_diff(got, want)
            if dup or missing or extra or len(got) != 2 * items - 1:
                res.violation(
                    f"graft: {len(got)} trees for {items} items (expected {2 * items - 1}: the new leaf as sibling of "
                    f"every node outside the ignored subtrees)", info,
                    expected=(missing[:1] or None), observed=((dup or extra)[:1] or None))
                continue
        m1, m2 = outs[2 * i], outs[2 * i + 1]
        for mm, rel in ((m1, "graft (items = ignored nodes)"), (m2, "graft (literal ignore test on leaf sets)")):
            mod = [canon_model(c) for c in mm]
            if sorted(mod) != sorted(got):
                res.tie_broken(rel, info, len(mm), len(got))
            elif mod != got:
                res.dist["graft: same grafts as the model, listed in another order"] += 1


def _items(t, ignored, path=()):
    if isinstance(t, int) or path in ignored:
        yield t
    else:
        for i, c in enumerate(t["c"]):
            yield from _items(c, ignored, path + (i,))


# ---------------------------------------------------------------------------
# ReconciliationInput.binarize / label_internal and the end-to-end optimum
#
# A multifurcating canonical case is a canonical case of harness/sr.py whose S and O may have any
# arity >= 2, plus optional "scol"/"ocol": {path: colour} for internal nodes.


def species_ids(S):
    """leaf path -> id (left to right)."""
    return {p: i for i, p in enumerate(gen.leaf_paths(S))}


def s_nested(S, ids, path=""):
    if not S:
        return ids[path]
    return {"a": ("S", path), "c": [s_nested(c, ids, path + str(i)) for i, c in enumerate(S)]}


def o_nested(O, counter, path=""):
    if isinstance(O, dict):
        counter.append((path, O))
        return len(counter) - 1
    return {"a": ("O", path), "c": [o_nested(c, counter, path + str(i)) for i, c in enumerate(O)]}


def refinements_tagged(t):
    """refinements() for trees whose annotations are arbitrary hashable tags."""
    if isinstance(t, int):
        return [t]
    out = []
    for descs in itertools.product(*(refinements_tagged(c) for c in t["c"])):
        for top in rooted_binary(list(descs)):
            out.append({"a": t["a"], "c": top["c"]})
    return out


def clades_tagged(t):
    out = {}

    def rec(n):
        if isinstance(n, int):
            return (n,)
        lv = tuple(sorted(x for c in n["c"] for x in rec(c)))
        out[lv] = n["a"]
        return lv

    rec(t)
    return out


def paths_of_leaves(t, path=""):
    if isinstance(t, int):
        return {t: path}
    out = {}
    for i, c in enumerate(t["c"]):
        out.update(paths_of_leaves(c, path + str(i)))
    return out


def shape_of(t):
    return [] if isinstance(t, int) else [shape_of(c) for c in t["c"]]


def derived_case(case, bS, bO, oleaves, sid_of):
    """Canonical binary case of a pair of refinements (nested, ids at the leaves)."""
    spath = paths_of_leaves(bS)

    def rec(n):
        if isinstance(n, int):
            leaf = oleaves[n][1]
            d = {"s": spath[sid_of[leaf["s"]]]}
            if "f" in leaf:
                d["f"] = leaf["f"]
            return d
        return [rec(c) for c in n["c"]]

    out = {"S": shape_of(bS), "O": rec(bO), "costs": solvers.full_costs(case)}
    if case.get("root") is not None:
        out["root"] = case["root"]
    return out


def sol_key(sol, bO, bS, unordered):
    """Order-independent form of a canonical solution on the refinement pair (bO, bS):
    (species clades of the refined species tree, object tree as nested frozensets with the
    species clade and synteny of every node)."""
    sclade = {}

    def srec(n, path):
        if isinstance(n, int):
            sclade[path] = (n,)
            return (n,)
        lv = tuple(sorted(x for i, c in enumerate(n["c"]) for x in srec(c, path + str(i))))
        sclade[path] = lv
        return lv

    srec(bS, "")

    def orec(n, s):
        fam = tuple(sorted(s["f"]) if unordered else s["f"]) if "f" in s else None
        if isinstance(n, int):
            return ("leaf", n, sclade[s["s"]], fam)
        kids = sorted((orec(c, cs) for c, cs in zip(n["c"], s["c"])), key=repr)
        return ("node", sclade[s["s"]], fam, tuple(kids))

    return (tuple(sorted(v for v in sclade.values() if len(v) > 1)), orec(bO, sol))


def multi_setup(case):
    sid_of = species_ids(case["S"])
    oleaves = []
    tO = o_nested(case["O"], oleaves)
    tS = s_nested(case["S"], sid_of)
    return sid_of, oleaves, tO, tS


def build_multi(case):
    inp = build_input(case)
    _, sback = index_tree(inp.species_lca.tree)
    _, oback = index_tree(inp.object_tree)
    for p, col in case.get("scol", {}).items():
        sback[p].add_feature("color", col)
    for p, col in case.get("ocol", {}).items():
        oback[p].add_feature("color", col)
    return inp


def nested_of_real(tree, leaf_id, tag):
    """Nested tagged form of a real tree: leaves -> ids by name, inner -> (name, colour)."""
    if tree.is_leaf():
        return leaf_id[tree.name]
    return {"a": tag(tree), "c": [nested_of_real(c, leaf_id, tag) for c in tree.children]}


def real_pair(inp, case, sid_of, oleaves):
    """(bO, bS) nested forms (ids at leaves, (name, colour) tags) of a real binarised input."""
    s_leaf = {default_sname(p): i for p, i in sid_of.items()}
    o_leaf = {default_oname(p, default_sname(l["s"])): i for i, (p, l) in enumerate(oleaves)}
    tag = lambda n: (n.name, getattr(n, "color", None))
    return (nested_of_real(inp.object_tree, o_leaf, tag), nested_of_real(inp.species_lca.tree, s_leaf, tag))


def expected_tags(case, t, kind):
    """clade -> (name, colour) of the original internal nodes."""
    cols = case.get("scol" if kind == "S" else "ocol", {})
    name = default_sname if kind == "S" else default_oname
    return {cl: (name(tagv[1]), cols.get(tagv[1])) for cl, tagv in clades_tagged(t).items()}


def leaf_colours(inp):
    """{"O"/"S": {leaf name: colour}} of a real input."""
    return {"O": {lf.name: getattr(lf, "color", None) for lf in inp.object_tree.get_leaves()},
            "S": {lf.name: getattr(lf, "color", None) for lf in inp.species_lca.tree.get_leaves()}}


def check_input_binarize(ctx, res, case):
    """ReconciliationInput.binarize() + label_internal on one multifurcating case."""
    info = {"kind": "input", "case": case}
    sid_of, oleaves, tO, tS = multi_setup(case)
    inp = build_multi(case)
    orig = leaf_data_by_name(inp)
    orig_cols = leaf_colours(inp)
    try:
        outs = list(inp.binarize())
    except Exception as e:  # noqa
        res.violation(f"ReconciliationInput.binarize raises {type(e).__name__}: {e}", info)
        return
    want = {(frozenset(clades_tagged(bO)), frozenset(clades_tagged(bS)))
            for bO in refinements_tagged(tO) for bS in refinements_tagged(tS)}
    tagsO, tagsS = expected_tags(case, tO, "O"), expected_tags(case, tS, "S")
    got = []
    for b in outs:
        if not (is_binary(b.object_tree) and is_binary(b.species_lca.tree)):
            res.violation("ReconciliationInput.binarize yields a non-binary input", info)
            return
        if leaf_data_by_name(b) != orig:
            res.violation("ReconciliationInput.binarize changes the leaf data", info,
                          expected=orig, observed=leaf_data_by_name(b))
            return
        if b.costs != inp.costs:
            res.violation("ReconciliationInput.binarize changes the costs", info)
            return
        if leaf_colours(b) != orig_cols:
            res.violation("ReconciliationInput.binarize changes the colour of a leaf", info,
                          expected=orig_cols, observed=leaf_colours(b))
            return
        try:
            bO, bS = real_pair(b, case, sid_of, oleaves)
        except KeyError as e:
            res.violation(f"ReconciliationInput.binarize changes a leaf name: {e}", info)
            return
        for kind, bt, tags in (("object", bO, tagsO), ("species", bS, tagsS)):
            cl = clades_tagged(bt)
            for c, tg in tags.items():
                if cl.get(c) != tg:
                    res.violation(
                        f"refined {kind} tree: the original node with clade {c} should keep (name, colour) {tg}, "
                        f"found {cl.get(c)}", info)
                    return
            fresh = {c: tg for c, tg in cl.items() if c not in tags}
            # an unnamed node reads back from Newick as "NoName" (ete3's parser default)
            if any(tg not in (("", None), ("NoName", None)) for tg in fresh.values()):
                res.violation(f"refined {kind} tree: a new node carries a name or a colour", info,
                              observed=sorted(fresh.items()))
                return
        got.append((frozenset(clades_tagged(bO)), frozenset(clades_tagged(bS))))
        # label_internal: only the new nodes are named, with fresh O#/S#
        b.label_internal()
        for kind, tree, tags, pat in (("object", b.object_tree, tagsO, r"O\d+"),
                                      ("species", b.species_lca.tree, tagsS, r"S\d+")):
            names = [n.name for n in tree.traverse()]
            if len(set(names)) != len(names) or any(not n or n == "NoName" for n in names):
                res.violation(f"label_internal leaves an unnamed node or repeats a name in the {kind} tree", info,
                              observed=names)
                return
            leaf_id = {n: i for i, n in enumerate(sorted(tree.get_leaf_names()))}
            for n in tree.traverse():
                if n.is_leaf():
                    continue
                c = tuple(sorted(leaf_id[x] for x in n.get_leaf_names()))
            # original internal names unchanged, new ones generated
            orig_names = {tg[0] for tg in tags.values()}
            lo, ls = real_pair(b, case, sid_of, oleaves)
            cl = clades_tagged(lo if kind == "object" else ls)
            for c, tg in cl.items():
                if c in tags:
                    if tg[0] != tags[c][0]:
                        res.violation(f"label_internal renames the original {kind} node {tags[c][0]}", info)
                        return
                elif not re.fullmatch(pat, tg[0]) or tg[0] in orig_names:
                    res.violation(f"label_internal names a new {kind} node {tg[0]!r}", info)
                    return
    if len(set(got)) != len(got):
        res.violation("ReconciliationInput.binarize yields the same pair of refinements twice", info)
    elif set(got) != want:
        res.violation(
            f"ReconciliationInput.binarize yields {len(got)} inputs, there are {len(want)} pairs of refinements",
            info)


def spec_for_pairs(ctx, case, mode, pairs, sid_of, oleaves):
    """Optimum of every refinement pair (spec_opt, keep=False), then the optimal sets of the optimal pairs."""
    dcs = [derived_case(case, bS, bO, oleaves, sid_of) for bO, bS in pairs]
    costs = ctx.driver.parallel(
        [{"op": "spec_opt", "mode": mode, "keep": False, "base": False, **solvers.lean_case(dc)} for dc in dcs])
    vals = [c["cost"] for c in costs]
    finite = [v for v in vals if v != "inf"]
    if not finite:
        # no finite optimum: a pair may still admit valid solutions of infinite cost
        return None, dcs, vals, set()
    best = min(finite)
    opt_idx = [i for i, v in enumerate(vals) if v == best]
    full = ctx.driver.parallel(
        [{"op": "spec_opt", "mode": mode, "keep": True, "base": False, **solvers.lean_case(dcs[i])} for i in opt_idx])
    want = set()
    creqs, cmeta = [], []
    for i, f in zip(opt_idx, full):
        for s in f["sols"]:
            if mode == "unordered":
                creqs.append({"op": "canonical_un", "O": dcs[i]["O"], "sol": s})
                cmeta.append((i, s))
            else:
                want.add(sol_key(s, pairs[i][0], pairs[i][1], False))
    for (i, s), ok in zip(cmeta, ctx.driver.parallel(creqs)):
        if ok:
            want.add(sol_key(s, pairs[i][0], pairs[i][1], True))
    return best, dcs, vals, want


def check_end_to_end(ctx, res, case, algo):
    from superrec2.utils.dynamic_programming import RetentionPolicy

    mode = MODE[algo]
    unordered = mode == "unordered"
    sid_of, oleaves, tO, tS = multi_setup(case)
    pairs = [(bO, bS) for bO in refinements_tagged(tO) for bS in refinements_tagged(tS)]
    best, dcs, vals, want = spec_for_pairs(ctx, case, mode, pairs, sid_of, oleaves)
    info0 = {"kind": "solve", "case": case, "algo": algo}
    finding = None if gen.coherent(solvers.full_costs(case)) else "F-COHERENCE"
    npoly = int(has_polytomy(tO)) + int(has_polytomy(tS))
    res.dist[f"solve:{algo}:pairs{min(len(pairs), 50) if len(pairs) < 50 else '50+'}"] += 1
    got_all = None
    for policy in ("all", "any"):
        info = dict(info0, policy=policy)
        res.case(info, npoly > 0)
        inp = build_multi(case)
        orig = leaf_data_by_name(inp)
        orig_cols = leaf_colours(inp)
        tags = {"object": expected_tags(case, tO, "O"), "species": expected_tags(case, tS, "S")}
        try:
            with contextlib.redirect_stderr(io.StringIO()):
                outs = list(algorithms()[algo](inp, getattr(RetentionPolicy, policy.upper())))
        except Exception as e:  # noqa
            res.violation(f"{algo} ({policy}) fails on a multifurcating input: {type(e).__name__}: {e}", info)
            return
        keys, costs = [], set()
        for o in outs:
            if not (is_binary(o.input.object_tree) and is_binary(o.input.species_lca.tree)):
                res.violation(f"{algo} ({policy}): solution refers to a non-binary tree", info)
                return
            if leaf_data_by_name(o.input) != orig:
                res.violation(f"{algo} ({policy}): the refinement changed the leaf data", info)
                return
            try:
                bO, bS = real_pair(o.input, case, sid_of, oleaves)
                sol = canon_solution(o)
                costs.add(enc_cost(o.cost()))
            except Exception as e:  # noqa
                res.violation(f"{algo} ({policy}): unusable solution ({type(e).__name__}: {e})", info)
                return
            for kind, bt, t in (("object", bO, tO), ("species", bS, tS)):
                cl = clades_tagged(bt)
                if any(c not in cl for c in clades_tagged(t)):
                    res.violation(f"{algo} ({policy}): the {kind} tree of a solution lost a clade of the input", info)
                    return
                # ... "node name and colour of the original": the original nodes are found by their clade
                for c, tg in tags[kind].items():
                    if cl[c] != tg:
                        res.violation(
                            f"{algo} ({policy}): in the {kind} tree of a solution the original node with clade {c} "
                            f"should keep (name, colour) {tg}, found {cl[c]}", info)
                        return
            if leaf_colours(o.input) != orig_cols:
                res.violation(f"{algo} ({policy}): the trees of a solution changed the colour of a leaf", info)
                return
            keys.append(sol_key(sol, bO, bS, unordered))
        if best is None:
            if outs and costs != {"inf"}:
                res.violation(f"{algo} ({policy}) returns cost {sorted(costs, key=str)}, no refinement pair has a "
                              f"finite optimum", info, finding=finding)
            continue
        if not outs:
            res.violation(f"{algo} ({policy}) returns nothing, the optimum over all refinement pairs is {best}",
                          info, expected=best, finding=finding)
            return
        if costs != {best}:
            res.violation(
                f"{algo} ({policy}) returns cost {sorted(costs, key=str)}, the minimum over the {len(pairs)} pairs of "
                f"binary refinements is {best}", info, expected=best, observed=sorted(costs, key=str), finding=finding)
            return
        if policy == "all":
            got_all = keys
            if len(set(keys)) != len(keys):
                res.violation(f"{algo}: 'all' returns a solution twice for the same refinement", info, finding=finding)
                return
            if set(keys) != want:
                res.violation(
                    f"{algo}: 'all' returns {len(keys)} solutions, the optimal refinement pairs have {len(want)} "
                    f"optimal solutions (missing {len(want - set(keys))}, extra {len(set(keys) - want)})",
                    info, expected=repr(sorted(want - set(keys), key=repr)[:1]),
                    observed=repr(sorted(set(keys) - want, key=repr)[:1]), finding=finding)
                return
        else:
            if len(keys) != 1 or keys[0] not in want:
                res.violation(f"{algo}: 'any' returns {len(keys)} solution(s), not one optimal solution of an optimal "
                              f"refinement pair", info, finding=finding)
                return
    return got_all, (sid_of, oleaves, tO, tS)


def model_multi_request(case, algo, sid_of, oleaves, tO, tS):
    def strip(t):
        return t if isinstance(t, int) else {"a": None, "c": [strip(c) for c in t["c"]]}

    data = [[i, sid_of[l["s"]], l.get("f", [])] for i, (_, l) in enumerate(oleaves)]
    req = {"op": "c08_multi", "algo": algo, "O": strip(tO), "S": strip(tS), "data": data,
           "costs": solvers.full_costs(case)}
    if case.get("root") is not None:
        req["root"] = case["root"]
    return req


def polytomise(rng, tree, k):
    """Collapse up to k random internal edges of a nested-list tree (canonical S or O)."""
    def internal_edges(t, path=()):
        if isinstance(t, dict) or not t:
            return []
        out = []
        for i, c in enumerate(t):
            if isinstance(c, list) and c:
                out.append(path + (i,))
            out += internal_edges(c, path + (i,))
        return out

    for _ in range(k):
        edges = internal_edges(tree)
        if not edges:
            break
        e = rng.choice(edges)
        node = tree
        for i in e[:-1]:
            node = node[i]
        child = node[e[-1]]
        node[e[-1] : e[-1] + 1] = child
    return tree


def internal_paths(t, path=""):
    if isinstance(t, dict) or not t:
        return []
    out = [path]
    for i, c in enumerate(t):
        out += internal_paths(c, path + str(i))
    return out


def multi_case(rng, unordered, coherent=True):
    """A canonical case with one or two polytomies (object tree, species tree or both)."""
    while True:
        case = gen.rand_case(rng, 4, 4, rng.randint(1, 3), plain=False, unordered=unordered,
                             costs=gen.rand_costs(rng, coherent_only=coherent))
        case = copy.deepcopy(case)
        which = rng.choice(["O", "S", "both", "O2", "S2"])
        n = 0
        if which in ("O", "both", "O2") and isinstance(case["O"], list):
            before = json.dumps(case["O"])
            case["O"] = polytomise(rng, case["O"], 2 if which == "O2" else 1)
            n += before != json.dumps(case["O"])
        if which in ("S", "both", "S2") and case["S"]:
            old_leaves = gen.leaf_paths(case["S"])
            before = json.dumps(case["S"])
            case["S"] = polytomise(rng, case["S"], 2 if which == "S2" else 1)
            n += before != json.dumps(case["S"])
            new_leaves = gen.leaf_paths(case["S"])
            remap = dict(zip(old_leaves, new_leaves))  # same leaves, left to right
            for _, leaf in solvers._leaves(case["O"]):
                leaf["s"] = remap[leaf["s"]]
        if n == 0 and rng.random() < 0.9:
            continue
        if rng.random() < 0.5:
            case["ocol"] = {p: rng.choice(["red", "blue"]) for p in internal_paths(case["O"]) if rng.random() < 0.5}
            case["scol"] = {p: rng.choice(["red", "blue"]) for p in internal_paths(case["S"]) if rng.random() < 0.5}
            if rng.random() < 0.5:  # coloured leaves (expected_tags only looks at internal paths)
                case["ocol"].update({p: rng.choice(["red", "blue"]) for p, _ in solvers._leaves(case["O"])
                                     if rng.random() < 0.4})
                case["scol"].update({p: rng.choice(["red", "blue"]) for p in gen.leaf_paths(case["S"])
                                     if rng.random() < 0.4})
        return case


def run_solver_cases(ctx, res, cases):
    pend = []
    for case, algo in cases:
        check_input_binarize(ctx, res, case)
        r = check_end_to_end(ctx, res, case, algo)
        if r and r[0] is not None:
            pend.append((case, algo, r[0], r[1]))
    # tie: the model of the outer loop (spfsMulti / uspfsMulti)
    reqs = [model_multi_request(case, algo, *setup) for case, algo, _, setup in pend]
    for (case, algo, got, setup), m in zip(pend, ctx.driver.parallel(reqs)):
        sid_of, oleaves, tO, tS = setup
        unordered = MODE[algo] == "unordered"
        mk = {sol_key(x["sol"], x["O"], x["S"], unordered) for x in m["outs"]}
        if mk != set(got) or len(m["outs"]) != len(got):
            res.tie_broken(f"{algo}: set of (refinement pair, solution) under 'all'",
                           {"kind": "solve", "case": case, "algo": algo},
                           len(m["outs"]), len(got))


def out_of_scope_notes(res):
    """Behaviour outside the property's scope, recorded in the evidence (never a violation)."""
    t = Tree("(x,a,b,(a,b));")
    res.notes.append(
        f"out of scope (repeated leaf names): binarize('(x,a,b,(a,b));') yields {len(binarize(t))} trees instead of "
        "15 - the arranged node (a,b) has the topology id of the ignored child (a,b), so graft does not enter it")
    t = Tree("((a)U,b,c)R;", format=1)
    names = sorted(binarize(t)[0].get_leaf_names())
    res.notes.append(
        f"out of scope (unary node): binarize('((a)U,b,c)R;') returns leaves {names} - the unary node's features "
        "overwrite those of its child, here the leaf name")


def corpus(ctx, res):
    out_of_scope_notes(res)
    # the tree of tests/utils/test_trees.py::test_binarize and stars
    t = {"a": None, "c": [{"a": None, "c": [{"a": None, "c": [0, 1]}, {"a": ann_code("P", None), "c": [2, 3, 4, 5]}, 6]}, 7]}
    stars = [{"a": ann_code("Q", "red"), "c": list(range(k))} for k in (2, 3, 4, 5)]
    check_binarize(ctx, res, [t] + stars)


def binarize_history(cases, pick):
    """call / edit-in-place / call on ONE tree object: `binarize(t)`, then an internal non-root node of t is
    collapsed in place (`node.delete()`: its children join its parent), then `binarize(t)` again; the second
    answer must be the refinements of the tree AS IT IS NOW.  Returns (case, None | what fails) for the first
    failing history."""
    for t in cases:
        tree = to_ete(t)
        inner = [n for n in tree.traverse() if not n.is_leaf() and not n.is_root()]
        if not inner:
            continue
        vi = None
        try:
            first = binarize(tree)
            first = [first] if isinstance(first, Tree) else list(first)
            vi = pick(len(inner))
            victim = inner[vi]
            victim.delete(prevent_nondicotomic=False)
            now = from_ete(tree)
            second = binarize(tree)
            second = [second] if isinstance(second, Tree) else list(second)
            got = sorted(canon_ete(r) for r in second)
        except Exception as e:  # noqa
            return ({"kind": "binarize-history", "tree": t, "victim": vi or 0},
                    f"binarize on an edited tree raised {type(e).__name__}: {e}")
        want = sorted(canon_nested(r) for r in refinements(now))
        if got != want:
            return ({"kind": "binarize-history", "tree": t, "after_edit": now, "victim": vi},
                    f"binarize called again after the same tree object was edited in place returns {len(got)} "
                    f"refinements; the tree as it is now has {len(want)} (first call: {len(first)})")
    return None, None


def run(ctx, res):
    hist = [t for t in enumerator_cases(ctx) if has_polytomy(t) or True][: ctx.budget(150, 1500)]
    case, bad = binarize_history(hist, lambda k: ctx.rng.randrange(k))
    # only trees with an internal non-root node have a history (the others are skipped by binarize_history)
    res.dist["binarize: call / edit in place / call histories"] += sum(
        1 for t in hist if isinstance(t, dict) and any(isinstance(c, dict) for c in t["c"]))
    if bad:
        res.violation(bad, case)
    check_graft(ctx, res)
    check_arrange(ctx, res)
    check_binarize(ctx, res, enumerator_cases(ctx))
    rng = ctx.rng
    n = ctx.budget(40, 300)
    cases = []
    for i in range(n):
        unordered = i % 2 == 1
        cases.append((multi_case(rng, unordered), "superdtl" if unordered else "ext_spfs"))
    run_solver_cases(ctx, res, cases)
    res.exhaustive = False  # the enumerator scopes are exhaustive over shapes (see RULE), the property as a whole is not


def shrink(ctx, violation):
    return violation


def replay(ctx, data):
    inp = data["input"]
    r = Result()
    kind = inp.get("kind")
    if kind == "binarize-history":
        _, bad = binarize_history([inp["tree"]], lambda k: min(inp.get("victim", 0), k - 1))
        return bad is None, ("ok: property holds on this history" if bad is None else "still fails: " + bad)
    if kind == "binarize":
        check_binarize(ctx, r, [inp["tree"]])
    elif kind in ("input", "solve"):
        check_input_binarize(ctx, r, inp["case"])
        if kind == "solve":
            check_end_to_end(ctx, r, inp["case"], inp["algo"])
    else:
        return True, "replay of arrange/graft cases: run ./check C08"
    ok = not r.concrete
    return ok, ("ok: property holds on this input" if ok else "still fails: " + r.concrete[0]["what"])
