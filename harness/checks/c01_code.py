"""C01 (deep tie) — the code-structured Lean model of `reconcile_thl`
(`lean/SRVerif/Model/ThlCode.lean`, driver op `c01_thlcode`) against the real
`_compute_thl_table` / `reconcile_thl`.

Compared per case, under the policy ALL:
  * the set of INSTANTIATED table entries, keyed by (pre-order index of the object node, species path);
  * the value of every entry;
  * the tags of every entry as a set of (left species, right species) pairs;
  * the result: cost and set of solutions.
Under the policy ANY (which optimal tag is kept depends on ete3's traversal order and on set iteration,
which the model fixes but does not claim): the same set of instantiated entries with the same values, at most
one tag per entry and that tag is one of the tags of the ALL table, one returned solution and it is a member
of the model's ALL result.  Any difference is `res.tie_broken`.

The model is proved (Properties/C01Code.lean) to return, under ALL, the same set of solutions as the model
`thl` of Model/Solvers.lean, cell by cell (same values, decoded sets = `sols`).

Call from harness/checks/c01.py:   `c01_code.run_code(ctx, res)`   (and `c01_code.corpus_code(ctx, res, CORPUS)`).
"""
from .. import solvers
from ..solvers import keys, lean_case
from ..sr import build_input, canon_solution, enc_cost, index_tree

TRUSTED = [
    "code-structured model of reconcile_thl: lean/SRVerif/Model/ThlCode.lean (table = finite map "
    "(object node, species) -> Entry with MappingInfo tags; proved to refine to the labelDP model `thl`)",
]


def real_table(case, policy):
    """The real `_compute_thl_table` output, canonicalised:
    {(object pre-order index, species path): (value, sorted list of [left, right] tags)} of the instantiated
    entries, and the real `reconcile_thl` result."""
    from superrec2.compute.reconciliation import _compute_thl_table, reconcile_thl
    from superrec2.utils.dynamic_programming import RetentionPolicy

    pol = getattr(RetentionPolicy, policy.upper())
    inp = build_input(case, force_plain=True)
    sfwd, _ = index_tree(inp.species_lca.tree)
    table = _compute_thl_table(inp, pol)
    cells = {}
    raw = table._table  # defaultdict(node -> defaultdict(species -> Entry | None))
    for i, node in enumerate(inp.object_tree.traverse("preorder")):
        row = raw.get(node)
        if row is None:
            continue
        for species, entry in list(row.items()):
            if entry is None:
                continue
            tags = sorted([sfwd[t.left], sfwd[t.right]] for t in entry.infos())
            cells[(i, sfwd[species])] = (enc_cost(entry.value()), tags)
    outs = list(reconcile_thl(inp, pol))
    costs = sorted({enc_cost(o.cost()) for o in outs}, key=str)
    sols = [canon_solution(o) for o in outs]
    return cells, (costs[0] if len(costs) == 1 else (None if not costs else costs)), sols


def model_cells(out):
    return {(c["o"], c["s"]): (c["v"], sorted(c["tags"])) for c in out["table"]}


def compare(res, case, m_all, m_any):
    """Compare one case; returns True when everything agrees."""
    ok = True
    try:
        cells, cost, sols = real_table(case, "all")
    except Exception as e:  # noqa
        res.tie_broken(f"thl code model: implementation raises {type(e).__name__}, model returns", case,
                       m_all["cost"], str(e)[:200])
        return False
    mc = model_cells(m_all)
    if set(cells) != set(mc):
        res.tie_broken("thl code model: set of instantiated table entries (ALL)", case,
                       sorted(set(mc) - set(cells))[:3], sorted(set(cells) - set(mc))[:3])
        ok = False
    else:
        bad_v = [k for k in cells if cells[k][0] != mc[k][0]]
        bad_t = [k for k in cells if cells[k][1] != mc[k][1]]
        if bad_v:
            k = bad_v[0]
            res.tie_broken(f"thl code model: table value at (object node, species) = {k}", case, mc[k][0],
                           cells[k][0])
            ok = False
        elif bad_t:
            k = bad_t[0]
            res.tie_broken(f"thl code model: table tags at (object node, species) = {k}", case, mc[k][1],
                           cells[k][1])
            ok = False
    if cost != m_all["cost"] or keys(sols) != keys(m_all["sols"]):
        res.tie_broken("thl code model: (cost, set of solutions) under 'all'", case,
                       {"cost": m_all["cost"], "n": len(m_all["sols"])}, {"cost": cost, "n": len(sols)})
        ok = False
    # ANY: values equal, at most one tag and it is an ALL tag, one solution among the ALL result
    try:
        acells, acost, asols = real_table(case, "any")
    except Exception as e:  # noqa
        res.tie_broken(f"thl code model: implementation (any) raises {type(e).__name__}", case, None, str(e)[:200])
        return False
    ma = model_cells(m_any)
    if {k: v[0] for k, v in acells.items()} != {k: v[0] for k, v in ma.items()}:
        res.tie_broken("thl code model: table values under 'any'", case)
        ok = False
    for k, (v, tags) in acells.items():
        if len(tags) > 1 or (k in mc and not all(t in mc[k][1] for t in tags)) or (bool(tags) != bool(mc.get(k, (0, []))[1])):
            res.tie_broken(f"thl code model: 'any' tags at {k} are not one of the 'all' tags", case,
                           mc.get(k), tags)
            ok = False
            break
    ka = keys(asols)
    # `any` is a member of `all` (and has its cost) only inside the coherent region (C05_any_mem_thl needs
    # spe <= dup + 2*floss; C05_any_incoherent_witness is a counterexample outside it, reproduced by the real
    # code) -- and this stream deliberately contains incoherent cost vectors.  Outside the region only the
    # cardinality / emptiness relations (C05_any_card_thl, C05_any_empty_iff_thl) are compared.
    from .. import gen
    coh = gen.coherent(solvers.full_costs(case), plain=True)
    if len(ka) > 1 or (not ka) != (not m_all["sols"]) \
            or (coh and (not set(ka) <= set(keys(m_all["sols"])) or (ka and acost != m_all["cost"]))):
        res.tie_broken("thl code model: 'any' result is not one member of the model's 'all' result", case,
                       {"n": len(m_all["sols"]), "cost": m_all["cost"]}, {"n": len(ka), "cost": acost})
        ok = False
    if len(m_any["sols"]) > 1 or (not m_any["sols"]) != (not m_all["sols"]) \
            or (coh and not set(keys(m_any["sols"])) <= set(keys(m_all["sols"]))):
        res.tie_broken("thl code model: the model's 'any' result is not one member of its 'all' result", case)
        ok = False
    return ok


def check_cases(ctx, res, cases):
    reqs = []
    for c in cases:
        lc = lean_case(c)
        reqs.append({"op": "c01_thlcode", "policy": "all", **lc})
        reqs.append({"op": "c01_thlcode", "policy": "any", **lc})
    outs = ctx.driver.parallel(reqs)
    for i, c in enumerate(cases):
        res.case({"case": c, "algo": "thl_code"}, solvers.nontrivial(c))
        res.dist["thl_code"] += 1
        compare(res, c, outs[2 * i], outs[2 * i + 1])


def cases_for(ctx):
    """Same generator as C01 (`solvers.plain_case`), plus incoherent cost vectors (the refinement to the
    labelDP model, and this tie, hold for every cost vector) and larger species trees; thorough: additionally
    every input up to 4x3 leaves on two cost vectors."""
    from .. import gen

    rng = ctx.rng
    out = []
    for _ in range(ctx.budget(250, 2500)):
        out.append(solvers.plain_case(ctx, rng))
    for _ in range(ctx.budget(80, 800)):
        c = solvers.plain_case(ctx, rng, max_o=6, max_s=7)
        c["costs"] = gen.rand_costs(rng, plain=True, coherent_only=False)
        out.append(c)
    if ctx.thorough or ctx.deep:
        # every input up to 4 object leaves x 3 species leaves, on two cost vectors (ties / infinite transfer)
        grid = [{"spe": 0, "dup": 1, "hgt": 1, "floss": 1}, {"spe": 1, "dup": 0, "hgt": "inf", "floss": 0}]
        for base in gen.exhaustive_plain_cases(4, 3):
            for g in grid:
                out.append({**base, "costs": dict(g)})
    return out


PROBES = [
    {"S": [[], []], "O": [{"s": "0"}, {"s": "1"}], "costs": {"spe": 0, "dup": 1, "hgt": 1, "floss": 1}},
    {"S": [[[], []], []], "O": [[{"s": "00"}, {"s": "1"}], {"s": "01"}],
     "costs": {"spe": 1, "dup": 1, "hgt": 1, "floss": 1}},
]


def available(ctx, res):
    """The table-level tie looks INSIDE the implementation (`_compute_thl_table` and the layout of its private
    table).  It is only meaningful while those internals still have the layout the model was written against.
    Self-test on fixed probe inputs: if the hook fails OR the canonicalised real table differs from the model's
    there (transposed / flattened / eagerly instantiated table, other tag type, ...), the internals were
    refactored: the tie is unavailable — a note, not an alarm; the public-API correspondence of the C01 check
    (solvers.tie) still decides, and a refactoring that changes what the solver RETURNS is caught there."""
    from ..common import Result

    try:
        reqs = []
        for c in PROBES:
            lc = lean_case(c)
            reqs += [{"op": "c01_thlcode", "policy": "all", **lc}, {"op": "c01_thlcode", "policy": "any", **lc}]
        outs = ctx.driver.parallel(reqs)
        scratch = Result()
        for i, c in enumerate(PROBES):
            compare(scratch, c, outs[2 * i], outs[2 * i + 1])
        if scratch.mismatch:
            raise RuntimeError("probe: " + scratch.mismatch[0]["relation"])
        return True
    except Exception as e:  # noqa
        res.notes.append(f"table-level tie (c01_code) unavailable: internals changed ({type(e).__name__}: {str(e)[:160]})")
        res.dist["code-table tie unavailable"] += 1
        return False


def run_code(ctx, res):
    if available(ctx, res):
        check_cases(ctx, res, cases_for(ctx))


def corpus_code(ctx, res, corpus):
    if available(ctx, res):
        check_cases(ctx, res, list(corpus))
