"""C03 (deep tie) — the structure-faithful Lean model of the unordered solvers
(lean/SRVerif/Model/UspfsCode.lean, driver op `c03_uspfscode`) against the real
`_compute_uspfs_table` / `_uspfs`.

For every generated case, both solvers (superdtl, base_uspfs) and both retention policies:

* the table VALUES `table[object][species][kind].value()` of the real `_compute_uspfs_table`, for every
  object node (pre-order index), every species and both kinds, equal the model's;
* under ALL also the TAG SETS (`infos()`, as pairs of (species path, kind)) of every cell are equal,
  and the result (cost, set of solutions) of the public solver equals the model's;
* under ANY the code may keep ANY optimal tag (which one depends on the order in which species and candidates
  are offered — an unspecified implementation detail), so the relation compared is the property's own:
  equal VALUES, at most one tag per cell and that tag is one of the tags of the model's ALL table, at most one
  returned solution, of the ALL cost, member of the model's ALL result, empty iff the ALL result is empty.

Any difference is a broken tie (`res.tie_broken`), never a violation: this module compares the
implementation with a model, the property itself is judged by c03.py.

Usage from c03.py:   from . import c03_code   …   c03_code.run_code(ctx, res)
"""
import contextlib
import io

from .. import solvers
from ..sr import build_input, index_tree, run_algo, solution_key

ALGOS = ("superdtl", "base_uspfs")
KINDS = ("LCA", "INHERIT")


def _enc(v):
    from infinity import is_infinite

    if is_infinite(v):
        return "inf" if v > 0 else "-inf"
    return int(v)


def real_table(case, algo, policy):
    """Rows [object pre-order index, species path, kind, value, sorted tags] of the real table."""
    from superrec2.compute import unordered_super_reconciliation as U
    from superrec2.compute.reconciliation import reconcile_lca
    from superrec2.utils.dynamic_programming import RetentionPolicy

    inp = build_input(case)
    pol = getattr(RetentionPolicy, policy.upper())
    if algo == "base_uspfs":
        rec = reconcile_lca(inp)
        allowed = lambda _, obj: [rec.object_species[obj]]
    else:
        allowed = lambda species, _: species.traverse("postorder")
    with contextlib.redirect_stderr(io.StringIO()):
        gain_sets = U._compute_gain_sets(inp)
        lca_sets = U._compute_lca_sets(inp, gain_sets)
        table = U._compute_uspfs_table(inp, lca_sets, allowed, pol)
    sfwd, _ = index_tree(inp.species_lca.tree)
    species = sorted(sfwd.items(), key=lambda kv: kv[1])  # any fixed order; rows are keyed
    kinds = {"LCA": U.SyntenyAssignment.LCA, "INHERIT": U.SyntenyAssignment.INHERIT}
    kname = {v: k for k, v in kinds.items()}
    rows = {}
    for i, node in enumerate(inp.object_tree.traverse("preorder")):
        for sp, spath in species:
            for kn in KINDS:
                entry = table[node][sp][kinds[kn]]
                tags = sorted(
                    [[sfwd[t.left.species], kname[t.left.synteny]], [sfwd[t.right.species], kname[t.right.synteny]]]
                    for t in entry.infos()
                )
                rows[(i, spath, kn)] = (_enc(entry.value()), tags)
    return rows


def model_rows(out):
    return {(r[0], r[1], r[2]): (r[3], sorted(r[4])) for r in out["table"]}


def compare(res, case, algo, policy, impl, real, model, model_all=None):
    """impl: run_algo result; real: real_table rows; model: driver output for `policy`;
    model_all: driver output for the policy ALL (needed for the membership relation under ANY)."""
    what = f"{algo}/{policy}"
    info = {"case": case, "algo": algo, "policy": policy}
    mrows = model_rows(model)
    if set(mrows) != set(real):
        res.tie_broken(f"c03_uspfscode {what}: table key sets differ", info, len(mrows), len(real))
        return False
    arows = model_rows(model_all) if (policy == "any" and model_all is not None) else None
    ok = True
    for key in sorted(real):
        rv, rt = real[key]
        mv, mt = mrows[key]
        if rv != mv:
            res.tie_broken(f"c03_uspfscode {what}: table value at (object #{key[0]}, species '{key[1]}', {key[2]})",
                           info, mv, rv)
            ok = False
            break
        if policy == "all":
            bad_tags = rt != mt
        else:
            # ANY: any one of the optimal tags (never compared by equality with the model's own pick)
            alltags = arows[key][1] if arows is not None else None
            bad_tags = len(rt) > 1 or (alltags is not None and
                                       (not all(t in alltags for t in rt) or bool(rt) != bool(alltags)))
            if alltags is not None and (len(mt) > 1 or not all(t in alltags for t in mt)):
                res.tie_broken(f"c03_uspfscode {what}: the model's 'any' tag is not among its 'all' tags", info, alltags, mt)
                ok = False
                break
        if bad_tags:
            res.tie_broken(f"c03_uspfscode {what}: table tags at (object #{key[0]}, species '{key[1]}', {key[2]})",
                           info, (mt if policy == "all" else alltags), rt)
            ok = False
            break
    if "err" in impl:
        res.tie_broken(f"c03_uspfscode {what}: implementation raises {impl['err']}", info,
                       model["cost"], impl.get("msg"))
        return False
    ki = sorted(solution_key(s) for s in impl["sols"])
    km = sorted(solution_key(s) for s in model["sols"])
    if policy == "all":
        if impl["cost"] != model["cost"] or ki != km:
            res.tie_broken(f"c03_uspfscode {what}: (cost, solutions) of the solver", info,
                           {"cost": model["cost"], "n": len(km)}, {"cost": impl["cost"], "n": len(ki)})
            ok = False
    elif model_all is not None:
        ka = set(solution_key(s) for s in model_all["sols"])
        # `any` is a member of `all` (and has its cost) only inside the coherent region (C05_code_any_mem_uspfs);
        # outside it only cardinality / emptiness are compared (as in c01_code / c02_code)
        from .. import gen
        coh = gen.coherent(solvers.full_costs(case), plain=False)
        if len(ki) > 1 or (not ki) != (not ka) \
                or (coh and (not set(ki) <= ka or (ki and impl["cost"] != model_all["cost"]))):
            res.tie_broken(f"c03_uspfscode {what}: 'any' result is not one member of the model's 'all' result", info,
                           {"cost": model_all["cost"], "n": len(ka)}, {"cost": impl["cost"], "n": len(ki)})
            ok = False
        if len(km) > 1 or (not km) != (not ka) or (coh and not set(km) <= ka):
            res.tie_broken(f"c03_uspfscode {what}: the model's 'any' result is not one member of its 'all' result", info)
            ok = False
    return ok


PROBES = [
    {"S": [[], []], "O": [{"s": "0", "f": [0]}, {"s": "1", "f": [0]}],
     "costs": {"spe": 0, "dup": 1, "hgt": 1, "floss": 1, "sloss": 1}},
    {"S": [[[], []], []], "O": [[{"s": "00", "f": [0, 1]}, {"s": "1", "f": [1]}], {"s": "01", "f": [0]}],
     "costs": {"spe": 1, "dup": 1, "hgt": 1, "floss": 1, "sloss": 1}},
]


def _compare_cases(ctx, res, cases, count=True):
    items = [(c, a, p) for c in cases for a in ALGOS for p in ("all", "any")]
    reqs = [{"op": "c03_uspfscode", "algo": a, "policy": p, **solvers.lean_case(c)} for c, a, p in items]
    outs = ctx.driver.parallel(reqs)
    last_all = None
    for (case, algo, policy), model in zip(items, outs):
        if policy == "all":
            last_all = model
        impl = solvers.strip(run_algo(case, algo, policy))
        real = real_table(case, algo, policy)
        ok = compare(res, case, algo, policy, impl, real, model, last_all)
        if not count:
            continue
        finite = sum(1 for v, _ in real.values() if v != "inf")
        multi = sum(1 for _, t in real.values() if len(t) > 1)
        res.case({"case": case, "algo": algo, "policy": policy, "deep": True},
                 nontrivial=solvers.nontrivial(case) and finite > 2)
        res.dist["code-table " + policy + (" ok" if ok else " MISMATCH")] += 1
        res.dist["code-table cells finite"] += finite
        if policy == "all":
            res.dist["code-table cells with >=2 tags"] += multi


def run_code(ctx, res, quick=150, thorough=1500):
    """Deep tie of the code-structured model; call from c03.run after the main stream."""
    # The tie looks INSIDE the implementation (`_compute_gain_sets`, `_compute_lca_sets`, `_compute_uspfs_table`
    # and the layout of its private table).  Self-test on fixed probe inputs: if the hooks fail OR the
    # canonicalised real table differs from the model's there, the internals were refactored -> unavailable:
    # a note, not an alarm (the public-API correspondence of the C03 check still decides).
    from ..common import Result

    try:
        scratch = Result()
        _compare_cases(ctx, scratch, PROBES, count=False)
        if scratch.mismatch:
            raise RuntimeError("probe: " + scratch.mismatch[0]["relation"])
    except Exception as e:  # noqa
        res.notes.append(f"table-level tie (c03_code) unavailable: internals changed ({type(e).__name__}: {str(e)[:160]})")
        res.dist["code-table tie unavailable"] += 1
        return
    n = ctx.budget(quick, thorough)
    cases = [solvers.unordered_case(ctx, ctx.rng, 5, 4, 4) for _ in range(n)]
    # incoherent cost vectors too: `C03_code_refines` and the table theorems hold for EVERY cost vector
    from .. import gen
    for _ in range(n // 3):
        c = solvers.unordered_case(ctx, ctx.rng, 5, 4, 4)
        c["costs"] = gen.rand_costs(ctx.rng, plain=False, coherent_only=False)
        cases.append(c)
    _compare_cases(ctx, res, cases)
