"""C03 (deep tie) — the structure-faithful Lean model of the unordered solvers
(lean/SRVerif/Model/UspfsCode.lean, driver op `c03_uspfscode`) against the real
`_compute_uspfs_table` / `_uspfs`.

For every generated case, both solvers (superdtl, base_uspfs) and both retention policies:

* the table VALUES `table[object][species][kind].value()` of the real `_compute_uspfs_table`, for every
  object node (pre-order index), every species and both kinds, equal the model's;
* under ALL also the TAG SETS (`infos()`, as pairs of (species path, kind)) of every cell are equal,
  and the result (cost, set of solutions) of the public solver equals the model's;
* under ANY the model follows the code's offering order (level-order species traversal, candidates in
  source order; every entry holds at most one tag, so no set iteration order is involved): the single
  tag of every cell and the single returned solution are compared for equality as well.

Any difference is a broken tie (`res.tie_broken`), never a violation: this module compares the
implementation with a model, the property itself is judged by c03.py.

Usage from c03.py:   from . import c03_code   …   c03_code.run_code(ctx, res)
"""
import contextlib
import io

from .. import solvers
from ..sr import build_input, index_tree, run_algo, solution_key

ALGOS = ("superdtl", "base_uspfs")
KINDS = ("LCA", "INHERIT")


def _enc(v):
    from infinity import is_infinite

    if is_infinite(v):
        return "inf" if v > 0 else "-inf"
    return int(v)


def real_table(case, algo, policy):
    """Rows [object pre-order index, species path, kind, value, sorted tags] of the real table."""
    from superrec2.compute import unordered_super_reconciliation as U
    from superrec2.compute.reconciliation import reconcile_lca
    from superrec2.utils.dynamic_programming import RetentionPolicy

    inp = build_input(case)
    pol = getattr(RetentionPolicy, policy.upper())
    if algo == "base_uspfs":
        rec = reconcile_lca(inp)
        allowed = lambda _, obj: [rec.object_species[obj]]
    else:
        allowed = lambda species, _: species.traverse("postorder")
    with contextlib.redirect_stderr(io.StringIO()):
        gain_sets = U._compute_gain_sets(inp)
        lca_sets = U._compute_lca_sets(inp, gain_sets)
        table = U._compute_uspfs_table(inp, lca_sets, allowed, pol)
    sfwd, _ = index_tree(inp.species_lca.tree)
    species = sorted(sfwd.items(), key=lambda kv: kv[1])  # any fixed order; rows are keyed
    kinds = {"LCA": U.SyntenyAssignment.LCA, "INHERIT": U.SyntenyAssignment.INHERIT}
    kname = {v: k for k, v in kinds.items()}
    rows = {}
    for i, node in enumerate(inp.object_tree.traverse("preorder")):
        for sp, spath in species:
            for kn in KINDS:
                entry = table[node][sp][kinds[kn]]
                tags = sorted(
                    [[sfwd[t.left.species], kname[t.left.synteny]], [sfwd[t.right.species], kname[t.right.synteny]]]
                    for t in entry.infos()
                )
                rows[(i, spath, kn)] = (_enc(entry.value()), tags)
    return rows


def model_rows(out):
    return {(r[0], r[1], r[2]): (r[3], sorted(r[4])) for r in out["table"]}


def compare(res, case, algo, policy, impl, real, model):
    """impl: run_algo result; real: real_table rows; model: driver output."""
    what = f"{algo}/{policy}"
    mrows = model_rows(model)
    if set(mrows) != set(real):
        res.tie_broken(f"c03_uspfscode {what}: table key sets differ", {"case": case, "algo": algo, "policy": policy},
                       len(mrows), len(real))
        return False
    ok = True
    for key in sorted(real):
        rv, rt = real[key]
        mv, mt = mrows[key]
        if rv != mv:
            res.tie_broken(f"c03_uspfscode {what}: table value at (object #{key[0]}, species '{key[1]}', {key[2]})",
                           {"case": case, "algo": algo, "policy": policy}, mv, rv)
            ok = False
            break
        if rt != mt:
            res.tie_broken(f"c03_uspfscode {what}: table tags at (object #{key[0]}, species '{key[1]}', {key[2]})",
                           {"case": case, "algo": algo, "policy": policy}, mt, rt)
            ok = False
            break
    if "err" in impl:
        res.tie_broken(f"c03_uspfscode {what}: implementation raises {impl['err']}", {"case": case, "algo": algo, "policy": policy},
                       model["cost"], impl.get("msg"))
        return False
    ki = sorted(solution_key(s) for s in impl["sols"])
    km = sorted(solution_key(s) for s in model["sols"])
    if impl["cost"] != model["cost"] or ki != km:
        res.tie_broken(f"c03_uspfscode {what}: (cost, solutions) of the solver", {"case": case, "algo": algo, "policy": policy},
                       {"cost": model["cost"], "n": len(km)}, {"cost": impl["cost"], "n": len(ki)})
        ok = False
    return ok


def run_code(ctx, res, quick=150, thorough=1500):
    """Deep tie of the code-structured model; call from c03.run after the main stream."""
    # The tie looks INSIDE the implementation (`_compute_gain_sets`, `_compute_lca_sets`, `_compute_uspfs_table`
    # and the table's layout).  Refactored away -> unavailable: a note, not an alarm (the public-API
    # correspondence of the C03 check still decides).
    try:
        real_table({"S": [[], []], "O": [{"s": "0", "f": [0]}, {"s": "1", "f": [0]}],
                    "costs": {"spe": 0, "dup": 1, "hgt": 1, "floss": 1, "sloss": 1}}, "superdtl", "all")
    except Exception as e:  # noqa
        res.notes.append(f"table-level tie (c03_code) unavailable: internals changed ({type(e).__name__}: {str(e)[:120]})")
        res.dist["code-table tie unavailable"] += 1
        return
    n = ctx.budget(quick, thorough)
    cases = [solvers.unordered_case(ctx, ctx.rng, 5, 4, 4) for _ in range(n)]
    items = [(c, a, p) for c in cases for a in ALGOS for p in ("all", "any")]
    reqs = [{"op": "c03_uspfscode", "algo": a, "policy": p, **solvers.lean_case(c)} for c, a, p in items]
    outs = ctx.driver.parallel(reqs)
    for (case, algo, policy), model in zip(items, outs):
        impl = solvers.strip(run_algo(case, algo, policy))
        real = real_table(case, algo, policy)
        ok = compare(res, case, algo, policy, impl, real, model)
        finite = sum(1 for v, _ in real.values() if v != "inf")
        multi = sum(1 for _, t in real.values() if len(t) > 1)
        res.case({"case": case, "algo": algo, "policy": policy, "deep": True},
                 nontrivial=solvers.nontrivial(case) and finite > 2)
        res.dist["code-table " + policy + (" ok" if ok else " MISMATCH")] += 1
        res.dist["code-table cells finite"] += finite
        if policy == "all":
            res.dist["code-table cells with >=2 tags"] += multi
