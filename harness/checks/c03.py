"""C03 — Unordered super-reconciliation (SuperDTL) returns a minimum-cost solution."""
from .. import solvers
from ._solver_check import make

ID = "C03"
RULE = (
    "binary inputs with unordered leaf syntenies up to 5 object leaves x 4 species leaves x 4 families, coherent "
    "cost vectors (sloss = 0, boundary, infinite transfer cost over-sampled); usreconcile_extended_uspfs / "
    "usreconcile_base_uspfs under both policies vs the Lean model (same solution set) and the Lean specification: "
    "validity and cost = minimum over all species mappings and EVERY labelling between the required content and "
    "the content allowed by the gain nodes (not only the two canonical choices the solver searches).  Thorough: "
    "additionally EVERY input up to 4 object leaves x 2 species leaves x 2 families and up to 3 object leaves x 2 "
    "species leaves x 3 families (every leaf assignment, every non-empty family subset per leaf) on two resp. one cost vectors.  "
    "Non-trivial = at least 3 object leaves and 2 species."
)
TRUSTED = [
    "models: lean/SRVerif/Model/{Rec,LabelDP,Solvers}.lean; specification: lean/SRVerif/Spec/Opt.lean",
]
ASSUMPTIONS = ["coherent cost vectors; leaf syntenies non-empty with distinct families"]
OPEN = []  # C03_guarded_statement, oracle adequacy (C03Spec), exchange argument (C03Full), code-structured model (C03Code): proved

CORPUS = [
    # fixed: F-USPFS-ALIAS
    {"S": [[[], []], []],
     "O": [[{"s": "1", "f": [1, 2, 3]}, {"s": "01", "f": [1, 3]}],
           [{"s": "1", "f": [1, 3]}, [{"s": "00", "f": [0, 1]}, {"s": "00", "f": [0, 1, 2]}]]],
     "costs": {"spe": 0, "dup": 1, "hgt": 0, "floss": 1, "sloss": 1}},
    {"S": [], "O": {"s": "", "f": [0, 1]}},
]

EXH_COSTS = [
    {"spe": 0, "dup": 1, "hgt": 1, "floss": 1, "sloss": 1},
    {"spe": 2, "dup": 0, "hgt": 0, "floss": 1, "sloss": 0},      # boundary of the coherent region, sloss = 0
    {"spe": 1, "dup": 1, "hgt": "inf", "floss": 1, "sloss": 1},  # boundary, no transfer
]


def _exhaustive():
    from .. import gen

    for scope, grid in (((4, 2, 2), EXH_COSTS[:2]), ((3, 2, 3), EXH_COSTS[2:])):
        for base in gen.exhaustive_labelled_cases(*scope, ordered=False):
            for g in grid:
                yield {**base, "costs": dict(g)}


corpus, run, shrink, replay = make(
    ID, ["superdtl", "base_uspfs"],
    [(lambda ctx, rng: solvers.unordered_case(ctx, rng, 5, 4, 4), 1.0)],
    lambda res, r: solvers.judge_optimal(res, r, ID),
    quick=1200, thorough=8000, corpus_cases=CORPUS, known_algos=["superdtl"], exhaustive=_exhaustive,
)


from . import c03_code  # noqa: E402

TRUSTED = list(globals().get("TRUSTED", [])) + [
    "lean/SRVerif/Model/UspfsCode.lean (code-structured model of _compute_uspfs_table / _decode_uspfs_table; proved to "
    "return the same set as Solvers.uspfs in Properties/C03Code.lean; tied cell by cell — values and tag sets at every "
    "(object, species, kind) — to the real table by checks/c03_code.py)",
]
_run_main = run


def run(ctx, res):
    _run_main(ctx, res)
    c03_code.run_code(ctx, res)
