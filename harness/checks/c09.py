"""C09 — Results do not depend on presentation and respond sanely to the costs."""
import copy
import json
import os
import subprocess
import sys

from .. import gen, solvers
from ..common import VERIF, Result
from ..solvers import MODE, keys, lean_case
from ..sr import run_algo, solution_key

from .. import sr as _sr  # noqa: E402

ID = "C09"
RULE = (
    "random binary inputs (quick: up to 7 object leaves / 5 species / 3 families; thorough: up to 10 / 8 / 4) with "
    "coherent cost vectors before and after each change; for thl, ext_spfs, superdtl and the base variants the real "
    "solver is run under 'all' on the input and on its metamorphic variants: children of one object node swapped, "
    "children of one species swapped, all nodes and families renamed (names permuted / reversed sort order), an "
    "empty outgroup species added above the root, the same call repeated, all unit costs multiplied by k in {2,3}, "
    "one unit cost raised (staying coherent).  Each variant's canonical result (mapped back through the swap / "
    "renaming) must equal the original's (outgroup: restricted to the original species unless floss > 0; scaling: "
    "cost times k, same set; raising: cost not lower), and the original's must equal the Lean model's (tie).  The "
    "thorough tier repeats a sample in fresh processes under different PYTHONHASHSEED values.  Non-trivial = at "
    "least 3 object leaves and 2 species; distinct = distinct (input, algorithm)."
)
TRUSTED = ["models: lean/SRVerif/Model/{Rec,LabelDP,Solvers}.lean (single model result per input)"]
ASSUMPTIONS = [
    "cost vectors inside the coherent region before and after each change",
    "outgroup clause: with floss = 0 extra co-optimal solutions using the new species are legitimate (DESIGN 7 C09)",
]
OPEN = [
    "renaming and re-running are runtime facts (name-keyed dicts, hash order): no pure model can express them; "
    "decided by this check through metamorphic runs (exploration)",
]

ALGOS = ["thl", "ext_spfs", "base_spfs", "superdtl", "base_uspfs"]
MAX_SET = 400


def algos_for(case):
    has = any("f" in l for _, l in solvers._leaves(case["O"]))
    out = [a for a in ALGOS if has or MODE[a] == "plain"]
    if case.get("only") == "unordered":
        out = [a for a in out if MODE[a] != "ordered"]
    return out


# ---- variants -------------------------------------------------------------

def internal_paths(t, p=""):
    if isinstance(t, dict) or not t:
        return []
    out = [p]
    for i, c in enumerate(t):
        out += internal_paths(c, p + str(i))
    return out


def swap_at(t, path):
    t = copy.deepcopy(t)
    node = t
    for ch in path:
        node = node[int(ch)]
    node[0], node[1] = node[1], node[0]
    return t


def swap_path(p, at):
    """Image of path p when the children of node `at` are exchanged."""
    if p.startswith(at) and len(p) > len(at):
        i = len(at)
        return p[:i] + ("1" if p[i] == "0" else "0") + p[i + 1 :]
    return p


def map_sol(sol, fs=None, fo=None, path=""):
    """Apply a species-path map fs; fo = object path where children must be exchanged back."""
    d = dict(sol)
    if fs:
        d["s"] = fs(sol["s"])
    if "c" in sol:
        ch = [map_sol(c, fs, fo, path + str(i)) for i, c in enumerate(sol["c"])]
        if fo is not None and path == fo:
            # children were stored in swapped order: after recursion paths below refer to the variant
            ch = [ch[1], ch[0]]
        d["c"] = ch
    return d


def swap_sol_children(sol, at, path=""):
    d = dict(sol)
    if "c" in sol:
        ch = sol["c"]
        if path == at:
            ch = [ch[1], ch[0]]
            # below the swap point the remaining recursion follows the ORIGINAL child order
            d["c"] = [swap_sol_children(c, None, "") for c in ch]
            return d
        d["c"] = [swap_sol_children(c, at, path + str(i)) for i, c in enumerate(ch)]
    return d


def variant_object_swap(case, rng):
    ps = internal_paths(case["O"])
    if not ps:
        return None
    at = rng.choice(ps)
    v = copy.deepcopy(case)
    v["O"] = swap_at(case["O"], at)
    # back-map: exchange the children of the solution at `at`
    return v, (lambda sol: swap_sol_children(sol, at)), f"object children swapped at '{at}'"


def variant_species_swap(case, rng):
    ps = internal_paths(case["S"])
    if not ps:
        return None
    at = rng.choice(ps)
    v = copy.deepcopy(case)
    v["S"] = swap_at(case["S"], at)

    def remap(O):
        if isinstance(O, dict):
            d = dict(O)
            d["s"] = swap_path(O["s"], at)
            return d
        return [remap(c) for c in O]

    v["O"] = remap(case["O"])
    return v, (lambda sol: map_sol(sol, fs=lambda p: swap_path(p, at))), f"species children swapped at '{at}'"


def variant_outgroup(case, rng):
    v = copy.deepcopy(case)
    v["S"] = [case["S"], []]

    def remap(O):
        if isinstance(O, dict):
            d = dict(O)
            d["s"] = "0" + O["s"]
            return d
        return [remap(c) for c in O]

    v["O"] = remap(case["O"])
    return v, None, "empty outgroup species added"


def uses_new_species(sol):
    if not sol["s"].startswith("0"):
        return True
    return any(uses_new_species(c) for c in sol.get("c", []))


def strip_outgroup(sol):
    d = dict(sol)
    d["s"] = sol["s"][1:]
    if "c" in sol:
        d["c"] = [strip_outgroup(c) for c in sol["c"]]
    return d


def rename_kwargs(rng):
    """Bijective renaming of species, object nodes and families (also reversing sort orders)."""
    salt = rng.randint(0, 10**6)
    letters = "zyxwvutsrqponmlkjihgfedcba"

    def sname(path):
        return "n" + "".join("q" if ch == "0" else "b" for ch in path) + f"x{salt % 7}"

    def oname(path, leaf=None):
        base = "g" + "".join("k" if ch == "0" else "a" for ch in path)
        return f"{leaf}_{base}" if leaf is not None else base + "i"

    multi = rng.random() < 0.5

    def fname(i):
        # one-letter names in reversed order, or multi-character names built afresh at every occurrence (equal
        # strings, distinct objects) whose string order ('fam10' < 'fam9') differs from their numeric order
        return ("fam%d" % (i + 8)) if multi else letters[i]

    def fidx(name):
        return int(name[3:]) - 8 if multi else letters.index(name)

    return {"sname": sname, "oname": oname, "fname": fname}, fidx


def run_named(case, algo, kw, fidx):
    """run_algo with renamed nodes/families; canonical form maps families back through fidx."""
    import contextlib
    import io

    from superrec2.utils.dynamic_programming import RetentionPolicy

    from ..sr import PLAIN, algorithms, build_input, canon_solution, enc_cost

    inp = build_input(case, force_plain=(algo in PLAIN), **kw)
    try:
        with _sr.watchdog(), contextlib.redirect_stderr(io.StringIO()):
            outs = list(algorithms()[algo](inp, RetentionPolicy.ALL))
        costs = sorted({enc_cost(o.cost()) for o in outs}, key=str)
        sols = sorted((canon_solution(o, fidx=fidx) for o in outs), key=solution_key)
    except _sr.SolverTimeout:
        _sr.TIMED_OUT.append((algo, 'all'))
        return {"err": "Timeout"}
    except Exception as e:  # noqa
        return {"err": type(e).__name__}
    return {"cost": costs[0] if len(costs) == 1 else (None if not costs else costs), "sols": sols}


def run_same_object_twice(case, algo):
    """'Running the computation again' on the SAME input object (run_algo builds a fresh, equal input for every
    call, so state kept on or keyed by the input object - caches, consumed iterators, in-place normalisation -
    never shows there).  Returns the canonical results of the first and of the second call."""
    import contextlib
    import io

    from superrec2.utils.dynamic_programming import RetentionPolicy

    from ..sr import PLAIN, algorithms, build_input, canon_solution, enc_cost

    inp = build_input(case, force_plain=(algo in PLAIN))
    outs = []
    for _ in range(2):
        try:
            with _sr.watchdog(), contextlib.redirect_stderr(io.StringIO()):
                rs = list(algorithms()[algo](inp, RetentionPolicy.ALL))
            costs = sorted({enc_cost(o.cost()) for o in rs}, key=str)
            sols = sorted((canon_solution(o) for o in rs), key=solution_key)
        except _sr.SolverTimeout:
            _sr.TIMED_OUT.append((algo, "all"))
            outs.append({"err": "Timeout"})
            continue
        except Exception as e:  # noqa
            outs.append({"err": type(e).__name__})
            continue
        outs.append({"cost": costs[0] if len(costs) == 1 else (None if not costs else costs), "sols": sols})
    return outs


def run_inplace_costs(case, other_costs, algo, policy="all"):
    """Histories on ONE input object: solve, change `inp.costs` IN PLACE (as the package's own tests do), solve,
    change back, solve.  Returns the three canonical results.  State keyed by the input object (a memoised table,
    a cached cost lookup) shows here and nowhere else."""
    import contextlib
    import io

    from superrec2.utils.dynamic_programming import RetentionPolicy

    from ..sr import PLAIN, algorithms, build_input, canon_solution, costs_of, enc_cost

    inp = build_input(case, force_plain=(algo in PLAIN))
    original = dict(inp.costs)
    changed = costs_of({"costs": other_costs})
    outs = []
    for costs in (original, changed, original):
        inp.costs.clear()
        inp.costs.update(costs)
        try:
            with _sr.watchdog(), contextlib.redirect_stderr(io.StringIO()):
                rs = list(algorithms()[algo](inp, getattr(RetentionPolicy, policy.upper())))
            cs = sorted({enc_cost(o.cost()) for o in rs}, key=str)
            sols = sorted((canon_solution(o) for o in rs), key=solution_key)
        except _sr.SolverTimeout:
            _sr.TIMED_OUT.append((algo, "all"))
            outs.append({"err": "Timeout"})
            continue
        except Exception as e:  # noqa
            outs.append({"err": type(e).__name__})
            continue
        outs.append({"cost": cs[0] if len(cs) == 1 else (None if not cs else cs), "sols": sols})
    return outs


def scaled(case, k):
    v = copy.deepcopy(case)
    c = solvers.full_costs(case)
    v["costs"] = {x: (y if y == "inf" else y * k) for x, y in c.items()}
    return v


def raised(case, rng, plain):
    c = solvers.full_costs(case)
    for _ in range(20):
        k = rng.choice(["spe", "dup", "hgt", "floss", "sloss"])
        d = dict(c)
        if d[k] == "inf":
            continue
        d[k] = d[k] + rng.randint(1, 2)
        if rng.random() < 0.1 and k == "hgt":
            d[k] = "inf"
        if gen.coherent(d, plain=plain):
            v = copy.deepcopy(case)
            v["costs"] = d
            return v, k
    return None, None


def num(c):
    return float("inf") if c == "inf" else c


# ---- the check ------------------------------------------------------------

def check_case(ctx, res, case, model_out):
    rng = ctx.rng
    for algo in algos_for(case):
        info = {"case": case, "algo": algo}
        base = solvers.strip(run_algo(case, algo, "all"))
        res.case(info, solvers.nontrivial(case))
        solvers.describe(res, case, algo)
        if "err" in base or isinstance(base["cost"], list):
            res.notes.append(f"{algo}: no single result on the base input ({base.get('err')}); C01-C03 decide that")
            continue
        kb = keys(base["sols"])
        big = len(kb) > MAX_SET
        m = model_out[algo]
        if m["cost"] != base["cost"] or (not big and keys(m["sols"]) != kb):
            res.tie_broken(f"{algo}: result on the base input vs model", case,
                           {"cost": m["cost"], "n": len(m["sols"])}, {"cost": base["cost"], "n": len(kb)})

        def same(v, back, what):
            out = solvers.strip(run_algo(v, algo, "all")) if not isinstance(v, dict) or "S" in v else v
            if "err" in out:
                res.violation(f"{algo}: fails after '{what}': {out['err']}", {**info, "variant": what})
                return False
            if out["cost"] != base["cost"]:
                res.violation(f"{algo}: minimum cost changes from {base['cost']} to {out['cost']} when {what}",
                              {**info, "variant": what}, expected=base["cost"], observed=out["cost"])
                return False
            if not big:
                ko = keys([back(s) for s in out["sols"]] if back else out["sols"])
                if ko != kb:
                    res.violation(
                        f"{algo}: set of optimal solutions changes ({len(kb)} -> {len(ko)}) when {what}",
                        {**info, "variant": what})
                    return False
            return True

        for make in (variant_object_swap, variant_species_swap):
            got = make(case, rng)
            if got:
                v, back, what = got
                if not same(v, back, what):
                    return
        # renaming
        kw, fidx = rename_kwargs(rng)
        out = run_named(case, algo, kw, fidx)
        if not same(out, None, "nodes and families renamed"):
            return
        # repetition in the same process
        if not same(solvers.strip(run_algo(case, algo, "all")), None, "the computation is run again"):
            return
        # repetition on the same input object (both calls must give the base result)
        first, second = run_same_object_twice(case, algo)
        if not same(first, None, "the computation is run on a second, equal input object"):
            return
        if not same(second, None, "the computation is run again on the same input object"):
            return
        # the costs of the SAME input object changed in place, and changed back (histories)
        if rng.random() < 0.5:
            plain = MODE[algo] == "plain"
            other = gen.rand_costs(rng, plain=plain)
            if rng.random() < 0.3:
                other["hgt"] = "inf"
            if rng.random() < 0.3:
                other["floss"] = 0
                if not gen.coherent(other, plain):
                    other["spe"] = 0
                    other["sloss"] = 0
            v2 = copy.deepcopy(case)
            v2["costs"] = other
            if gen.coherent(solvers.full_costs(v2), plain):
                for pol in ("all", "any"):
                    r1, r2, r3 = run_inplace_costs(case, solvers.full_costs(v2), algo, pol)
                    fresh2 = solvers.strip(run_algo(v2, algo, pol))
                    fresh1 = base if pol == "all" else solvers.strip(run_algo(case, algo, pol))
                    for got, want, what in ((r1, fresh1, "first call on the object"),
                                            (r2, fresh2, "costs of the input object changed in place"),
                                            (r3, fresh1, "costs of the input object changed back in place")):
                        if "err" in got or "err" in want:
                            if ("err" in got) != ("err" in want):
                                res.violation(f"{algo} ({pol}): {what}: {got.get('err')} vs a fresh input {want.get('err')}",
                                              {**info, "variant": what, "other_costs": other})
                                return
                            continue
                        if got["cost"] != want["cost"] or (pol == "all" and keys(got["sols"]) != keys(want["sols"])):
                            res.violation(
                                f"{algo} ({pol}): after '{what}' the result (cost {got['cost']}, {len(got['sols'])} "
                                f"solutions) differs from a fresh input with the same costs (cost {want['cost']}, "
                                f"{len(want['sols'])} solutions)", {**info, "variant": what, "other_costs": other})
                            return
                res.dist["in-place cost change on one input object"] += 1
        # outgroup
        v, _, what = variant_outgroup(case, rng)
        out = solvers.strip(run_algo(v, algo, "all"))
        if "err" in out:
            res.violation(f"{algo}: fails after '{what}': {out['err']}", {**info, "variant": what})
            return
        if out["cost"] != base["cost"]:
            res.violation(f"{algo}: minimum cost changes from {base['cost']} to {out['cost']} when {what}",
                          {**info, "variant": what})
            return
        if not big and len(out["sols"]) <= 4 * MAX_SET:
            old = [strip_outgroup(s) for s in out["sols"] if not uses_new_species(s)]
            extra = [s for s in out["sols"] if uses_new_species(s)]
            if keys(old) != kb:
                res.violation(f"{algo}: optimal solutions on the original species change when {what}",
                              {**info, "variant": what})
                return
            if extra and solvers.full_costs(case)["floss"] > 0:
                res.violation(f"{algo}: an optimal solution uses the empty outgroup although losses cost > 0",
                              {**info, "variant": what}, observed=extra[0])
                return
        # scaling
        k = rng.choice([2, 3])
        out = solvers.strip(run_algo(scaled(case, k), algo, "all"))
        if "err" in out:
            res.violation(f"{algo}: fails after scaling the costs: {out['err']}", {**info, "variant": f"x{k}"})
            return
        if base["sols"] and num(out["cost"]) != k * num(base["cost"]):
            res.violation(f"{algo}: costs x{k} but minimum {base['cost']} -> {out['cost']}",
                          {**info, "variant": f"costs x{k}"})
            return
        if not big and keys(out["sols"]) != kb:
            res.violation(f"{algo}: optimal set changes when all costs are multiplied by {k}",
                          {**info, "variant": f"costs x{k}"})
            return
        # monotonicity
        v, which = raised(case, rng, plain=(MODE[algo] == "plain"))
        if v:
            out = solvers.strip(run_algo(v, algo, "any"))
            if "err" not in out and out["sols"] and base["sols"] and num(out["cost"]) < num(base["cost"]):
                res.violation(f"{algo}: raising {which} lowers the minimum from {base['cost']} to {out['cost']}",
                              {**info, "variant": f"raise {which}", "costs2": v["costs"]})
                return


def gen_case(ctx, rng):
    big = ctx.thorough or ctx.deep
    k = rng.random()
    mo, ms, mf = (10, 8, 4) if big and rng.random() < 0.25 else (7, 5, 3) if rng.random() < 0.4 else (5, 4, 3)
    if k < 0.08:
        # two internal INHERIT siblings with a private gain and tie-prone costs: the inputs on which the order of
        # children / of set iteration can leak into the decoded labellings of the unordered solvers
        return gen.sibling_inherit_case(rng, small=True)
    if k < 0.3:
        return gen.rand_case(rng, mo, ms, 0, plain=True)
    if k < 0.65:
        c = gen.rand_case(rng, min(mo, 6), ms, rng.randint(1, mf), plain=False)
        return c
    return gen.rand_case(rng, mo, ms, rng.randint(1, mf), plain=False, unordered=True)


def tame(case):
    """Avoid zero-cost inputs whose optimal sets explode on larger trees."""
    n = sum(1 for _ in solvers._leaves(case["O"]))
    c = solvers.full_costs(case)
    zeros = sum(1 for k in ("spe", "dup", "floss", "sloss", "hgt") if c[k] == 0)
    return n <= 5 or zeros <= 1


def run_cases(ctx, res, cases):
    reqs = []
    for c in cases:
        for a in algos_for(c):
            reqs.append({"op": "solve", "algo": a, **lean_case(c)})
    outs = iter(ctx.driver.parallel(reqs))
    for c in cases:
        if _sr.TIMED_OUT:
            res.notes.append("a solver call did not return within the watchdog (sr.SOLVER_TIMEOUT): the remaining cases "
                             "were not run; C01-C03 report the failure itself")
            break
        model_out = {a: next(outs) for a in algos_for(c)}
        check_case(ctx, res, c, model_out)


def fresh_process(ctx, res, cases):
    """Determinism across processes and hash seeds (thorough tier)."""
    script = (
        "import sys, json; sys.path.insert(0, %r)\n"
        "from harness.common import setup_repo_path; setup_repo_path()\n"
        "from harness.sr import run_algo\nfrom harness.solvers import strip, keys\n"
        "for line in sys.stdin:\n"
        "    c, a = json.loads(line)\n"
        "    r = strip(run_algo(c, a, 'all'))\n"
        "    print(json.dumps([r.get('cost'), keys(r.get('sols', [])), r.get('err')]))\n"
    ) % str(VERIF)
    items = [(c, a) for c in cases for a in algos_for(c)]
    data = "\n".join(json.dumps(i) for i in items) + "\n"
    results = []
    for hs in ("1", "424242"):
        env = dict(os.environ, PYTHONHASHSEED=hs)
        p = subprocess.run([sys.executable, "-c", script], input=data, capture_output=True, text=True,
                           env=env, timeout=3000)
        if p.returncode != 0:
            # the helper process itself failed (solver exceptions are caught inside run_algo): nothing was learnt
            from ..common import Infra

            raise Infra("fresh-process run failed: " + p.stderr[-600:])
        results.append(p.stdout.splitlines())
    for (c, a), l1, l2 in zip(items, *results):
        res.case({"case": c, "algo": a, "fresh": True}, solvers.nontrivial(c))
        # third witness: this process (its own hash seed, and everything the earlier cases left behind)
        r = solvers.strip(run_algo(c, a, "all"))
        here = json.dumps([r.get("cost"), keys(r.get("sols", [])), r.get("err")])
        if l1 != l2 or l1 != here:
            res.violation(f"{a}: results differ between processes with different hash seeds",
                          {"case": c, "algo": a, "variant": "PYTHONHASHSEED"})


def run(ctx, res):
    rng = ctx.rng
    cases = []
    n = ctx.budget(260, 1500)
    while len(cases) < n:
        c = gen_case(ctx, rng)
        if tame(c):
            cases.append(c)
    run_cases(ctx, res, cases)
    # determinism across processes / hash seeds: the set-iteration-sensitive inputs first (sibling-inherit cases,
    # unordered solvers), a small sample in the quick tier, more in the thorough one
    order = sorted(range(len(cases)), key=lambda i: (cases[i].get("only") != "unordered", i))
    if _sr.TIMED_OUT:
        return
    fresh_process(ctx, res, [cases[i] for i in order[: (80 if ctx.thorough else 24)]])


def shrink(ctx, violation):
    return violation


def replay(ctx, data):
    if "other_costs" in data["input"]:
        # the in-place history clause: the recorded cost change is replayed (check_case would draw another one,
        # or none at all, from ctx.rng)
        return solvers.replay_inplace(data["input"])
    r = Result()
    run_cases(ctx, r, [data["input"]["case"]])
    ok = not r.concrete
    return ok, ("ok: property holds on this input" if ok else "still fails: " + r.concrete[0]["what"])
