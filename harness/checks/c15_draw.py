"""C15 / C13 — the drawing calls of tikz.render: Lean model `SR.TikzDraw.drawCalls` vs the real text.

Helper module of c15.py (and c13.py): `run_draw(ctx, res)` is one more stream of the check.

For every generated reconciliation the REAL `layout.compute` + `tikz.render` are run under the stub TeX
measurer; the real layout (every rect, trunk, anchor, branch, label, colour) is canonicalised to JSON with
exact rationals and handed to the driver op `c15d_draw`, which makes the model walk the layout
(`_tikz_draw_fork`, `_tikz_draw_branches`, the species loop of `render`) and returns (a) the sequence of
drawing calls (statement template index, owner branch, fillings; coordinates as exact rationals) and (b) the
text assembled from them over the generated templates.  Compared:

  * text: byte for byte; when that fails only because Python printed an `int` coordinate (`10` for `10.0`) or a
    negative zero, after re-printing every coordinate token `t` of the real text as `repr(float(t) + 0.0)`;
  * calls: the real text is cut along the generated templates (c15.parse_text) into per-layer statement lists;
    the model's calls, grouped by the layer of their template, must be the same statements in the same order,
    with equal non-numeric fillings (labels, keywords, lengths, colours through the `\\definecolor` table) and
    coordinates equal to the model's exact rationals rounded half-even to MAX_DIGITS places
    (`round(Fraction, 4)`, computed here, independently of the model's printer);
  * damaged layouts (label width 0, a species or an anchor deleted from the layout, a transfer target moved level
    with its transfer node): same exception class, or same text and calls when the code still draws.
"""
import re
from fractions import Fraction

from ete3 import TreeNode

from harness import sr, stubtex
from harness.checks import c13, c14, c15

COORD = re.compile(r"\((-?[0-9][0-9.e+-]*),(-?[0-9][0-9.e+-]*)\)")
ERR = {"AssertionError": "ValueError", "TypeError": "ValueError"}


def fstr(x):
    f = Fraction(x)
    return f"{f.numerator}/{f.denominator}"


def norm_num(tok):
    """A coordinate token re-printed BY VALUE (`repr(float(t) + 0.0)`): an `int` coordinate (`10` -> `10.0`), a
    negative zero, trailing zeros (`10.5000`), an exponent -- TikZ reads the number, not its spelling.  `repr` of a
    float determines the float, so two tokens are identified exactly when they denote the same float."""
    try:
        return repr(float(tok) + 0.0)
    except ValueError:
        return tok


def normalise(text):
    """Re-print every coordinate of the picture as a float (ints and negative zeros spelled canonically)."""
    i = text.find("\\begin{tikzpicture}")
    if i < 0:
        return text
    return text[:i] + COORD.sub(lambda m: f"({norm_num(m.group(1))},{norm_num(m.group(2))})", text[i:])


def canon(rec, lay):
    """(layout JSON in PRE-order with names and colours, spnames, mapping, key of every gene object)."""
    stree = rec.input.species_lca.tree
    sfwd, _ = sr.index_tree(stree)
    ofwd, _ = sr.index_tree(rec.input.object_tree)
    pseudo = {}
    for sp, sl in lay.items():
        for k, b in sl.branches.items():
            if not isinstance(k, TreeNode):
                pseudo[k] = (sfwd[sp], b)

    def lineage(k):
        while not isinstance(k, TreeNode):
            if k not in pseudo:
                return "?"
            b = pseudo[k][1]
            k = b.left if b.left is not None else b.right
        return ofwd[k]

    def key(k):
        if k is None:
            return None
        if isinstance(k, TreeNode):
            return "g:" + ofwd[k]
        if k not in pseudo:
            return "l:?:?"
        return f"l:{lineage(k)}:{pseudo[k][0]}"

    def pos(p):
        return [fstr(p.x), fstr(p.y)]

    def rect(r):
        return [fstr(r.x), fstr(r.y), fstr(r.w), fstr(r.h)]

    out, keys = [], {}
    for sp in stree.traverse("preorder"):
        if sp not in lay:
            continue
        sl = lay[sp]
        for k in sl.branches:
            keys[k] = key(k)
        out.append({
            "sp": sfwd[sp], "rect": rect(sl.rect), "trunk": rect(sl.trunk), "fork": fstr(sl.fork_thickness),
            "anchors": [[key(k), pos(p)] for k, p in sl.anchors.items()],
            "branches": [
                {"key": key(k), "kind": b.kind.name, "left": key(b.left), "right": key(b.right),
                 "rect": rect(b.rect), "anchor_parent": pos(b.anchor_parent), "anchor_left": pos(b.anchor_left),
                 "anchor_right": pos(b.anchor_right), "anchor_child": pos(b.anchor_child),
                 "name": b.name, "color": b.color}
                for k, b in sl.branches.items()
            ],
        })
    spnames = {p: n.name for n, p in sfwd.items()}
    mapping = {ofwd[g]: sfwd[s] for g, s in rec.object_species.items()}
    return out, spnames, mapping, keys


def defs_fills(params):
    by = {t["name"]: t for t in c15.templates()["templates"]}
    dt = by["defs_" + params.orientation.name.lower()]
    return [format(eval(p.src, {"params": params}), "") for p in dt["pieces"] if not isinstance(p, str)]


def request(S, rec, lay, params):
    layout, spnames, mapping, _ = canon(rec, lay)
    return {
        "op": "c15d_draw", "orientation": params.orientation.name[0], "S": S,
        "params": {"leaf_spacing": fstr(params.species_leaf_spacing),
                   "gene_diameter": fstr(params.extant_gene_diameter),
                   "rounding": params.species_border_rounding, "label_width": params.species_label_width},
        "defs_fills": defs_fills(params), "spnames": spnames, "mapping": mapping, "layout": layout,
    }


def compare(res, case, params, text, m):
    """Model answer `m` of c15d_draw against the real text."""
    if "err" in m:
        res.tie_broken("draw model fails where tikz.render succeeds", case, m, text[-200:])
        return
    mtext = m["ok"]["text"]
    if mtext == text:
        res.dist["draw:text=bytes"] += 1
    elif mtext == normalise(text):
        res.dist["draw:text=bytes after re-printing the coordinates by value"] += 1
    elif c15.canon_layers(mtext) is not None and c15.canon_layers(mtext) == c15.canon_layers(text):
        # the same statements in every layer (colour names resolved, coordinates by value), emitted in another
        # order: nothing in C13 / C15 depends on that order, and equal statements make the call-by-call comparison
        # below redundant
        res.dist["draw:text=same statements per layer, another order"] += 1
        return
    else:
        res.tie_broken("drawCalls+assemble vs tikz.render (whole text)", case,
                       c15._first_diff(mtext, normalise(text)), None)
        return
    parsed, why = c15.parse_text(text, params)
    if parsed is None:
        res.tie_broken("generated templates vs rendered text", case, why, text[-300:])
        return
    data = c15.templates()
    stmts = parsed["stmts"]
    table = parsed["table"]
    by_layer = {name: [] for name in data["layers"]}
    for c in m["ok"]["calls"]:
        if not 0 <= c["t"] < len(stmts):
            res.tie_broken("statement index", case, c, None)
            return
        by_layer[stmts[c["t"]]["layer"]].append(c)
    regs = [c15.template_regex(t) for t in stmts]
    for name in data["layers"]:
        real, mod = parsed["layers"][name], by_layer[name]
        if len(real) != len(mod):
            res.tie_broken(f"number of statements in layer `{name}`", case, len(mod), len(real))
            return
        for (_, _, line), c in zip(real, mod):
            # several templates print the same shape (`\\path[branch=..] (a) -- (b);`): the statement the
            # model names must be one that produces this very line, with these very fillings
            mt = regs[c["t"]].fullmatch(line)
            if mt is None:
                res.tie_broken(f"statement kinds and order in layer `{name}`", case, c, line)
                return
            kinds = c15.hole_kinds(stmts[c["t"]])
            fills = list(mt.groups())
            if len(kinds) != len(c["fills"]) or len(kinds) != len(fills):
                res.tie_broken("number of fillings", case, c, line)
                return
            for kind, rf, mf in zip(kinds, fills, c["fills"]):
                if kind == "coord":
                    rx, ry = rf.split(",")
                    ok = (isinstance(mf, list) and Fraction(rx) == round(Fraction(mf[0]), 4)
                          and Fraction(ry) == round(Fraction(mf[1]), 4))
                elif kind == "color":
                    idx = int(re.sub(r"^[A-Za-z]+", "", rf))
                    ok = isinstance(mf, dict) and idx < len(table) and table[idx] == mf["c"]
                else:
                    ok = mf == rf
                if not ok:
                    res.tie_broken(f"filling of a {kind} hole", case, {"call": c, "fill": mf}, line)
                    return


# --------------------------------------------------------------------------
# streams


def c13_stream(ctx):
    """Valid reconciliations of the C13 generator (bounded-exhaustive small scope thinned out, random larger
    ones), float DrawParams with dyadic values."""
    rng = ctx.rng
    keep = ctx.budget(0.04, 0.25)
    n, cap = 0, ctx.budget(220, 2500)
    for case in c13.gen_cases(ctx, quick_random=80, thorough_random=1500):
        if rng.random() > keep and not (c13.nontrivial(case) and rng.random() < 3 * keep):
            continue
        case = dict(case, kind="draw13", params=c14.rand_params(rng))
        ex = c14.rand_extra(rng)
        if ex:
            case["extra"] = {k: c13.fstr(v) for k, v in ex.items()}
        yield case
        n += 1
        if n >= cap:
            return


def real13(case):
    out, lay, text, _ = c13.run_real(case, params=case["params"], extra=c14.decode_extra(case), render=True)
    dp = c13.draw_params(case["orient"], case["params"], c14.decode_extra(case))
    return out, lay, dp, text, case["S"]


SPACE_NAMES = ["Homo sapiens", "a b", "ab cd ef", "x_1 y_2 z", "long species name here ok"]


def c15_stream(ctx):
    """Render cases of the C15 generator (random names, nested colours, syntenies, label widths), some with
    species names made of several words and with dyadic drawing parameters."""
    rng = ctx.rng
    n, tries, want = 0, 0, ctx.budget(60, 600)
    while n < want and tries < 3 * want:
        tries += 1
        case = c15.rand_render_case(ctx)
        if case is None:
            continue
        case = dict(case, kind="draw15")
        if rng.random() < 0.4:
            sn = dict(case["snames"])
            for i, p in enumerate(sorted(sn)):
                if rng.random() < 0.5:
                    sn[p] = rng.choice(SPACE_NAMES) + " " + "n" * (i + 1)
            case["snames"] = sn
        if rng.random() < 0.6:
            case["params"] = dict(case["params"], **{
                k: float(Fraction(rng.choice(c14.DYADICS)))
                for k in ("species_leaf_spacing", "extant_gene_diameter", "species_branch_padding",
                          "gene_branch_spacing", "trunk_overhead", "level_spacing")})
        yield case
        n += 1


def real15(case):
    rec, lay, params, text, _, _ = c15.render_real(case)
    return rec, lay, params, text, case["case"]["S"]


def real_of(case):
    return real13(case) if case["kind"] == "draw13" else real15(case)


def nontrivial(lay):
    from superrec2.model.reconciliation import EdgeEvent, NodeEvent

    kinds = {b.kind for sl in lay.values() for b in sl.branches.values()}
    return bool(kinds & {EdgeEvent.FULL_LOSS, NodeEvent.HORIZONTAL_TRANSFER, NodeEvent.DUPLICATION})


def check_batch(ctx, res, cases):
    todo, reqs = [], []
    for case in cases:
        try:
            rec, lay, params, text, S = real_of(case)
        except Exception:  # noqa  (a valid reconciliation that cannot be drawn is reported by the main streams)
            continue
        res.case(case, nontrivial=nontrivial(lay))
        res.dist["draw:%s:%s" % (case["kind"], params.orientation.name[0])] += 1
        todo.append((case, params, text))
        reqs.append(request(S, rec, lay, params))
    outs = ctx.driver.parallel(reqs)
    for (case, params, text), m in zip(todo, outs):
        compare(res, case, params, text, m)


def mutate(rng, rec, lay, params):
    """A damaged (layout, params): returns (what, layout, params)."""
    from superrec2.model.reconciliation import NodeEvent
    from superrec2.render.model import Orientation
    from superrec2.utils.geometry import Position

    kind = rng.choice(["width0", "species", "anchor", "anchor", "tie", "tie"])
    if kind == "tie":
        # a transfer whose target anchor is exactly level with the transfer node (the `<` / `>` tie)
        hgts = [(n, g, b) for n, sl in lay.items() for g, b in sl.branches.items()
                if b.kind == NodeEvent.HORIZONTAL_TRANSFER]
        if hgts:
            n, g, b = rng.choice(hgts)
            fn = rec.object_species[b.right]
            old = lay[fn].anchors[b.right]
            c = b.rect.center()
            new = Position(c.x, old.y) if params.orientation == Orientation.VERTICAL else Position(old.x, c.y)
            anchors = dict(lay[fn].anchors)
            anchors[b.right] = new
            lay2 = dict(lay)
            lay2[fn] = lay[fn]._replace(anchors=anchors)
            return kind, lay2, params
        kind = "anchor"
    if kind == "width0":
        return kind, lay, params._replace(species_label_width=0)
    nodes = list(lay)
    if kind == "species":
        lay2 = dict(lay)
        del lay2[rng.choice(nodes)]
        return kind, lay2, params
    cands = [n for n in nodes if lay[n].anchors]
    if not cands:
        return "width0", lay, params._replace(species_label_width=0)
    n = rng.choice(cands)
    anchors = dict(lay[n].anchors)
    del anchors[rng.choice(list(anchors))]
    lay2 = dict(lay)
    lay2[n] = lay[n]._replace(anchors=anchors)
    return kind, lay2, params


def run_malformed(ctx, res, cases):
    from superrec2.render import tikz

    rng = ctx.rng
    todo, reqs = [], []
    for case in cases:
        try:
            rec, lay, params, _, S = real_of(case)
        except Exception:  # noqa
            continue
        what, lay2, params2 = mutate(rng, rec, lay, params)
        try:
            impl = tikz.render(rec, lay2, params2)
        except Exception as e:  # noqa
            name = type(e).__name__
            impl = {"err": ERR.get(name, name)}
        mcase = dict(case, kind="draw-malformed", mutation=what)
        res.case(mcase, nontrivial=isinstance(impl, dict))
        res.dist["draw:malformed:%s:%s" % (what, "raises" if isinstance(impl, dict) else "draws")] += 1
        todo.append((mcase, params2, impl))
        reqs.append(request(S, rec, lay2, params2))
    outs = ctx.driver.parallel(reqs)
    for (mcase, params2, impl), m in zip(todo, outs):
        if isinstance(impl, dict):
            if m != impl:
                res.tie_broken("exception of tikz.render on a damaged layout", mcase, m, impl)
        else:
            compare(res, mcase, params2, impl, m)


def fmt_cases(ctx):
    rng = ctx.rng
    xs = ["0", "1/2", "-1/2", "1/32", "3/32", "-1/32", "-1/65536", "1/65536", "12345/16", "-7/64", "100",
          "99999/32", "5/64", "15/64", "-15/64", "1/16", "625/10000", "3/8"]
    for _ in range(ctx.budget(300, 3000)):
        xs.append(f"{rng.randint(-10**7, 10**7)}/{2 ** rng.randint(0, 12)}")
    return xs


def run_fmt(ctx, res):
    """`fmtCoord` against `format(Position(x, y), "4")` on dyadic values (sign of zero normalised)."""
    from superrec2.utils.geometry import Position

    xs = fmt_cases(ctx)
    out = ctx.driver.batch([{"op": "c15d_fmt", "xs": xs}])[0]
    for x, m in zip(xs, out):
        f = float(Fraction(x))
        impl = format(Position(f, 0.0), "4").split(",")[0]
        case = {"kind": "draw-fmt", "x": x}
        res.case(case, nontrivial=Fraction(x).denominator > 16)
        res.dist["draw:fmt"] += 1
        if m != norm_num(impl):
            res.tie_broken("fmtCoord vs format(Position, '4')", case, m, impl)


def run_draw(ctx, res, streams=("fmt", "c13", "c15", "malformed")):
    """The draw stream of C15 (call from c15.run).  `streams` selects the parts."""
    from harness.common import setup_repo_path

    setup_repo_path()
    stubtex.install()
    if "fmt" in streams:
        run_fmt(ctx, res)
    cases = []
    if "c13" in streams:
        cases += list(c13_stream(ctx))
    if "c15" in streams:
        cases += list(c15_stream(ctx))
    for i in range(0, len(cases), 200):
        check_batch(ctx, res, cases[i:i + 200])
    if "malformed" in streams:
        k = ctx.budget(40, 400)
        run_malformed(ctx, res, ctx.rng.sample(cases, min(k, len(cases))))


def run_draw13(ctx, res):
    """The part of the draw stream that uses C13's own generator (optional call from c13.run)."""
    run_draw(ctx, res, streams=("c13", "malformed"))


def replay_case(ctx, case):
    """Re-run one draw case; True when model and implementation agree."""
    from harness.common import Result

    res = Result()
    check_batch(ctx, res, [dict(case, kind="draw13" if "orient" in case else "draw15")])
    return not res.mismatch
