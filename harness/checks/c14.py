"""C14 — layouts are geometrically coherent and orientation-symmetric."""
import math
from fractions import Fraction

from harness import stubtex
from harness.checks import c13

ID = "C14"
RULE = (
    "the reconciliations of C13 (4/4 exhaustive in the thorough tier, 5/5 sampled: quick tier "
    "bounded-exhaustive up to 3 object leaves / 3 species leaves; thorough tier and deep search EVERY binary "
    "input with <= 4 object leaves x <= 4 species leaves (8,193) and EVERY valid reconciliation of each "
    "(263,903) ONCE: one orientation drawn at random - laid out twice - and, for the mirror clause, the "
    "opposite orientation with sizes swapped, ONE seeded size function and ONE parameter vector per "
    "reconciliation, over a pool of worker processes; the rest of the 5/5 scope is sampled, not "
    "enumerated; random inputs up to 10 object leaves), node sizes dyadic in 1..100 per branch index (with "
    "extreme aspect ratios over-sampled), the five layout parameters of DrawParams drawn from positive "
    "dyadics (0.25 .. 64, defaults over-sampled) and the drawing-only parameters perturbed as well; both "
    "orientations.  Non-trivial: at least two species and at least one duplication, transfer or loss."
)
TRUSTED = [
    "model: lean/SRVerif/Model/Layout.lean (computeV / computeH = layout.compute, transcribed separately)",
    "sizes and parameters are dyadic so that IEEE double arithmetic is exact; results are compared "
    "EXACTLY with the model's rationals",
    "harness/stubtex.py replaces superrec2.utils.tex.measure",
]
ASSUMPTIONS = [
    "IEEE rounding for non-dyadic sizes is not modelled (theorems are about exact arithmetic)",
    "species tree binary; sizes positive; parameters non-negative, min_subtree_spacing > 0",
]
OPEN = []

DYADICS = ["1/4", "1/2", "1", "3/2", "2", "3", "4", "5", "13/2", "8", "10", "12", "16", "25", "32", "64"]


def rand_params(rng):
    if rng.random() < 0.2:
        return dict(c13.DEFAULT_PARAMS)
    return {k: rng.choice(DYADICS) if rng.random() < 0.8 else v for k, v in c13.DEFAULT_PARAMS.items()}


def rand_extra(rng):
    if rng.random() < 0.5:
        return {}
    return {
        "species_leaf_spacing": float(Fraction(rng.choice(DYADICS))),
        "species_label_spacing": float(Fraction(rng.choice(DYADICS))),
        "extant_gene_diameter": float(Fraction(rng.choice(DYADICS))),
        "loss_size": float(Fraction(rng.choice(DYADICS))),
        "speciation_size": float(Fraction(rng.choice(DYADICS))),
        "duplication_size": float(Fraction(rng.choice(DYADICS))),
        "transfer_size": float(Fraction(rng.choice(DYADICS))),
    }


def F(s):
    return Fraction(s)


def rect_f(r):
    return [F(v) for v in r]


def interiors_overlap(a, b):
    ax, ay, aw, ah = rect_f(a)
    bx, by, bw, bh = rect_f(b)
    return ax < bx + bw and bx < ax + aw and ay < by + bh and by < ay + ah


def closed_overlap(a, b):
    ax, ay, aw, ah = rect_f(a)
    bx, by, bw, bh = rect_f(b)
    return ax <= bx + bw and bx <= ax + aw and ay <= by + bh and by <= ay + ah


def inside(a, b):
    ax, ay, aw, ah = rect_f(a)
    bx, by, bw, bh = rect_f(b)
    return bx <= ax and by <= ay and ax + aw <= bx + bw and ay + ah <= by + bh


def tr_pos(p):
    return [p[1], p[0]]


def tr_rect(r):
    return [r[1], r[0], r[3], r[2]]


def transpose(canon):
    out = []
    for s in canon:
        out.append({
            "sp": s["sp"], "rect": tr_rect(s["rect"]), "trunk": tr_rect(s["trunk"]), "fork": s["fork"],
            "anchors": sorted([k, tr_pos(p)] for k, p in s["anchors"]),
            "branches": [
                {**b, "rect": tr_rect(b["rect"]), "anchor_parent": tr_pos(b["anchor_parent"]),
                 "anchor_left": tr_pos(b["anchor_left"]), "anchor_right": tr_pos(b["anchor_right"]),
                 "anchor_child": tr_pos(b["anchor_child"])}
                for b in s["branches"]
            ],
        })
    return out


def all_numbers(lay):
    for sl in lay.values():
        yield from sl.rect
        yield from sl.trunk
        yield sl.fork_thickness
        for p in sl.anchors.values():
            yield from p
        for b in sl.branches.values():
            yield from b.rect
            for a in (b.anchor_parent, b.anchor_left, b.anchor_right, b.anchor_child):
                yield from a


def geometry_check(case, out, lay, canon):
    """The coherence clauses, evaluated directly on the real layout."""
    if not all(isinstance(v, (int, float)) and math.isfinite(v) for v in all_numbers(lay)):
        return "non-finite coordinate"
    by_sp = {s["sp"]: s for s in canon}
    for sp, s in by_sp.items():
        l, r = by_sp.get(sp + "0"), by_sp.get(sp + "1")
        if l is None:
            continue
        if closed_overlap(l["rect"], r["rect"]):
            return f"boxes of the children of species '{sp}' overlap: {l['rect']} {r['rect']}"
        for c in (l, r):
            if not inside(c["rect"], s["rect"]):
                return f"box of species '{c['sp']}' {c['rect']} not inside its parent's {s['rect']}"
    sps = sorted(by_sp)
    for i, a in enumerate(sps):
        for b in sps[i + 1:]:
            if interiors_overlap(by_sp[a]["trunk"], by_sp[b]["trunk"]):
                return (f"trunks of species '{a}' and '{b}' overlap: {by_sp[a]['trunk']} "
                        f"{by_sp[b]['trunk']}")
    # every anchor referenced by a drawn branch exists
    for s in canon:
        anchors = {a[0] for a in s["anchors"]}
        keys = {b["key"] for b in s["branches"]}
        for b in s["branches"]:
            if b["kind"] == "FULL_LOSS":
                side, child = ("0", b["left"]) if b["right"] is None else ("1", b["right"])
                kid = by_sp.get(s["sp"] + side)
                if kid is None or child not in {a[0] for a in kid["anchors"]}:
                    return f"loss {b['key']}: anchor of {child} missing in species '{s['sp'] + side}'"
            elif b["kind"] == "SPECIATION":
                for side, child in (("0", b["left"]), ("1", b["right"])):
                    kid = by_sp.get(s["sp"] + side)
                    if kid is None or child not in {a[0] for a in kid["anchors"]}:
                        return f"speciation {b['key']}: anchor of {child} missing in '{s['sp'] + side}'"
            elif b["kind"] == "DUPLICATION":
                if b["left"] not in keys or b["right"] not in keys:
                    return f"duplication {b['key']}: child branch missing in species '{s['sp']}'"
            elif b["kind"] == "HORIZONTAL_TRANSFER":
                if b["left"] not in keys:
                    return f"transfer {b['key']}: conserved child branch missing"
                if not any(b["right"] in {a[0] for a in t["anchors"]} for t in canon):
                    return f"transfer {b['key']}: anchor of transferred child missing"
    return None


def compute_canon(case, orient=None, swap=False, render=False):
    c = dict(case, orient=orient or case["orient"])
    out, lay, text, _ = c13.run_real(c, swap=swap, params=case["params"], extra=decode_extra(case), render=render)
    return out, lay, c13.canon_layout(out, lay)


def decode_extra(case):
    return {k: float(Fraction(v)) for k, v in case.get("extra", {}).items()}


def spec_check(case):
    """Returns (failure or None, canon)."""
    try:
        out, lay, canon = compute_canon(case, render=True)
    except Exception as e:
        return f"layout/render raises {type(e).__name__}: {e}", None
    bad = geometry_check(case, out, lay, canon)
    if bad:
        return bad, canon
    # determinism
    _, _, again = compute_canon(case)
    if again != canon:
        return "computing the layout twice gives different results", canon
    # ... and on the SAME reconciliation object (compute_canon builds a fresh, equal one for every call, so state
    # left on the object by the first call — a reordered tree, a cached size — never shows there)
    from superrec2.render import layout as rlayout

    stubtex.install(c13.measurer(case, swap=False, record=[]))
    dp = c13.draw_params(case["orient"], case["params"], decode_extra(case))
    try:
        same_obj = c13.canon_layout(out, rlayout.compute(out, dp))
    except Exception as e:
        return f"second layout of the same reconciliation object raises {type(e).__name__}: {e}", canon
    if same_obj != canon:
        return "computing the layout twice ON THE SAME reconciliation object gives different results", canon
    # mirror: the other orientation with width and height of every node exchanged
    other = "H" if case["orient"] == "V" else "V"
    _, _, mirrored = compute_canon(case, orient=other, swap=True)
    if transpose(mirrored) != canon:
        diff = first_diff(transpose(mirrored), canon)
        return f"{case['orient']} layout is not the transpose of the {other} layout with sizes swapped: {diff}", canon
    return None, canon


def first_diff(a, b):
    for x, y in zip(a, b):
        if x != y:
            for k in x:
                if x[k] != y[k]:
                    if isinstance(x[k], list) and len(x[k]) == len(y[k]):
                        for u, v in zip(x[k], y[k]):
                            if u != v:
                                return f"species '{x['sp']}' {k}: {u} vs {v}"
                    return f"species '{x['sp']}' {k}: {x[k]} vs {y[k]}"
    return "?"


def gen_cases(ctx, stats=None):
    rng = ctx.rng
    for case in c13.gen_cases(ctx, quick_random=150, thorough_random=4000, stats=stats, both=False):
        case["params"] = rand_params(rng)
        ex = rand_extra(rng)
        if ex:
            case["extra"] = {k: c13.fstr(v) for k, v in ex.items()}
        yield case


CORPUS = [dict(c, params=dict(c13.DEFAULT_PARAMS)) for c in c13.CORPUS] + [
    dict(c13.CORPUS[0], params={"pad": "1/4", "gsp": "64", "overhead": "1/2", "minsp": "1/4", "level": "32"}),
    dict(c13.CORPUS[1], params={"pad": "32", "gsp": "1/4", "overhead": "64", "minsp": "3/2", "level": "1/4"}),
]


# Regression case of the repaired defect F-TRUNK-OVERLAP: the trunk of an ancestral species used to be
# centred on the gap between its children's BOXES instead of between their TRUNKS; with an empty left child
# and a right child whose own trunk is far to the right, a wide trunk stuck out of the species' box and ran
# over a neighbouring species (default DrawParams, sizes within 1..100).
TRUNK_WITNESS = {
    "S": [[[], []], [[], [[], []]]],
    "O": [{"s": "01"}, [{"s": "110"}, {"s": "110"}]],
    "sol": {"s": "", "c": [{"s": "01"}, {"s": "1", "c": [{"s": "110"}, {"s": "110"}]}]},
    "orient": "V", "syn": False, "seed": 0,
    "sizes": {"g:0": ["60", "100"], "g:10": ["100", "1"], "g:1": ["100", "1"]},
    "params": dict(c13.DEFAULT_PARAMS),
}
CORPUS += [TRUNK_WITNESS, dict(TRUNK_WITNESS, orient="H",
                               sizes={"g:0": ["100", "60"], "g:10": ["1", "100"], "g:1": ["1", "100"]})]


def nontrivial(case):
    ev, losses, transfers = c13.expected_events(case["sol"])
    return len(case["S"]) > 0 and (bool(losses) or bool(transfers) or
                                   any(e == "DUPLICATION" for _, e in ev.values()))


def model_by_sp(model_ok):
    out = {}
    for s in model_ok:
        out[s["sp"]] = {
            "sp": s["sp"], "rect": s["rect"], "trunk": s["trunk"], "fork": s["fork"],
            "anchors": sorted(s["anchors"]), "branches": s["branches"],
        }
    return out


def check_cases(ctx, res, cases):
    todo = []
    for case in cases:
        res.case(case, nontrivial(case))
        res.dist[f"{case['orient']}/{'default' if case['params'] == c13.DEFAULT_PARAMS else 'perturbed'}"
                 f"/species={min(len(c13.gen.all_paths(case['S'])), 7)}"] += 1
        bad, canon = spec_check(case)
        if bad:
            res.violation(bad, case)
            if canon is None:
                continue
        todo.append((case, canon))
    reqs = [
        {"op": "c14_layout", "S": case["S"], "sol": c13.strip_f(case["sol"]), "params": case["params"],
         "orientation": case["orient"], "sizes": c13.size_table(case, canon)}
        for case, canon in todo
    ]
    outs = ctx.driver.parallel(reqs)
    for (case, canon), mo in zip(todo, outs):
        if "err" in mo:
            res.tie_broken("model fails where layout.compute succeeds", case, mo, None)
            continue
        m = model_by_sp(mo["ok"])
        impl = {s["sp"]: s for s in canon}
        if m != impl:
            d = first_diff([m[k] for k in sorted(m)], [impl[k] for k in sorted(impl)]) if set(m) == set(impl) else "species sets differ"
            res.tie_broken("compute model vs layout.compute (every coordinate, exact rationals)", case,
                           d, None)


def corpus(ctx, res):
    check_cases(ctx, res, CORPUS)


def run(ctx, res):
    if ctx.budget(False, True):  # thorough tier / deep search: C13's whole 4/4 scope, over a process pool
        import importlib

        stats = c13.Counter()
        complete = c13.run_pooled(ctx, res, importlib.import_module(__name__), gen_cases(ctx, stats=stats),
                                  chunk=300)
        c13.scope_report(ctx, res, stats, complete,
                         "once: one orientation drawn at random plus, for the mirror clause, the opposite one "
                         "with sizes swapped; one seeded size function and one parameter vector each")
        return
    batch = []
    for c in gen_cases(ctx):
        batch.append(c)
        if len(batch) >= 300:
            check_cases(ctx, res, batch)
            batch = []
    check_cases(ctx, res, batch)
    c13.scope_report(ctx, res, None, True, "")


def replay(ctx, data):
    bad, _ = spec_check(data["input"])
    return (bad is None, f"verdict={'ok' if bad is None else bad}")
