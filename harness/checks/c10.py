"""C10 — The algorithms agree with each other where their models coincide."""
import copy

from .. import gen, solvers
from ..common import Result
from ..solvers import lean_case
from ..sr import run_algo

ID = "C10"
RULE = (
    "random binary inputs (up to 10 object leaves / 8 species / 4 families in the thorough tier, 7/5/3 in the quick "
    "tier) with ordered leaf syntenies and coherent cost vectors; all seven algorithms (exh only on small inputs) are "
    "run in-process under the policy 'any'; checked on the implementation's costs: extended <= base (ordered and "
    "unordered), unordered <= ordered, thl <= lca with equality for an infinite transfer cost, and, on the "
    "single-family variant of each input, ordered = unordered = plain optimum and base variants = lca cost.  The "
    "same costs are compared with the Lean models' table minima (tie).  Non-trivial = at least 3 object leaves and "
    "2 species; distinct = distinct input."
)
TRUSTED = ["models: lean/SRVerif/Model/{Rec,LabelDP,Solvers}.lean (table minima through the op table_min)"]
ASSUMPTIONS = ["cost vectors inside spe + 2*sloss <= dup + 2*floss"]
OPEN = []  # C10_guarded : all four inequalities + single-family clause (C10UnOrd, C10All, C10Single*)

ALGOS = ["lca", "thl", "base_spfs", "ext_spfs", "base_uspfs", "superdtl"]


def single_family(case):
    c = copy.deepcopy(case)
    for _, leaf in solvers._leaves(c["O"]):
        leaf["f"] = [0]
    c.pop("root", None)
    return c


def costs_of(case):
    out = {}
    for a in ALGOS:
        r = run_algo(case, a, "any", present="auto")
        if "err" in r:
            out[a] = {"err": r["err"]}
        else:
            out[a] = r["cost"]
    return out


def num(c):
    return float("inf") if c == "inf" else c


def judge_case(ctx, res, case, cs, table):
    info = {"case": case}
    bad = [a for a in ALGOS if isinstance(cs[a], dict) or isinstance(cs[a], list)]
    if bad:
        # failures are C01-C03's business; nothing to compare here
        res.notes.append(f"skipped (no single cost): {bad}")
        return
    # an EMPTY result (cost None) is "no solution": its optimum is infinite.  It takes part in the inequalities
    # (an extended solver returning nothing where its base variant finds a solution does exceed it)
    c = {a: num("inf" if cs[a] is None else cs[a]) for a in ALGOS}
    if any(cs[a] is None for a in ALGOS):
        res.dist["empty result (counted as an infinite optimum)"] += 1
    rel = [
        ("ext_spfs", "base_spfs", "extended ordered optimum exceeds the base ordered optimum"),
        ("superdtl", "base_uspfs", "extended unordered optimum exceeds the base unordered optimum"),
        ("superdtl", "ext_spfs", "unordered optimum exceeds the ordered optimum"),
        ("thl", "lca", "general DTL optimum exceeds the LCA reconciliation cost"),
    ]
    for lo, hi, what in rel:
        if c[lo] > c[hi]:
            res.violation(f"{what}: {lo}={cs[lo]} > {hi}={cs[hi]}", info, expected=f"{lo} <= {hi}", observed=cs)
            return
    if solvers.full_costs(case)["hgt"] == "inf" and c["thl"] != c["lca"]:
        res.violation(f"transfers forbidden but thl={cs['thl']} differs from lca={cs['lca']}", info, observed=cs)
        return
    # tie with the model's table minima
    for a in ALGOS:
        if table.get(a) is not None and table[a] != ("inf" if cs[a] is None else cs[a]):
            res.tie_broken(f"{a}: cost vs model table minimum", case, table[a], cs[a])


def judge_single(ctx, res, case, cs):
    info = {"case": case, "variant": "single family"}
    if any(isinstance(cs[a], dict) or isinstance(cs[a], list) for a in ALGOS):
        return
    cs = {a: ("inf" if v is None else v) for a, v in cs.items()}  # empty result = infinite optimum
    if not (cs["ext_spfs"] == cs["superdtl"] == cs["thl"]):
        res.violation(
            f"single family: ordered={cs['ext_spfs']}, unordered={cs['superdtl']}, plain={cs['thl']} differ",
            info, observed=cs)
    elif not (cs["base_spfs"] == cs["base_uspfs"] == cs["lca"]):
        res.violation(
            f"single family: base ordered={cs['base_spfs']}, base unordered={cs['base_uspfs']}, lca={cs['lca']} differ",
            info, observed=cs)


def gen_case(ctx, rng):
    big = ctx.thorough or ctx.deep
    k = rng.random()
    if k < 0.12:
        # INHERIT chains with gains (depth >= 4, clade-confined families, tie-prone costs): the inputs on which the
        # unordered decoder's materialised contents matter for the cost
        c = gen.sibling_inherit_case(rng)
        c.pop("only", None)
        return c
    if k < 0.2:
        c = gen.clade_case(rng, 6, 8, 3, rng.randint(3, 4), True)
        c.pop("only", None)
        return c
    if big and rng.random() < 0.3:
        return gen.rand_case(rng, 10, 8, rng.randint(1, 4), plain=False)
    if rng.random() < 0.5:
        return gen.rand_case(rng, 7, 5, rng.randint(1, 3), plain=False)
    return gen.rand_case(rng, 5, 4, rng.randint(1, 4), plain=False)


def consistent(case):
    """The ordered solvers need mutually consistent leaf orders to have a solution."""
    from itertools import permutations

    fams = sorted({f for _, l in solvers._leaves(case["O"]) for f in l["f"]})
    syns = [l["f"] for _, l in solvers._leaves(case["O"])]
    return any(all(solvers._subseq(s, p) for s in syns) for p in permutations(fams))


def run_cases(ctx, res, cases):
    reqs = []
    for c in cases:
        for a in ALGOS:
            reqs.append({"op": "table_min", "algo": a, **lean_case(c)})
    outs = iter(ctx.driver.parallel(reqs))
    for c in cases:
        table = {a: next(outs) for a in ALGOS}
        cs = costs_of(c)
        res.case({"case": c}, solvers.nontrivial(c))
        n = sum(1 for _ in solvers._leaves(c["O"]))
        res.dist[f"o{n}s{len(gen.leaf_paths(c['S']))}"] += 1
        judge_case(ctx, res, c, cs, table)
        sf = single_family(c)
        res.case({"case": sf, "variant": "single"}, solvers.nontrivial(sf))
        judge_single(ctx, res, sf, costs_of(sf))


def run(ctx, res):
    rng = ctx.rng
    cases = []
    n = ctx.budget(500, 3000)
    while len(cases) < n:
        c = gen_case(ctx, rng)
        if consistent(c):
            cases.append(c)
    run_cases(ctx, res, cases)
    # histories on one input object: the relations between the algorithms must also hold when the same input is
    # solved again after its costs were changed in place (thl vs lca with transfers forbidden in particular)
    for c in rng.sample(cases, min(len(cases), ctx.budget(40, 400))):
        other = dict(solvers.full_costs(c), hgt="inf")
        plain = strip_syntenies(c) if "strip_syntenies" in globals() else c
        if not solvers.inplace_history(res, c, other, "thl", what_prefix="general DTL solver reused across cost changes: "):
            break


def shrink(ctx, violation):
    def f(case):
        if not consistent(case):
            return None
        r = Result()
        run_cases(ctx, r, [case])
        return r.concrete[0] if r.concrete else None

    return solvers.shrink(ctx, violation, f)


def replay(ctx, data):
    r = Result()
    if "history" in data["input"]:
        return solvers.replay_inplace(data["input"])
    run_cases(ctx, r, [data["input"]["case"]])
    ok = not r.concrete
    return ok, ("ok: property holds on this input" if ok else "still fails: " + r.concrete[0]["what"])
