"""Translator for static data (DESIGN 4.2).

`regenerate(prop)` is called by `harness.common.translate` on every check run, before `lake build`.
It re-reads the Python source under /repo, extracts the parts that are *data* and rewrites the
corresponding `lean/SRVerif/Generated/*.lean` file (only when its content changed, so that builds stay
incremental).  It returns the list of generated file names.

C15: `render/tikz.py` -> `Generated/TikzTemplates.lean` (data) + `Generated/TikzObligations.lean`.  Every string template that ends up in the
output of `tikz.render` (and the box sources of `measure_nodes`) becomes a Lean value of type
`SR.Tikz.Template` (literal pieces and typed holes), followed by generated obligations (`decide`) saying
that the literal skeleton of each template is brace-balanced, that each layer statement ends with `;`,
that the picture environment is opened and closed exactly once, and that the assembly order of `render`
is the expected one.  If the source is edited so that a template loses a brace or a semicolon, the
generated file stops building.
"""
import ast
import json
import os
import re
import textwrap
from pathlib import Path

VERIF = Path(__file__).resolve().parent.parent
LEAN_GEN = VERIF / "lean" / "SRVerif" / "Generated"
REPO = Path(os.environ.get("SUPERREC2_REPO", "/repo"))

H0, H1 = "\ue000", "\ue001"  # hole placeholder delimiters (non-whitespace private-use code points)


class NotTemplate(Exception):
    pass


class Hole:
    def __init__(self, kind, src, choices=None):
        self.kind = kind  # coord num unit color label index html kw other
        self.src = src
        self.choices = choices

    def to_json(self):
        d = {"hole": self.kind, "src": self.src}
        if self.choices is not None:
            d["choices"] = self.choices
        return d


class TikzExtractor:
    """ast-based extraction of the templates of render/tikz.py."""

    def __init__(self, source, model_source):
        self.tree = ast.parse(source)
        self.source = source
        self.funcs = {n.name: n for n in self.tree.body if isinstance(n, ast.FunctionDef)}
        self.consts = {}
        for n in self.tree.body:
            if isinstance(n, ast.Assign) and len(n.targets) == 1 and isinstance(n.targets[0], ast.Name):
                if isinstance(n.value, ast.Constant):
                    self.consts[n.targets[0].id] = n.value.value
        self.param_types = self._param_types(model_source)
        self.holes = []

    @staticmethod
    def _param_types(model_source):
        out = {}
        for n in ast.parse(model_source).body:
            if isinstance(n, ast.ClassDef) and n.name == "DrawParams":
                for st in n.body:
                    if isinstance(st, ast.AnnAssign) and isinstance(st.target, ast.Name):
                        out[st.target.id] = ast.unparse(st.annotation)
        return out

    # -- holes -------------------------------------------------------------

    def new_hole(self, hole):
        self.holes.append(hole)
        return f"{H0}{len(self.holes) - 1}{H1}"

    def split(self, text):
        """placeholder string -> list of pieces (str | Hole), literals cut after each newline."""
        out = []
        i = 0
        buf = ""
        while i < len(text):
            c = text[i]
            if c == H0:
                j = text.index(H1, i)
                if buf:
                    out.append(buf)
                    buf = ""
                out.append(self.holes[int(text[i + 1 : j])])
                i = j + 1
                continue
            buf += c
            i += 1
            if c == "\n":
                out.append(buf)
                buf = ""
        if buf:
            out.append(buf)
        return out

    # -- function-level facts ------------------------------------------------

    def assignments(self, fn):
        """name -> list of value nodes assigned to that plain name anywhere in fn (tuple targets split)."""
        out = {}
        for n in ast.walk(fn):
            if isinstance(n, ast.Assign):
                for t in n.targets:
                    if isinstance(t, ast.Name):
                        out.setdefault(t.id, []).append(n.value)
                    elif isinstance(t, ast.Tuple):
                        for e in t.elts:
                            if isinstance(e, ast.Name):
                                out.setdefault(e.id, []).append(None)
            elif isinstance(n, ast.AnnAssign) and isinstance(n.target, ast.Name) and n.value is not None:
                out.setdefault(n.target.id, []).append(n.value)
        return out

    def loop_targets(self, fn):
        """name -> iterable node, for names bound by `for` statements of fn."""
        out = {}
        for n in ast.walk(fn):
            if isinstance(n, ast.For):
                names = [n.target] if isinstance(n.target, ast.Name) else list(getattr(n.target, "elts", []))
                for k, e in enumerate(names):
                    if isinstance(e, ast.Name):
                        out[e.id] = (n.iter, k)
        return out

    @staticmethod
    def const_strings(node):
        """The string constants a keyword expression can take, or None."""
        if node is None:
            return None
        if isinstance(node, ast.Constant) and isinstance(node.value, str):
            return [node.value]
        if isinstance(node, ast.Tuple) and all(
            isinstance(e, ast.Constant) and isinstance(e.value, str) for e in node.elts
        ):
            return [e.value for e in node.elts]
        return None

    def keyword_choices(self, fn, name):
        vals = self.assignments(fn).get(name)
        if not vals:
            return None
        out = []
        for v in vals:
            cs = self.const_strings(v)
            if cs is None:
                return None
            for c in cs:
                if c not in out:
                    out.append(c)
        return out

    def classify(self, fn, node, spec):
        src = ast.unparse(node)
        if spec is not None:
            if "MAX_DIGITS" in ast.unparse(spec):
                return Hole("coord", src)
            return Hole("other", src)
        if isinstance(node, ast.Call) and isinstance(node.func, ast.Name) and node.func.id == "get_color":
            return Hole("color", src)
        if isinstance(node, ast.Attribute) and isinstance(node.value, ast.Name) and node.value.id == "params":
            ty = self.param_types.get(node.attr, "")
            if ty == "str":
                return Hole("unit", src)
            if ty in ("float", "int"):
                return Hole("num", src)
            return Hole("other", src)
        base = node.value if isinstance(node, ast.Subscript) else node
        if isinstance(base, ast.Name):
            loops = self.loop_targets(fn)
            if base.id in loops and not isinstance(node, ast.Subscript):
                it, k = loops[base.id]
                # for name, layer in layers.items(): the keys of the dict literal bound to `layers`
                if (
                    isinstance(it, ast.Call)
                    and isinstance(it.func, ast.Attribute)
                    and it.func.attr == "items"
                    and isinstance(it.func.value, ast.Name)
                    and k == 0
                ):
                    vals = self.assignments(fn).get(it.func.value.id, [])
                    if len(vals) == 1 and isinstance(vals[0], ast.Dict):
                        keys = self.const_strings(ast.Tuple(elts=vals[0].keys))
                        if keys is not None:
                            return Hole("kw", src, keys)
                if isinstance(it, ast.Call) and isinstance(it.func, ast.Name) and it.func.id == "enumerate":
                    return Hole("index" if k == 0 else "html", src)
            choices = self.keyword_choices(fn, base.id)
            if choices is not None:
                return Hole("kw", src, choices)
            if base.id.endswith("name") and not isinstance(node, ast.Subscript):
                return Hole("label", src)
        if isinstance(node, ast.Attribute) and node.attr == "name":
            return Hole("label", src)
        if "colors" in src and ("index(" in src or "len(" in src):
            return Hole("index", src)
        return Hole("other", src)

    # -- symbolic evaluation of string expressions ----------------------------

    def ev(self, fn, node, env, orientation=None):
        if isinstance(node, ast.Constant) and isinstance(node.value, str):
            return node.value
        if isinstance(node, ast.JoinedStr):
            out = ""
            for part in node.values:
                if isinstance(part, ast.Constant):
                    out += part.value
                    continue
                assert isinstance(part, ast.FormattedValue)
                if part.format_spec is None and part.conversion == -1:
                    try:
                        out += self.ev(fn, part.value, env, orientation)
                        continue
                    except NotTemplate:
                        pass
                out += self.new_hole(self.classify(fn, part.value, part.format_spec))
            return out
        if isinstance(node, ast.BinOp) and isinstance(node.op, ast.Add):
            return self.ev(fn, node.left, env, orientation) + self.ev(fn, node.right, env, orientation)
        if (
            isinstance(node, ast.BinOp)
            and isinstance(node.op, ast.Mult)
            and isinstance(node.right, ast.Constant)
            and isinstance(node.right.value, int)
        ):
            return self.ev(fn, node.left, env, orientation) * node.right.value
        if isinstance(node, ast.Name):
            if node.id in env:
                return env[node.id]
            # a local bound exactly once to a string constant is inlined
            vals = self.assignments(fn).get(node.id, [])
            if len(vals) == 1 and isinstance(vals[0], ast.Constant) and isinstance(vals[0].value, str):
                return vals[0].value
            raise NotTemplate(node.id)
        if isinstance(node, ast.Call):
            f = node.func
            if isinstance(f, ast.Attribute) and isinstance(f.value, ast.Name) and f.value.id == "textwrap":
                args = [self.ev(fn, a, env, orientation) for a in node.args]
                if f.attr == "dedent" and len(args) == 1:
                    return textwrap.dedent(args[0])
                if f.attr == "indent" and len(args) == 2:
                    return textwrap.indent(args[0], args[1])
                raise NotTemplate(ast.unparse(node))
            if isinstance(f, ast.Attribute) and f.attr in ("strip", "lstrip", "rstrip") and not node.args:
                return getattr(self.ev(fn, f.value, env, orientation), f.attr)()
            if isinstance(f, ast.Name) and f.id in self.funcs and orientation is not None:
                return self.exec_function(self.funcs[f.id], orientation)
        raise NotTemplate(ast.unparse(node))

    def exec_function(self, fn, orientation):
        """Straight-line symbolic execution of a function whose only branching is on the orientation."""
        env = {}

        def test_value(test):
            src = ast.unparse(test)
            if src == "params.orientation == Orientation.VERTICAL":
                return orientation == "VERTICAL"
            if src == "params.orientation == Orientation.HORIZONTAL":
                return orientation == "HORIZONTAL"
            raise NotTemplate(src)

        def run(stmts):
            for st in stmts:
                if isinstance(st, ast.Expr) and isinstance(st.value, ast.Constant):
                    continue  # docstring
                if isinstance(st, ast.If):
                    r = run(st.body if test_value(st.test) else st.orelse)
                    if r is not None:
                        return r
                elif isinstance(st, ast.Assign) and len(st.targets) == 1 and isinstance(st.targets[0], ast.Name):
                    env[st.targets[0].id] = self.ev(fn, st.value, env, orientation)
                elif isinstance(st, ast.Return):
                    return self.ev(fn, st.value, env, orientation)
                else:
                    raise NotTemplate(ast.unparse(st))
            return None

        r = run(fn.body)
        if r is None:
            raise NotTemplate(fn.name)
        return r

    # -- the extraction proper -------------------------------------------------

    def appended(self, fn, target_pred):
        """(key, expr, lineno) for every `<target>.append(expr)` in source order."""
        out = []
        for n in ast.walk(fn):
            if (
                isinstance(n, ast.Call)
                and isinstance(n.func, ast.Attribute)
                and n.func.attr == "append"
                and len(n.args) == 1
            ):
                key = target_pred(n.func.value)
                if key is not None:
                    out.append((key, n.args[0], n.lineno))
        out.sort(key=lambda t: t[2])
        return out

    KIND_RANK = {"LEAF": 1, "FULL_LOSS": 2, "SPECIATION": 3, "DUPLICATION": 4, "HORIZONTAL_TRANSFER": 5}

    def guard_ranks(self, fn):
        """lineno of every `.append(...)` call of fn -> rank of the test it is guarded by: `branch.kind == X.MEMBER`
        (KIND_RANK), `species_node.is_leaf()` (0 for the fork of an internal species, 1 for a leaf species); 0 when
        there is no such test."""
        ranks = {}

        def test_rank(test):
            src = ast.unparse(test)
            m = re.fullmatch(r"branch\.kind == \w+\.(\w+)", src)
            if m and m.group(1) in self.KIND_RANK:
                return self.KIND_RANK[m.group(1)], None
            if src == "not species_node.is_leaf()":
                return 0, 1
            if src == "species_node.is_leaf()":
                return 1, 0
            return None, None

        def visit(stmts, rank):
            for st in stmts:
                if isinstance(st, ast.If):
                    body_rank, else_rank = test_rank(st.test)
                    visit(st.body, rank if body_rank is None else body_rank)
                    visit(st.orelse, rank if else_rank is None else else_rank)
                    continue
                for n in ast.walk(st):
                    if isinstance(n, ast.Call) and isinstance(n.func, ast.Attribute) and n.func.attr == "append":
                        ranks[n.lineno] = rank
                for field in ("body", "orelse", "finalbody"):
                    sub = getattr(st, field, None)
                    if isinstance(sub, list) and sub and isinstance(sub[0], ast.stmt) and not isinstance(st, ast.If):
                        visit(sub, rank)

        visit(fn.body, 0)
        return ranks

    def extract(self):
        res = {"max_digits": self.consts.get("MAX_DIGITS"), "templates": []}

        def add(name, fn, expr_or_text, role, layer=None, lineno=None, orientation=None):
            text = (
                expr_or_text
                if isinstance(expr_or_text, str)
                else self.ev(fn, expr_or_text, {}, orientation)
            )
            t = {
                "name": name,
                "function": fn.name,
                "role": role,
                "layer": layer,
                "line": lineno,
                "pieces": self.split(text),
            }
            res["templates"].append(t)
            return t

        # definitions, one per orientation
        fn = self.funcs["get_tikz_definitions"]
        for o in ("VERTICAL", "HORIZONTAL"):
            add(f"defs_{o.lower()}", fn, self.exec_function(fn, o), "definitions", lineno=fn.lineno)

        # render: layer names, colour references, assembly skeleton
        fn = self.funcs["render"]
        layers_val = self.assignments(fn)["layers"]
        assert len(layers_val) == 1 and isinstance(layers_val[0], ast.Dict)
        res["layers"] = [k.value for k in layers_val[0].keys]
        prefix = self.assignments(fn)["color_prefix"]
        assert len(prefix) == 1
        res["color_prefix"] = prefix[0].value
        inner = [n for n in fn.body if isinstance(n, ast.FunctionDef) and n.name == "get_color"]
        assert len(inner) == 1
        k = 0
        for n in ast.walk(inner[0]):
            if isinstance(n, ast.Return):
                # names of the enclosing function are visible
                text = self.ev(fn, n.value, {})
                add(f"color_ref_{k}", fn, text, "color_ref", lineno=n.lineno)
                k += 1
        res["color_refs"] = k

        skeleton = []

        def is_result(v):
            return "result" if isinstance(v, ast.Name) and v.id == "result" else None

        def result_append(st):
            if (
                isinstance(st, ast.Expr)
                and isinstance(st.value, ast.Call)
                and isinstance(st.value.func, ast.Attribute)
                and is_result(st.value.func.value)
            ):
                return st.value.func.attr, st.value.args
            return None

        nline = 0
        for st in fn.body:
            if (
                isinstance(st, ast.Assign)
                and is_result(st.targets[0])
                and isinstance(st.value, ast.List)
                and len(st.value.elts) == 1
                and ast.unparse(st.value.elts[0]) == "get_tikz_definitions(params)"
            ):
                skeleton.append({"skel": "defs"})
            elif isinstance(st, ast.For):
                it = ast.unparse(st.iter)
                calls = [result_append(b) for b in st.body]
                if it == "enumerate(colors)" and len(calls) == 1 and calls[0] and calls[0][0] == "append":
                    add("definecolor", fn, calls[0][1][0], "definecolor", lineno=st.lineno)
                    skeleton.append({"skel": "perColor", "tmpl": "definecolor"})
                elif it == "layers.items()" and [c and c[0] for c in calls] == ["append", "extend"]:
                    assert ast.unparse(calls[1][1][0]) == ast.unparse(st.target.elts[1])
                    add("layer_comment", fn, calls[0][1][0], "comment", lineno=st.lineno)
                    skeleton.append({"skel": "perLayer", "tmpl": "layer_comment"})
                elif any(calls):
                    raise NotTemplate("render: unexpected loop writing to result: " + it)
            elif result_append(st):
                kind, args = result_append(st)
                if kind != "append":
                    raise NotTemplate("render: " + ast.unparse(st))
                name = f"line_{nline}"
                nline += 1
                add(name, fn, args[0], "line", lineno=st.lineno)
                skeleton.append({"skel": "line", "tmpl": name})
            elif isinstance(st, ast.Return):
                v = st.value
                assert (
                    isinstance(v, ast.Call)
                    and isinstance(v.func, ast.Attribute)
                    and v.func.attr == "join"
                    and ast.unparse(v.args[0]) == "result"
                )
                res["joiner"] = self.ev(fn, v.func.value, {})
        res["skeleton"] = skeleton

        # statements of the picture layers
        def is_layer(v):
            if (
                isinstance(v, ast.Subscript)
                and isinstance(v.value, ast.Name)
                and v.value.id == "layers"
                and isinstance(v.slice, ast.Constant)
            ):
                return v.slice.value
            return None

        k = 0
        for fname in ("_tikz_draw_fork", "_tikz_draw_branches"):
            fn = self.funcs[fname]
            # Statement templates are numbered by the GUARD they are written under (fork / leaf species; no kind test,
            # LEAF, FULL_LOSS, SPECIATION, DUPLICATION, HORIZONTAL_TRANSFER), then by line: Model/TikzDraw.lean names
            # the statements by these numbers, and the order in which mutually exclusive `elif` blocks are written in
            # the source is not behaviour.
            rank = self.guard_ranks(fn)
            found = self.appended(fn, is_layer)
            found.sort(key=lambda t: (rank.get(t[2], 0), t[2]))
            for layer, expr, lineno in found:
                add(f"stmt_{k}", fn, expr, "statement", layer=layer, lineno=lineno)
                k += 1
        res["statements"] = k

        # box sources handed to the TeX measurer
        fn = self.funcs["measure_nodes"]
        k = 0
        for _, expr, lineno in self.appended(
            fn, lambda v: "boxes" if isinstance(v, ast.Name) and v.id == "boxes" else None
        ):
            add(f"box_{k}", fn, expr, "box", lineno=lineno)
            k += 1
        res["boxes"] = k
        for n in ast.walk(fn):
            if isinstance(n, ast.keyword) and n.arg == "preamble":
                for o in ("VERTICAL", "HORIZONTAL"):
                    add(f"preamble_{o.lower()}", fn, n.value, "preamble", lineno=n.value.lineno, orientation=o)
        return res


CACHE = Path(__file__).resolve().parent / "cache"
# status of the last extraction: "ok" or "unavailable: <why> (templates of the last readable source are used)"
STATUS = {"C15": "ok"}


def extract_tikz(repo=None):
    """The templates of render/tikz.py as plain data (pieces are str or Hole).

    The extractor is a symbolic execution of `get_tikz_definitions`, `render`, `_tikz_draw_fork`,
    `_tikz_draw_branches` and `measure_nodes` AS THEY ARE WRITTEN; a refactoring of those functions (renamed helpers,
    per-event emitters, a canvas class ...) can make it fail without the generated text changing at all.  That is not
    a verdict: the templates of the last source the extractor could read (kept under harness/cache/) are used
    instead, the evidence says so, and the byte-level tie of the C15 check then decides whether the refactored code
    still writes text that is an instance of those templates."""
    repo = Path(repo or REPO)
    src = (repo / "src/superrec2/render/tikz.py").read_text()
    model_src = (repo / "src/superrec2/render/model.py").read_text()
    try:
        data = TikzExtractor(src, model_src).extract()
        STATUS["C15"] = "ok"
        if repo.resolve() == Path("/repo") and CACHE.is_dir():
            for name, text in (("tikz.py.txt", src), ("render_model.py.txt", model_src)):
                if not (CACHE / name).exists() or (CACHE / name).read_text() != text:
                    (CACHE / name).write_text(text)
        return data
    except Exception as e:  # noqa
        STATUS["C15"] = (f"unavailable: the template extractor cannot read render/tikz.py any more "
                         f"({type(e).__name__}: {str(e)[:120]}); templates of the last readable source are used")
        return TikzExtractor((CACHE / "tikz.py.txt").read_text(), (CACHE / "render_model.py.txt").read_text()).extract()


def tikz_json(data=None):
    """JSON-serialisable form (holes as dicts)."""
    data = data or extract_tikz()
    out = dict(data)
    out["templates"] = [
        dict(t, pieces=[p if isinstance(p, str) else p.to_json() for p in t["pieces"]])
        for t in data["templates"]
    ]
    return out


# ---------------------------------------------------------------------------
# Lean generation


def lean_char(c):
    if c == "\n":
        return r"'\n'"
    if c == "\t":
        return r"'\t'"
    if c == "\\":
        return r"'\\'"
    if c == "'":
        return r"'\''"
    if 32 <= ord(c) < 127:
        return f"'{c}'"
    return "'\\u{%x}'" % ord(c)


def lean_chars(s):
    return "[" + ", ".join(lean_char(c) for c in s) + "]"


def lean_comment(s):
    return json.dumps(s).replace("-/", "- /").replace("/-", "/ -")


def lean_piece(p):
    if isinstance(p, str):
        return f".lit {lean_chars(p)}  -- {lean_comment(p)}"
    if p.kind == "kw":
        kind = "(.kw [" + ", ".join(lean_chars(c) for c in p.choices) + "])"
    else:
        kind = "." + p.kind
    note = p.src + ("" if p.choices is None else " in " + json.dumps(p.choices))
    return f".hole {kind}  -- {{{note}}}".replace("-/", "- /")


def lean_template(name, t):
    lines = [f"/-- `{t['function']}`, line {t['line']}"
             + (f", layer \"{t['layer']}\"" if t["layer"] else "") + f" ({t['role']}). -/"]
    lines.append(f"def {name} : Template := [")
    ps = t["pieces"]
    for i, p in enumerate(ps):
        body = lean_piece(p)
        code, _, comment = body.partition("  -- ")
        lines.append("  " + code + ("," if i + 1 < len(ps) else "") + "  -- " + comment)
    lines.append("]")
    return "\n".join(lines)


def gen_tikz_lean(data):
    out = []
    w = out.append
    w("/-")
    w("  GENERATED by harness/translate.py from /repo/src/superrec2/render/tikz.py — do not edit.")
    w("  Every string template that reaches the output of `tikz.render` (and the box sources of")
    w("  `measure_nodes`), as literal pieces and typed holes.  The generated obligations about these")
    w("  values are in `Generated/TikzObligations.lean`.")
    w("-/")
    w("import SRVerif.Model.Tikz")
    w("")
    w("namespace SR.Tikz.Generated")
    w("open SR.Tikz")
    w("")
    w(f"/-- `MAX_DIGITS` -/\ndef maxDigits : Nat := {int(data['max_digits'])}")
    w("")
    w(f"/-- keys of the `layers` dict of `render`, in insertion order -/")
    w("def layerNames : List (List Char) := [" + ", ".join(lean_chars(n) for n in data["layers"]) + "]")
    w(f"  -- {json.dumps(data['layers'])}")
    w("")
    w(f"/-- `color_prefix` -/\ndef colorPrefix : List Char := {lean_chars(data['color_prefix'])}")
    w("")
    w(f"/-- the string `render` joins its result list with -/\ndef joiner : List Char := {lean_chars(data['joiner'])}")
    w("")
    names = {}
    for t in data["templates"]:
        lname = "tmpl_" + t["name"]
        names[t["name"]] = lname
        w(lean_template(lname, t))
        w("")
    stmts = [t for t in data["templates"] if t["role"] == "statement"]
    w("/-- the statement templates with the index of their layer in `layerNames` -/")
    w("def statements : List (Nat × Template) := [")
    for i, t in enumerate(stmts):
        w(f"  ({data['layers'].index(t['layer'])}, {names[t['name']]})" + ("," if i + 1 < len(stmts) else ""))
    w("]")
    w("")
    w("/-- the box templates of `measure_nodes` -/")
    w("def boxes : List Template := ["
      + ", ".join(names[t["name"]] for t in data["templates"] if t["role"] == "box") + "]")
    w("")
    w("/-- the order in which `render` assembles its result list -/")
    w("def renderSkeleton : List Skel := [")
    sk = data["skeleton"]
    for i, s in enumerate(sk):
        item = ".defs" if s["skel"] == "defs" else f".{s['skel']} {names[s['tmpl']]}"
        w("  " + item + ("," if i + 1 < len(sk) else ""))
    w("]")
    w("")
    w("/-- every template by the name used in the harness (driver only) -/")
    w("def allTemplates : List (String × Template) := [")
    ts = data["templates"]
    for i, t in enumerate(ts):
        w(f"  (\"{t['name']}\", {names[t['name']]})" + ("," if i + 1 < len(ts) else ""))
    w("]")
    w("")
    w("end SR.Tikz.Generated")
    data_text = "\n".join(out) + "\n"
    out = []
    w = out.append
    w("/-")
    w("  GENERATED by harness/translate.py from /repo/src/superrec2/render/tikz.py — do not edit.")
    w("  Obligations on the values of `Generated/TikzTemplates.lean`, decided by the kernel.  They live")
    w("  in their own module so that the driver (which imports the data only) still builds when an")
    w("  edit of the source makes one of them fail.")
    w("-/")
    w("import SRVerif.Generated.TikzTemplates")
    w("")
    w("namespace SR.Tikz.Generated")
    w("open SR.Tikz")
    w("")
    w("/-! ## Generated obligations -/")
    w("")
    for t in data["templates"]:
        n = names[t["name"]]
        w(f"theorem {n}_balanced : Template.litBalanced {n} = true := by decide +kernel")
        if any(not isinstance(p, str) and p.kind in ("kw", "other") for p in t["pieces"]):
            w(f"theorem {n}_holes : Template.holesOK {n} = true := by decide +kernel")
        if t["role"] == "statement":
            w(f"theorem {n}_terminated : Template.terminated {n} = true := by decide +kernel")
    w("")
    w("theorem statements_balanced : statements.all (fun s => s.2.litBalanced) = true := by decide +kernel")
    w("theorem statements_holes : statements.all (fun s => s.2.holesOK) = true := by decide +kernel")
    w("theorem statements_terminated : statements.all (fun s => s.2.terminated) = true := by decide +kernel")
    # (no "one statement per line" obligation: the property does not speak of lines, no theorem used it, and a
    #  statement harmlessly written across two lines must not break an obligation)
    w("theorem statements_layers : statements.all (fun s => decide (s.1 < layerNames.length)) = true := by decide +kernel")
    w("theorem boxes_balanced : boxes.all (fun t => t.litBalanced && t.holesOK) = true := by decide +kernel")
    w("")
    begin = next((names[s["tmpl"]] for s in sk if s["skel"] == "line"), "tmpl_line_0")
    lines = [names[s["tmpl"]] for s in sk if s["skel"] == "line"]
    w("/-- the assembly order of `render`: definitions, colour definitions, `\\begin`, layers, `\\end`, \"\" -/")
    w("theorem skeleton_shape :")
    w("    renderSkeleton = [.defs, .perColor tmpl_definecolor, .line tmpl_line_0,")
    w("                      .perLayer tmpl_layer_comment, .line tmpl_line_1, .line tmpl_line_2] := by decide +kernel")
    w("theorem begin_line : tmpl_line_0 = [.lit beginPicture] := by decide +kernel")
    w("theorem end_line : tmpl_line_1 = [.lit endPicture] := by decide +kernel")
    w("theorem last_line : tmpl_line_2 = [] := by decide +kernel")
    w("theorem joiner_newline : joiner = ['\\n'] := by decide +kernel")
    w("")
    w("/-- no other template mentions the picture environment -/")
    others = [names[t["name"]] for t in data["templates"]
              if t["role"] in ("definitions", "definecolor", "comment", "color_ref")]
    w("theorem picture_env_once :")
    w("    ([" + ", ".join(others) + "] ++ statements.map (·.2)).all")
    w("      (fun t => t.countLit beginPicture == 0 && t.countLit endPicture == 0) = true := by decide +kernel")
    w("")
    w("/-- the name used for a colour is the name defined for it -/")
    for k in range(data["color_refs"]):
        w(f"theorem color_ref_{k}_shape : tmpl_color_ref_{k} = [.lit colorPrefix, .hole .index] := by decide +kernel")
    w("theorem definecolor_shape :")
    w("    tmpl_definecolor = [.lit (definecolorHead ++ colorPrefix), .hole .index, .lit definecolorMid,")
    w("                        .hole .html, .lit ['}']] := by decide +kernel")
    w("theorem layer_comment_shape : tmpl_layer_comment = [.lit ['%', ' '], .hole (.kw layerNames)] := by decide +kernel")
    # What Model/TikzDraw.lean (`stmtOf`, `C15_draw_stmtOf`) and the C13 drawing theorems READ the statement indices
    # as: 3/8/10/13 event nodes of the four kinds, 5 the loss marker, 12 the transfer arrow, every other one a plain
    # path.  Without these obligations "one event node per object node, one loss marker per loss, one arrow per
    # transfer" is a statement about indices only: swapping `speciation=` and `duplication=` in the source, or
    # drawing the loss marker as a `\\coordinate`, leaves every theorem standing.
    heads = {3: r"\node[extant gene=", 5: r"\node[loss=", 8: r"\node[speciation=", 10: r"\node[duplication=",
             12: r"\path[transfer branch=", 13: r"\node[horizontal gene transfer="}
    stmt_names = [names[t["name"]] for t in data["templates"] if t["role"] == "statement"]
    conj = []
    for k, n in enumerate(stmt_names):
        if k in heads:
            conj.append(f"Template.startsWith {n} {lean_chars(heads[k])} = true")
        else:
            conj.append(f"Template.startsWith {n} {lean_chars(chr(92) + 'path[')} = true")
            conj.append(f"Template.startsWith {n} {lean_chars(heads[12])} = false")
    w("/-- the statement kinds `Model/TikzDraw.lean` reads off the statement indices are those of the source -/")
    w("theorem statement_heads :")
    w("    " + " ∧\n    ".join(conj) + " := by decide +kernel")
    w("theorem statement_count : statements.length = " + str(len(heads) + 8) + " := by decide +kernel")
    w("")
    w("theorem defs_start :")
    w("    Template.startsWith tmpl_defs_vertical ['\\\\', 'c'] = true ∧")
    w("    Template.startsWith tmpl_defs_horizontal ['\\\\', 'c'] = true := by decide +kernel")
    w("")
    w("end SR.Tikz.Generated")
    return data_text, "\n".join(out) + "\n"


def write_if_changed(path, text):
    path.parent.mkdir(parents=True, exist_ok=True)
    if not path.exists() or path.read_text() != text:
        path.write_text(text)


def regenerate_c15():
    data = extract_tikz()
    data_text, obligations = gen_tikz_lean(data)
    write_if_changed(LEAN_GEN / "TikzTemplates.lean", data_text)
    write_if_changed(LEAN_GEN / "TikzObligations.lean", obligations)
    return ["lean/SRVerif/Generated/TikzTemplates.lean", "lean/SRVerif/Generated/TikzObligations.lean"]


# property id -> generator; later packages add their own entries (C11/C12: CLI registry)
GENERATORS = {
    "C15": regenerate_c15,
}

from harness.translate_cli import regenerate_cli  # noqa: E402

GENERATORS.update({"C11": lambda: regenerate_cli("C11"), "C12": lambda: regenerate_cli("C12")})
# Properties/C13Draw*.lean are theorems about Model/TikzDraw.lean, i.e. about Generated/TikzTemplates.lean: `./check C13`
# must regenerate it too (otherwise it proves them about whatever the last C15 run generated)
GENERATORS["C13"] = regenerate_c15


def regenerate(prop):
    fn = GENERATORS.get(str(prop).upper())
    return fn() if fn else []


if __name__ == "__main__":
    import sys

    for p in sys.argv[1:] or ["C15"]:
        print(p, regenerate(p))
