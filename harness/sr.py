"""Bridge between canonical JSON cases and the real superrec2 API.

Canonical case (all plain JSON):
  S      species tree shape: leaf = [], internal = [child, child, ...]
  O      object tree: leaf = {"s": "<species path>", "f": [family ids]?}, internal = [child, ...]
  costs  {"spe","dup","hgt","floss","sloss"}; hgt may be "inf"
  root   optional prescribed root order (list of family ids)
Species and object nodes are identified by their path from the root (string of
child indices).  A canonical solution is the object tree annotated with species
paths (and family lists): {"s": path, "f": [...], "c": [children]}.
"""
import json
import os

from ete3 import Tree
from infinity import inf

from superrec2.model.reconciliation import (
    EdgeEvent,
    NodeEvent,
    ReconciliationInput,
    ReconciliationOutput,
    SuperReconciliationInput,
    SuperReconciliationOutput,
)
from superrec2.utils.trees import LowestCommonAncestor

COST_KEYS = {
    "spe": NodeEvent.SPECIATION,
    "dup": NodeEvent.DUPLICATION,
    "hgt": NodeEvent.HORIZONTAL_TRANSFER,
    "floss": EdgeEvent.FULL_LOSS,
    "sloss": EdgeEvent.SEGMENTAL_LOSS,
}
DEFAULT_COSTS = {"spe": 0, "dup": 1, "hgt": 1, "floss": 1, "sloss": 1}


def costs_of(case, float_inf=False):
    c = dict(DEFAULT_COSTS)
    c.update(case.get("costs", {}))
    out = {}
    for k, ev in COST_KEYS.items():
        v = c[k]
        out[ev] = (float("inf") if float_inf else inf) if v == "inf" else v
    return out


def default_sname(path):
    return "S" + path if path else "SR"


def default_oname(path, leaf=None):
    if leaf is not None:
        return f"{leaf}_{path or 'r'}"
    return "O" + path if path else "OR"


def fam_name(i):
    return "abcdefghijklmnopqrstuvwxyz"[i] if i < 26 else f"f{i}"


NAME_STYLES = ("unique", "leafonly", "alike")


def presentation(case):
    """Deterministic PRESENTATION of a canonical case (a function of its trees only, so that replays and the
    several builds of one case inside a check agree without anything being stored): how the nodes are named, how
    the families are named and which object stands for an infinite cost.  None of it is part of a property's
    definitions, all of it is inside their quantifiers ("leaf-labelled trees": ancestors carry no label), and
    the package's code can depend on it (names compared instead of nodes, `is` instead of `==`, ...).
      names  unique   every node has its own name (the historical default)
             leafonly ancestors of both trees are unnamed ('' as ete3 reads "(a,b);"), leaves as before
             alike    every ancestor of both trees is called "X", leaves as before
      fams   letters  one-character names (CPython shares ONE object per such string)
             multi    g8, g9, g10, ... built afresh at every occurrence: equal strings, distinct objects;
                      'g10' < 'g9' as strings, 'g9' < 'g10' in the package's natural sort
      float_inf       float('inf') (what the command line and JSON produce) instead of infinity.inf"""
    import zlib

    h = zlib.crc32(json.dumps([case.get("S"), case.get("O")], sort_keys=True).encode())
    return {
        "names": case.get("names") or ("unique", "unique", "leafonly", "alike")[h % 4],
        "fams": case.get("fams") or ("letters", "letters", "multi")[(h >> 8) % 3],
        "float_inf": bool((h >> 16) % 4 == 0),
    }


def _s_leaf_paths(S, p=""):
    if not S:
        return [p]
    return [q for i, c in enumerate(S) for q in _s_leaf_paths(c, p + str(i))]


def styled_namers(case, style):
    if style == "unique":
        return default_sname, default_oname
    inner = "" if style == "leafonly" else "X"
    sl = set(_s_leaf_paths(case["S"]))

    def sname(path):
        return default_sname(path) if path in sl else inner

    def oname(path, leaf=None):
        return default_oname(path, leaf) if leaf is not None else inner

    return sname, oname


def multi_fam_name(i):
    return "g%d" % (i + 8)  # a NEW str object at every call


def multi_fam_index(name):
    return int(name[1:]) - 8


def present_kwargs(case, kw):
    """Resolves present="auto" in the keyword arguments of build_input / build_output / run_algo into explicit
    sname / oname / fname / float_inf (explicit arguments win); returns (kw, fidx or None)."""
    kw = dict(kw)
    fidx = None
    if kw.pop("present", None) == "auto":
        p = presentation(case)
        sname, oname = styled_namers(case, p["names"])
        kw.setdefault("sname", sname)
        kw.setdefault("oname", oname)
        if p["fams"] == "multi" and "fname" not in kw:
            kw["fname"] = multi_fam_name
            fidx = multi_fam_index
        if p["float_inf"]:
            kw.setdefault("float_inf", True)
    return kw, fidx


def species_newick(S, sname=default_sname, path=""):
    if not S:
        return sname(path)
    return "(" + ",".join(species_newick(c, sname, path + str(i)) for i, c in enumerate(S)) + ")" + sname(path)


def object_newick(O, sname=default_sname, oname=default_oname, path=""):
    if isinstance(O, dict):
        return oname(path, sname(O["s"]))
    return "(" + ",".join(object_newick(c, sname, oname, path + str(i)) for i, c in enumerate(O)) + ")" + oname(path)


def index_tree(tree):
    """node -> path and path -> node maps of an ete3 tree."""
    fwd, back = {}, {}

    def rec(node, path):
        fwd[node] = path
        back[path] = node
        for i, ch in enumerate(node.children):
            rec(ch, path + str(i))

    rec(tree, "")
    return fwd, back


def o_leaves(O, path=""):
    if isinstance(O, dict):
        yield path, O
    else:
        for i, c in enumerate(O):
            yield from o_leaves(c, path + str(i))


def has_syntenies(case):
    return any("f" in leaf for _, leaf in o_leaves(case["O"]))


def build_input(case, sname=default_sname, oname=default_oname, fname=fam_name,
                float_inf=False, force_plain=False, present=None):
    """Construct the (Super)ReconciliationInput of a canonical case (present="auto": see `presentation`)."""
    if present == "auto":
        kw, _ = present_kwargs(case, {"present": "auto"})
        sname, oname = kw["sname"], kw["oname"]
        fname = kw.get("fname", fname)
        float_inf = kw.get("float_inf", float_inf)
    stree = Tree(species_newick(case["S"], sname) + ";", format=1)
    otree = Tree(object_newick(case["O"], sname, oname) + ";", format=1)
    _, sback = index_tree(stree)
    _, oback = index_tree(otree)
    leaf_species = {}
    leaf_syn = {}
    for path, leaf in o_leaves(case["O"]):
        leaf_species[oback[path]] = sback[leaf["s"]]
        if "f" in leaf:
            leaf_syn[oback[path]] = [fname(f) for f in leaf["f"]]
    if case.get("root") is not None:
        leaf_syn[otree] = [fname(f) for f in case["root"]]
    costs = costs_of(case, float_inf)
    if has_syntenies(case) and not force_plain:
        return SuperReconciliationInput(
            object_tree=otree,
            species_lca=LowestCommonAncestor(stree),
            leaf_object_species=leaf_species,
            costs=costs,
            leaf_syntenies=leaf_syn,
        )
    return ReconciliationInput(
        object_tree=otree,
        species_lca=LowestCommonAncestor(stree),
        leaf_object_species=leaf_species,
        costs=costs,
    )


def canon_solution(out, fidx=None):
    """Canonical form of a (Super)ReconciliationOutput: annotated object tree."""
    sfwd, _ = index_tree(out.input.species_lca.tree)
    syn = getattr(out, "syntenies", None)
    if fidx is None:
        fidx = lambda name: ("abcdefghijklmnopqrstuvwxyz".index(name) if len(name) == 1 else int(name[1:]))

    def rec(node):
        d = {"s": sfwd[out.object_species[node]]}
        if syn is not None:
            fams = [fidx(f) for f in syn[node]]
            d["f"] = fams if out.ordered else sorted(fams)
        if node.children:
            d["c"] = [rec(ch) for ch in node.children]
        return d

    return rec(out.input.object_tree)


def solution_key(sol):
    return json.dumps(sol, sort_keys=True, separators=(",", ":"))


def build_output(case, sol, ordered=True, **kw):
    """Construct a (Super)ReconciliationOutput from a canonical solution."""
    kw, _ = present_kwargs(case, kw)
    inp = build_input(case, **kw)
    _, sback = index_tree(inp.species_lca.tree)
    fname = kw.get("fname", fam_name)
    mapping, syn = {}, {}

    def rec(node, s):
        mapping[node] = sback[s["s"]]
        if "f" in s:
            syn[node] = [fname(f) for f in s["f"]]
        for ch, cs in zip(node.children, s.get("c", [])):
            rec(ch, cs)

    rec(inp.object_tree, sol)
    if isinstance(inp, SuperReconciliationInput) and syn:
        return SuperReconciliationOutput(input=inp, object_species=mapping, syntenies=syn, ordered=ordered)
    return ReconciliationOutput(input=inp, object_species=mapping)


def enc_cost(v):
    if v == inf or v == float("inf"):
        return "inf"
    return int(v)


def algorithms():
    from superrec2.compute.exhaustive import reconcile_exhaustive
    from superrec2.compute.reconciliation import reconcile_lca, reconcile_thl
    from superrec2.compute.super_reconciliation import (
        sreconcile_base_spfs,
        sreconcile_extended_spfs,
    )
    from superrec2.compute.unordered_super_reconciliation import (
        usreconcile_base_uspfs,
        usreconcile_extended_uspfs,
    )

    return {
        "exh": reconcile_exhaustive,
        "lca": reconcile_lca,
        "thl": reconcile_thl,
        "base_spfs": sreconcile_base_spfs,
        "ext_spfs": sreconcile_extended_spfs,
        "base_uspfs": usreconcile_base_uspfs,
        "superdtl": usreconcile_extended_uspfs,
    }


PLAIN = ("exh", "lca", "thl")


# A changed package may stop answering (an enumeration that explodes, a loop that does not end).  A check must still
# end: every solver call made through run_algo runs under a watchdog; the first call that exceeds it is reported as a
# failure of that call ({"err": "Timeout"}) and the streams stop asking the solvers for more (TIMED_OUT).
SOLVER_TIMEOUT = float(os.environ.get("VERIF_SOLVER_TIMEOUT", "150"))
TIMED_OUT = []


class SolverTimeout(BaseException):
    pass


class watchdog:
    def __enter__(self):
        import signal
        import threading

        self.armed = threading.current_thread() is threading.main_thread() and SOLVER_TIMEOUT > 0
        if self.armed:
            def on_alarm(signum, frame):
                raise SolverTimeout()

            self.old = signal.signal(signal.SIGALRM, on_alarm)
            signal.setitimer(signal.ITIMER_REAL, SOLVER_TIMEOUT)
        return self

    def __exit__(self, *exc):
        import signal

        if self.armed:
            signal.setitimer(signal.ITIMER_REAL, 0)
            signal.signal(signal.SIGALRM, self.old)
        return False


def run_algo(case, algo, policy="all", **kw):
    """Run an algorithm of the package on a canonical case.

    Returns {"cost": c | None, "sols": sorted canonical solutions} or {"err": kind}."""
    import contextlib
    import io

    from superrec2.utils.dynamic_programming import RetentionPolicy

    kw, fidx = present_kwargs(case, kw)
    inp = build_input(case, force_plain=(algo in PLAIN), **kw)
    fn = algorithms()[algo]
    try:
        with watchdog(), contextlib.redirect_stderr(io.StringIO()):
            if algo == "lca":
                outs = [fn(inp)]
            else:
                outs = list(fn(inp, getattr(RetentionPolicy, policy.upper())))
    except SolverTimeout:
        TIMED_OUT.append((algo, policy))
        return {"err": "Timeout", "msg": f"no answer within {SOLVER_TIMEOUT:.0f} s (the inputs of these checks are "
                                         f"solved in well under a second by the unchanged package and by the model)"}
    except Exception as e:  # noqa
        return {"err": type(e).__name__, "msg": str(e)[:200]}
    try:
        costs = sorted({enc_cost(o.cost()) for o in outs}, key=str)
        sols = sorted((canon_solution(o, fidx=fidx) for o in outs), key=solution_key)
    except Exception as e:  # noqa
        return {"err": "cost:" + type(e).__name__, "msg": str(e)[:200]}
    return {"cost": costs[0] if len(costs) == 1 else (None if not costs else costs), "sols": sols,
            "outs": outs}


def derive_case(inp, costs=None, fidx=None):
    """Canonical case of an actual (Super)ReconciliationInput (e.g. a binarised one)."""
    if fidx is None:
        fidx = lambda name: ("abcdefghijklmnopqrstuvwxyz".index(name) if len(name) == 1 else int(name[1:]))
    sfwd, _ = index_tree(inp.species_lca.tree)
    syn = getattr(inp, "leaf_syntenies", None)

    def sshape(node):
        return [sshape(c) for c in node.children]

    def oshape(node):
        if node.is_leaf():
            d = {"s": sfwd[inp.leaf_object_species[node]]}
            if syn is not None and node in syn:
                d["f"] = [fidx(f) for f in syn[node]]
            return d
        return [oshape(c) for c in node.children]

    case = {"S": sshape(inp.species_lca.tree), "O": oshape(inp.object_tree)}
    if costs is not None:
        case["costs"] = costs
    if syn is not None and inp.object_tree in syn and not inp.object_tree.is_leaf():
        case["root"] = [fidx(f) for f in syn[inp.object_tree]]
    return case


def leaf_data_by_name(inp):
    """{leaf name: (species name, synteny)} of an input: what refinements must preserve."""
    syn = getattr(inp, "leaf_syntenies", {}) or {}
    return {
        leaf.name: (inp.leaf_object_species[leaf].name, tuple(syn.get(leaf, ())))
        for leaf in inp.object_tree.get_leaves()
    }
