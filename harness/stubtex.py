"""Stub TeX measurer: replaces superrec2.utils.tex.measure in-process (no TeX engine here).

`install(fn)` makes tex.measure return, for each box source text, the MeasureBox chosen by
`fn(index, text)`; by default dyadic sizes derived from a hash of the text, so that Python float
arithmetic on them is exact (multiples of 1/4 between 1 and 100)."""
import hashlib
from fractions import Fraction


def default_size(index, text, salt=0):
    h = int(hashlib.sha1(f"{salt}:{text}".encode()).hexdigest(), 16)
    w = Fraction(4 + h % 385, 4)          # 1 .. 97.25 in steps of 1/4
    ht = Fraction(4 + (h >> 16) % 200, 4)
    dp = Fraction((h >> 32) % 40, 4)
    return (float(w), float(ht), float(dp))


def install(fn=None, record=None):
    """Patch tex.measure.  `record`, if given, is a list receiving every batch of texts."""
    from superrec2.utils import tex

    fn = fn or default_size

    def measure(texts, preamble=""):
        texts = list(texts)
        if record is not None:
            record.append(texts)
        return [tex.MeasureBox(*fn(i, t)) for i, t in enumerate(texts)]

    tex.measure = measure
    return measure
